(* PublisherProofs.v — invariants of the publisher model and the simulation between the model (PublisherDefs:
   step) and the reference monitor (PublisherDefs: mon_step).  Main result: for EVERY op list (any number of
   subscribers, any min/max configuration, any interleaving of the split next() steps) the monitor's judgement on
   the model's own trace is `good`, and the invariant Inv relates the queue state to what the monitor recorded. *)
From Cocls Require Import Base BaseProofs PublisherDefs.
Require Import ZifyBool.
Ltac Zify.zify_post_hook ::= Z.div_mod_to_equations.
Local Open Scope Z_scope.

(* ------------------------------------------------------------------ arithmetic *)
Lemma wrap_small z : 0 <= z < W -> wrap z = z.
Proof. intros H. unfold wrap. apply Z.mod_small. exact H. Qed.

Lemma wrap_range z : 0 <= wrap z < W.
Proof. unfold wrap. apply Z.mod_pos_bound. reflexivity. Qed.

Lemma wrap_neg z : - W <= z < 0 -> wrap z = z + W.
Proof.
  intros H. unfold wrap. symmetry. apply (Z.mod_unique z W (-1) (z + W)); [left|]; unfold W in *; lia.
Qed.

Lemma HALF_W : HALF * 4 = W. Proof. reflexivity. Qed.

Lemma zlen_nonneg {A} (l : list A) : 0 <= zlen l. Proof. unfold zlen. lia. Qed.
Lemma zlen_app {A} (a b : list A) : zlen (a ++ b) = zlen a + zlen b.
Proof. unfold zlen. rewrite app_length. lia. Qed.
Lemma zlen_cons {A} (x : A) l : zlen (x :: l) = zlen l + 1.
Proof. unfold zlen. cbn [length]. lia. Qed.
Lemma zlen_nil {A} : zlen (@nil A) = 0. Proof. reflexivity. Qed.
Lemma zlen_firstn {A} (k : nat) (l : list A) : zlen (firstn k l) = Z.min (Z.of_nat k) (zlen l).
Proof. unfold zlen. rewrite firstn_length. lia. Qed.
Lemma zlen_rev {A} (l : list A) : zlen (rev l) = zlen l.
Proof. unfold zlen. rewrite rev_length. reflexivity. Qed.
Lemma zlen_map {A B} (f : A -> B) l : zlen (map f l) = zlen l.
Proof. unfold zlen. rewrite map_length. reflexivity. Qed.

(* ------------------------------------------------------------------ registrations as a store *)
Lemma length_set_nth {A} (l : list A) i x : length (set_nth l i x) = length l.
Proof. revert i; induction l as [|y l IH]; intros [|i]; cbn; try reflexivity. rewrite IH. reflexivity. Qed.

Lemma rget_set_same l h x : (h < length l)%nat -> rget (set_nth l h x) h = x.
Proof.
  intros H. unfold rget. apply nth_error_nth. apply nth_error_set_nth_same. exact H.
Qed.

Lemma rget_nth_error l h : (h < length l)%nat -> nth_error l h = Some (rget l h).
Proof. intros H. unfold rget. apply nth_error_nth'. exact H. Qed.

Lemma rget_beyond l h : (length l <= h)%nat -> rget l h = reg0.
Proof. intros H. unfold rget. apply nth_overflow. exact H. Qed.

Lemma rget_set_other l h k x : h <> k -> rget (set_nth l h x) k = rget l k.
Proof.
  intros H. unfold rget.
  destruct (Nat.lt_ge_cases k (length l)) as [L|L].
  - apply nth_error_nth. rewrite nth_error_set_nth_other by exact H. apply nth_error_nth'. exact L.
  - rewrite !nth_overflow; [reflexivity|exact L|rewrite length_set_nth; exact L].
Qed.

Lemma rget_used_lt l h : r_used (rget l h) = true -> (h < length l)%nat.
Proof.
  intros H. destruct (Nat.lt_ge_cases h (length l)) as [L|L]; [exact L|].
  rewrite rget_beyond in H by exact L. discriminate.
Qed.

Lemma rget_app_l l x h : (h < length l)%nat -> rget (l ++ [x]) h = rget l h.
Proof. intros H. unfold rget. apply app_nth1. exact H. Qed.
Lemma rget_app_new l x : rget (l ++ [x]) (length l) = x.
Proof. unfold rget. rewrite app_nth2 by lia. rewrite Nat.sub_diag. reflexivity. Qed.

Lemma rget_map_clear l h : rget (map clear_reg l) h = clear_reg (rget l h).
Proof.
  unfold rget. change reg0 with (clear_reg reg0) at 1. apply map_nth.
Qed.

Lemma set_nth_split {A} (l : list A) h x : (h < length l)%nat ->
  exists l1 y l2, l = l1 ++ y :: l2 /\ length l1 = h /\ set_nth l h x = l1 ++ x :: l2.
Proof.
  revert h; induction l as [|z l IH]; intros [|h] H; cbn in *; try lia.
  - exists [], z, l. repeat split.
  - destruct (IH h) as (l1 & y & l2 & E1 & E2 & E3); [lia|].
    exists (z :: l1), y, l2. cbn. rewrite <- E1, E2, E3. repeat split.
Qed.

Lemma rget_split l1 (y : reg) l2 : rget (l1 ++ y :: l2) (length l1) = y.
Proof. unfold rget. rewrite app_nth2 by lia. rewrite Nat.sub_diag. reflexivity. Qed.

(* ------------------------------------------------------------------ the free list (threaded through _pos) *)
Inductive freelist (rs : list reg) : Z -> list nat -> Prop :=
| fl_nil : freelist rs (zlen rs) []
| fl_cons h t : (h < length rs)%nat -> r_used (rget rs h) = false -> ~ In h t ->
                freelist rs (r_pos (rget rs h)) t -> freelist rs (Z.of_nat h) (h :: t).

Lemma freelist_unused rs nf fl : freelist rs nf fl -> forall h, In h fl -> r_used (rget rs h) = false.
Proof.
  induction 1 as [|h t L U N F IH]; intros k K; [destruct K|].
  destruct K as [<-|K]; [exact U|apply IH; exact K].
Qed.

Lemma freelist_set_other rs nf fl h x : freelist rs nf fl -> ~ In h fl ->
  freelist (set_nth rs h x) nf fl.
Proof.
  induction 1 as [|k t L U N F IH]; intros NI.
  - replace (zlen rs) with (zlen (set_nth rs h x)) by (unfold zlen; rewrite length_set_nth; reflexivity).
    constructor.
  - assert (h <> k) by (intros ->; apply NI; left; reflexivity).
    constructor.
    + rewrite length_set_nth. exact L.
    + rewrite rget_set_other by exact H. exact U.
    + exact N.
    + rewrite rget_set_other by exact H. apply IH. intros K. apply NI. right. exact K.
Qed.

Lemma freelist_head rs nf fl : freelist rs nf fl ->
  (fl = [] /\ nf = zlen rs) \/ (exists h t, fl = h :: t /\ nf = Z.of_nat h /\ (h < length rs)%nat).
Proof. destruct 1; [left; split; reflexivity|right; eauto]. Qed.

(* ------------------------------------------------------------------ awaiters stored in the registrations *)
Definition awt_of (x : reg) : list Z := olist (r_awt x).

Lemma in_flat_map_rget (f : reg -> list Z) l a :
  In a (flat_map f l) <-> exists h, (h < length l)%nat /\ In a (f (rget l h)).
Proof.
  rewrite in_flat_map. split.
  - intros (x & I & J). apply In_nth_error in I. destruct I as (h & I).
    exists h. assert (L : (h < length l)%nat) by (apply nth_error_Some; congruence).
    split; [exact L|]. rewrite (rget_nth_error l h L) in I. injection I as <-. exact J.
  - intros (h & L & J). exists (rget l h). split; [|exact J].
    eapply nth_error_In. apply rget_nth_error. exact L.
Qed.

Lemma NoDup_app_remove_l {A} (l l' : list A) : NoDup (l ++ l') -> NoDup l'.
Proof. induction l as [|x l IH]; cbn; intros N; [exact N|]. inversion N; subst. apply IH. assumption. Qed.

Lemma NoDup_flat_map_sub (f g : reg -> list Z) l :
  (forall x, g x = f x \/ g x = []) -> NoDup (flat_map f l) -> NoDup (flat_map g l).
Proof.
  intros FG. induction l as [|x l IH]; cbn; intros N; [constructor|].
  assert (INC : forall a, In a (flat_map g l) -> In a (flat_map f l)).
  { intros a. rewrite !in_flat_map. intros (y & I & J). exists y. split; [exact I|].
    destruct (FG y) as [E|E]; rewrite E in J; [exact J|destruct J]. }
  destruct (FG x) as [E|E]; rewrite E.
  - apply NoDup_app_remove_l in N as N2.
    clear E. induction (f x) as [|a fx IHf]; cbn in *; [apply IH; exact N2|].
    inversion N as [|? ? NA NN]; subst. constructor.
    + intros I. apply NA. apply in_app_iff in I. apply in_app_iff. destruct I as [I|I]; [left; exact I|right; apply INC; exact I].
    + apply IHf. exact NN.
  - cbn. apply IH. apply NoDup_app_remove_l in N. exact N.
Qed.

Lemma NoDup_drop_mid {A} (a b c : list A) : NoDup (a ++ b ++ c) -> NoDup (a ++ c).
Proof.
  induction a as [|x a IH]; cbn; intros N.
  - apply NoDup_app_remove_l in N. exact N.
  - inversion N as [|? ? NA NN]; subst. constructor; [|apply IH; exact NN].
    intros I. apply NA. apply in_app_iff in I. apply in_app_iff. destruct I as [I|I]; [left; exact I|].
    right. apply in_app_iff. right. exact I.
Qed.

Lemma NoDup_insert_mid {A} (a c : list A) b : NoDup (a ++ c) -> ~ In b (a ++ c) -> NoDup (a ++ [b] ++ c).
Proof.
  intros N I. cbn. apply (Permutation_NoDup (Permutation_middle a c b)). constructor; assumption.
Qed.

Lemma flat_map_split (f : reg -> list Z) l1 y l2 :
  flat_map f (l1 ++ y :: l2) = flat_map f l1 ++ f y ++ flat_map f l2.
Proof. rewrite flat_map_app. reflexivity. Qed.

(* replacing the awaiter of one slot by a fresh id (or by nothing) keeps the stored ids distinct *)
Lemma awt_set_fresh l h x (b : Z) :
  (h < length l)%nat -> NoDup (flat_map awt_of l) -> (forall a, In a (flat_map awt_of l) -> a < b) ->
  (awt_of x = [] \/ awt_of x = [b] \/ awt_of x = awt_of (rget l h)) ->
  NoDup (flat_map awt_of (set_nth l h x)) /\ (forall a, In a (flat_map awt_of (set_nth l h x)) -> a < b + 1).
Proof.
  intros L N B X.
  destruct (set_nth_split l h x L) as (l1 & y & l2 & E1 & E2 & E3).
  assert (Y : rget l h = y) by (rewrite E1, <- E2; apply rget_split).
  rewrite E3. rewrite E1 in N, B. rewrite flat_map_split in *. rewrite Y in X.
  assert (N12 : NoDup (flat_map awt_of l1 ++ flat_map awt_of l2)).
  { apply NoDup_drop_mid with (b := awt_of y). exact N. }
  assert (B12 : forall a, In a (flat_map awt_of l1 ++ flat_map awt_of l2) -> a < b).
  { intros a I. apply B. apply in_app_iff in I. apply in_app_iff. destruct I as [I|I]; [left; exact I|].
    right. apply in_app_iff. right. exact I. }
  destruct X as [X|[X|X]]; rewrite X.
  - cbn [app]. split; [exact N12|]. intros a I. specialize (B12 a I). lia.
  - split.
    + apply (NoDup_insert_mid _ _ b); [exact N12|]. intros I. specialize (B12 b I). lia.
    + intros a I. apply in_app_iff in I. destruct I as [I|I].
      * assert (a < b) by (apply B12; apply in_app_iff; left; exact I). lia.
      * destruct I as [<-|I]; [lia|].
        assert (a < b) by (apply B12; apply in_app_iff; right; exact I). lia.
  - split; [exact N|]. intros a I. specialize (B a I). lia.
Qed.

(* ------------------------------------------------------------------ the retained window *)
Definition win (lg qd : list Z) : Prop := exists k, qd = firstn k (rev lg).

Lemma win_len lg qd : win lg qd -> zlen qd <= zlen lg.
Proof. intros (k & ->). rewrite zlen_firstn, zlen_rev. lia. Qed.

Lemma win_push lg qd vs : win lg qd -> win (lg ++ vs) (rev vs ++ qd).
Proof.
  intros (k & ->). exists (length (rev vs) + k)%nat. rewrite rev_app_distr. rewrite firstn_app_2. reflexivity.
Qed.

Lemma win_trim lg qd j : win lg qd -> win lg (firstn j qd).
Proof. intros (k & ->). exists (Nat.min j k). apply firstn_firstn. Qed.

Lemma win_nth lg qd i : win lg qd -> 0 <= i < zlen qd ->
  nth_error qd (Z.to_nat i) = Some (nthz lg (zlen lg - 1 - i)).
Proof.
  intros (k & ->) H. rewrite zlen_firstn, zlen_rev in H.
  assert (L : (Z.to_nat i < length lg)%nat) by (unfold zlen in H; lia).
  assert (E : nth_error (firstn k (rev lg)) (Z.to_nat i) = nth_error (rev lg) (Z.to_nat i)).
  { rewrite <- (firstn_skipn k (rev lg)) at 2. rewrite nth_error_app1; [reflexivity|].
    rewrite firstn_length, rev_length. lia. }
  rewrite E. rewrite (nth_error_nth' (rev lg) 0) by (rewrite rev_length; exact L).
  f_equal. rewrite rev_nth by exact L. unfold nthz. f_equal. unfold zlen. lia.
Qed.

(* queue-level invariant against the published log *)
Record Gq (lg : list Z) (q : pubq) : Prop := {
  g_min : 1 <= minl q;
  g_max : minl q <= maxl q < W;
  g_pos : qpos q = zlen lg + 1;
  g_half : zlen lg + 1 < HALF;
  g_win : win lg (qd q);
  g_len : Z.min (minl q) (zlen lg) <= zlen (qd q) }.

Lemma need_of_ge p l nd : nd <= need_of p l nd.
Proof.
  revert nd; induction l as [|x l IH]; intros nd; cbn [need_of]; [lia|].
  destruct (r_used x); [|apply IH]. specialize (IH (Z.max nd (wrap (p - r_pos x)))). lia.
Qed.

Lemma need_of_mono p l a b : a <= b -> need_of p l a <= need_of p l b.
Proof.
  revert a b; induction l as [|x l IH]; intros a b H; cbn [need_of]; [exact H|].
  destruct (r_used x); apply IH; lia.
Qed.

Lemma need_of_used p l nd x : In x l -> r_used x = true -> wrap (p - r_pos x) <= need_of p l nd.
Proof.
  revert nd; induction l as [|y l IH]; intros nd I U; [destruct I|].
  cbn [need_of]. destruct I as [->|I].
  - rewrite U. pose proof (need_of_ge p l (Z.max nd (wrap (p - r_pos x)))). lia.
  - apply IH; assumption.
Qed.

Lemma need_of_rget p l nd h : r_used (rget l h) = true -> wrap (p - r_pos (rget l h)) <= need_of p l nd.
Proof.
  intros U. apply need_of_used; [|exact U].
  eapply nth_error_In. apply rget_nth_error. apply rget_used_lt. exact U.
Qed.

Lemma push_lk_spec lg q vs :
  Gq lg q -> zlen lg + zlen vs + 1 < HALF ->
  let q0 := mkQ (regs q) (next_free q) (rev vs ++ qd q) (qpos q) (closed q) (minl q) (maxl q) in
  let q' := fst (push_lk q0 (zlen vs)) in
  Gq (lg ++ vs) q' /\ regs q' = map clear_reg (regs q) /\ next_free q' = next_free q /\ closed q' = closed q /\
  minl q' = minl q /\ maxl q' = maxl q /\
  zlen (qd q') = Z.min (Z.min (need_of (zlen lg + zlen vs + 1) (regs q) (minl q)) (maxl q)) (zlen (qd q) + zlen vs) /\
  snd (push_lk q0 (zlen vs)) = flat_map wake_of (regs q).
Proof.
  intros G B q0 q'. destruct G as [G1 G2 G3 G4 G5 G6].
  pose proof (zlen_nonneg vs) as V. pose proof (zlen_nonneg lg) as LG. pose proof (zlen_nonneg (qd q)) as QN.
  assert (HW : HALF < W) by reflexivity.
  assert (P : wrap (qpos q + zlen vs) = zlen lg + zlen vs + 1).
  { rewrite G3. rewrite wrap_small; lia. }
  unfold q', push_lk, q0. cbn [regs next_free qd qpos closed minl maxl fst snd]. rewrite P.
  set (need := need_of (zlen lg + zlen vs + 1) (regs q) (minl q)).
  assert (ND : minl q <= need) by apply need_of_ge.
  assert (QL : zlen (rev vs ++ qd q) = zlen (qd q) + zlen vs) by (rewrite zlen_app, zlen_rev; lia).
  rewrite QL.
  set (nn := Z.min (Z.min need (maxl q)) (zlen (qd q) + zlen vs)).
  assert (NN : 0 <= nn) by (unfold nn; lia).
  assert (ZL : zlen (firstn (Z.to_nat nn) (rev vs ++ qd q)) = nn).
  { rewrite zlen_firstn, QL. unfold nn. lia. }
  repeat split; cbn [regs next_free qd qpos closed minl maxl]; try assumption; try reflexivity; try lia.
  - rewrite zlen_app. lia.
  - rewrite zlen_app. lia.
  - apply win_trim. apply win_push. exact G5.
  - rewrite ZL, zlen_app. pose proof (win_len _ _ G5). unfold nn. lia.
Qed.

(* kick_lk finds the unique used registration of a subscriber *)
Lemma kick_regs_none sub l :
  (forall h, (h < length l)%nat -> r_used (rget l h) = true -> r_sub (rget l h) <> sub) ->
  kick_regs sub l = (l, None).
Proof.
  induction l as [|x l IH]; intros H; [reflexivity|].
  cbn [kick_regs].
  destruct (r_used x && (r_sub x =? sub)) eqn:E.
  - exfalso. apply andb_prop in E. destruct E as [E1 E2]. apply (H 0%nat); cbn; [lia|exact E1|lia].
  - rewrite IH; [reflexivity|]. intros h L U. apply (H (S h)); cbn; [lia|exact U].
Qed.

Lemma kick_regs_at sub l h :
  (h < length l)%nat -> r_used (rget l h) = true -> r_sub (rget l h) = sub ->
  (forall k, (k < length l)%nat -> r_used (rget l k) = true -> r_sub (rget l k) = sub -> k = h) ->
  kick_regs sub l =
  (set_nth l h (mkReg (r_pos (rget l h)) (r_sub (rget l h)) None (r_used (rget l h)) true), r_awt (rget l h)).
Proof.
  revert h; induction l as [|x l IH]; intros h L U SB UNI; [cbn in L; lia|].
  cbn [kick_regs]. destruct h as [|h].
  - cbn in U, SB. unfold rget in *. cbn [nth] in *. rewrite U, SB, Z.eqb_refl. reflexivity.
  - destruct (r_used x && (r_sub x =? sub)) eqn:E.
    + exfalso. apply andb_prop in E. destruct E as [E1 E2].
      assert (0%nat = S h); [|discriminate]. apply UNI; cbn; [lia|exact E1|lia].
    + rewrite (IH h); [reflexivity| | | |].
      * cbn in L. lia.
      * exact U.
      * exact SB.
      * intros k Lk Uk Sk. assert (S k = S h); [|congruence]. apply UNI; cbn; [lia|exact Uk|exact Sk].
Qed.

(* ------------------------------------------------------------------ the simulation invariant *)
Definition lastp (r : srec) : Z := last_pos (m_start r) (m_deliv r).

(* position of a live subscriber that has not seen an end of stream yet, against what the monitor recorded.
   n = number of published values, qlen = retained window, cl = closed, mx = max queue length *)
Definition pos_ok (n qlen : Z) (cl : bool) (mx : Z) (l : reg) (r : srec) : Prop :=
  0 <= m_start r /\
  (m_mode r = 0 ->
     (r_pos l = consumed r \/ r_pos l = consumed r + 1) /\
     (idle_pc (m_pc r) = true -> r_pos l = consumed r) /\
     (idle_pc (m_pc r) = false -> m_kicked r = false -> r_pos l = consumed r + 1) /\
     (m_lost r = false -> consumed r <= n /\ n - consumed r <= qlen /\ n - consumed r <= mx /\
        (m_pc r = PAdv -> m_kicked r = false -> consumed r = n -> cl = true))) /\
  (m_mode r <> 0 ->
     0 <= lastp r /\
     (idle_pc (m_pc r) = true -> lastp r <= r_pos l) /\
     (idle_pc (m_pc r) = false -> m_kicked r = false -> lastp r < r_pos l) /\
     (m_lost r = false -> r_pos l <= n + 1 /\ (idle_pc (m_pc r) = true -> r_pos l <= n) /\
        (m_pc r = PAdv -> m_kicked r = false -> r_pos l = n + 1 -> cl = true))).

Definition awt_pc (p : pc) : option Z := match p with PParked a => Some a | _ => None end.

Definition sub_ok (n qlen : Z) (cl : bool) (mx : Z) (s : nat) (o : sobj) (l : reg) (r : srec) : Prop :=
  r_used l = true /\ r_sub l = Z.of_nat s /\ m_mode r = s_mode o /\ valid_mode (s_mode o) = true /\
  r_kicked l = m_kicked r /\ m_cur r = r_pos l /\ 0 <= r_pos l < HALF /\
  r_awt l = awt_pc (m_pc r) /\
  (m_eos r = false -> pos_ok n qlen cl mx l r).

Record Inv (e : tst) (m : mon) : Prop := {
  i_g : Gq (m_log m) (pq e);
  i_mm : m_min m = minl (pq e) /\ m_max m = maxl (pq e);
  i_cl : closed (pq e) = m_closed m;
  i_fl : exists fl, freelist (regs (pq e)) (next_free (pq e)) fl;
  i_awt : NoDup (flat_map awt_of (regs (pq e))) /\ (forall a, In a (flat_map awt_of (regs (pq e))) -> a < nawt e);
  i_none : forall s, get (objs e) s = None <-> get (m_subs m) s = None;
  i_live : forall s o r, get (objs e) s = Some o -> get (m_subs m) s = Some r -> s_live o = m_live r;
  i_sub : forall s o r, live_obj e s = Some o -> get (m_subs m) s = Some r ->
          sub_ok (npub m) (zlen (qd (pq e))) (closed (pq e)) (maxl (pq e)) s o (rget (regs (pq e)) (s_h o)) r;
  i_inj : forall s1 s2 o1 o2, live_obj e s1 = Some o1 -> live_obj e s2 = Some o2 -> s_h o1 = s_h o2 -> s1 = s2;
  i_own : forall h, r_used (rget (regs (pq e)) h) = true -> exists s o, live_obj e s = Some o /\ s_h o = h }.

(* what is carried through every run: the judgement holds, and the invariant unless the environment broke the rules *)
Definition R (e : tst) (m : mon) : Prop := good_b m = true /\ (m_viol m = true \/ Inv e m).

Lemma live_obj_get e s o : live_obj e s = Some o -> get (objs e) s = Some o /\ s_live o = true.
Proof.
  unfold live_obj. destruct (get (objs e) s) as [o'|]; [|discriminate].
  destruct (s_live o') eqn:E; [|discriminate]. intros H. injection H as <-. split; [reflexivity|exact E].
Qed.

Lemma live_obj_intro e s o : get (objs e) s = Some o -> s_live o = true -> live_obj e s = Some o.
Proof. intros G L. unfold live_obj. rewrite G, L. reflexivity. Qed.

Lemma inv_rec e m s o : Inv e m -> live_obj e s = Some o ->
  exists r, get (m_subs m) s = Some r /\ m_live r = true.
Proof.
  intros I L. apply live_obj_get in L as (G & LV).
  destruct (get (m_subs m) s) as [r|] eqn:E.
  - exists r. split; [reflexivity|]. rewrite <- (i_live _ _ I s o r G E). exact LV.
  - apply (i_none _ _ I) in E. congruence.
Qed.

Lemma Gq_same lg q q' : Gq lg q -> qd q' = qd q -> qpos q' = qpos q -> minl q' = minl q -> maxl q' = maxl q ->
  Gq lg q'.
Proof. intros [A B C D E F] E1 E2 E3 E4. constructor; rewrite ?E1, ?E2, ?E3, ?E4; assumption. Qed.

Lemma set_nth_rget l h : (h < length l)%nat -> set_nth l h (rget l h) = l.
Proof.
  revert h; induction l as [|x l IH]; intros [|h] H; cbn in *; try lia; [reflexivity|].
  f_equal. apply IH. lia.
Qed.

Lemma set_reg_same q h : (h < length (regs q))%nat -> set_reg q h (rget (regs q) h) = q.
Proof. intros H. unfold set_reg, with_regs. rewrite set_nth_rget by exact H. destruct q; reflexivity. Qed.

Lemma forallb_set_nth {A} (f : A -> bool) l i x : forallb f l = true -> f x = true -> forallb f (set_nth l i x) = true.
Proof.
  revert i; induction l as [|y l IH]; intros [|i] H X; cbn in *; try reflexivity.
  - apply andb_prop in H as [_ H]. rewrite X, H. reflexivity.
  - apply andb_prop in H as [H1 H2]. rewrite H1, IH by assumption. reflexivity.
Qed.

Lemma forallb_ensure {A} (f : option A -> bool) l i : f None = true -> forallb f l = true -> forallb f (ensure l i) = true.
Proof.
  intros N. revert l; induction i as [|i IH]; intros [|y l] H; cbn in *; try assumption.
  - rewrite N. reflexivity.
  - rewrite N. rewrite IH; reflexivity.
  - apply andb_prop in H as [H1 H2]. rewrite H1, IH by assumption. reflexivity.
Qed.

Lemma forallb_put {A} (f : option A -> bool) l i x : f None = true -> forallb f l = true -> f x = true ->
  forallb f (put l i x) = true.
Proof. intros N H X. unfold put. apply forallb_set_nth; [apply forallb_ensure; assumption|exact X]. Qed.

Lemma get_In {A} (l : list (option A)) s r : get l s = Some r -> In (Some r) l.
Proof.
  unfold get. destruct (nth_error l s) as [[x|]|] eqn:E; try discriminate.
  intros H. injection H as <-. eapply nth_error_In. exact E.
Qed.

Lemma In_get {A} (l : list (option A)) r : In (Some r) l -> exists s, get l s = Some r.
Proof. intros I. apply In_nth_error in I as (s & E). exists s. unfold get. rewrite E. reflexivity. Qed.

Lemma good_set_sub m s r : good_b m = true -> rec_good_b (m_log m) (Some r) = true -> good_b (set_sub m s r) = true.
Proof.
  unfold good_b, set_sub. cbn [m_bad m_subs m_log]. intros H X.
  apply andb_prop in H as [H1 H2]. rewrite H1. cbn [andb]. apply forallb_put; [reflexivity|exact H2|exact X].
Qed.

Lemma good_rec m s r : good_b m = true -> get (m_subs m) s = Some r -> rec_good_b (m_log m) (Some r) = true.
Proof.
  unfold good_b. intros H G. apply andb_prop in H as [_ H]. rewrite forallb_forall in H. apply H.
  apply get_In with (s := s). exact G.
Qed.

Lemma good_add_bad m : good_b m = true -> good_b (add_bad m false) = true.
Proof. unfold good_b, add_bad. cbn [m_bad m_subs m_log]. rewrite orb_false_r. trivial. Qed.

(* an operation of subscriber s that touches only its own registration *)
Lemma local_update e m s o r l' r' na :
  Inv e m -> live_obj e s = Some o -> get (m_subs m) s = Some r -> m_live r' = true ->
  sub_ok (npub m) (zlen (qd (pq e))) (closed (pq e)) (maxl (pq e)) s o l' r' ->
  (NoDup (flat_map awt_of (set_nth (regs (pq e)) (s_h o) l')) /\
   forall a, In a (flat_map awt_of (set_nth (regs (pq e)) (s_h o) l')) -> a < na) ->
  Inv (mkT (set_reg (pq e) (s_h o) l') (objs e) na (palive e)) (set_sub m s r').
Proof.
  intros I L G LV SO AW.
  pose proof (i_sub _ _ I s o r L G) as SO0.
  assert (HL : (s_h o < length (regs (pq e)))%nat) by (apply rget_used_lt; apply SO0).
  constructor; cbn [pq objs nawt palive set_reg with_regs regs next_free qd qpos closed minl maxl set_sub
                      m_log m_closed m_subs m_min m_max].
  - eapply Gq_same; [apply (i_g _ _ I)|reflexivity..].
  - apply (i_mm _ _ I).
  - apply (i_cl _ _ I).
  - destruct (i_fl _ _ I) as (fl & F). exists fl. apply freelist_set_other; [exact F|].
    intros K. pose proof (freelist_unused _ _ _ F _ K) as U. destruct SO0 as (U1 & _). congruence.
  - exact AW.
  - intros k. destruct (Nat.eq_dec s k) as [<-|N].
    + rewrite get_put_same. apply live_obj_get in L as (L1 & _). rewrite L1. split; discriminate.
    + rewrite get_put_other by exact N. apply (i_none _ _ I).
  - intros k o1 r1 G1 G2. destruct (Nat.eq_dec s k) as [<-|N].
    + rewrite get_put_same in G2. injection G2 as <-. apply live_obj_get in L as (L1 & L2).
      rewrite L1 in G1. injection G1 as <-. congruence.
    + rewrite get_put_other in G2 by exact N. apply (i_live _ _ I k); assumption.
  - intros k o1 r1 L1 G2. unfold live_obj in L1. cbn [objs] in L1. change (live_obj e k = Some o1) in L1.
    destruct (Nat.eq_dec s k) as [<-|N].
    + rewrite get_put_same in G2. injection G2 as <-. rewrite L in L1. injection L1 as <-.
      rewrite rget_set_same by exact HL. exact SO.
    + rewrite get_put_other in G2 by exact N.
      assert (s_h o <> s_h o1) by (intros E; apply N; eapply (i_inj _ _ I); eassumption).
      rewrite rget_set_other by assumption. apply (i_sub _ _ I k); assumption.
  - intros s1 s2 o1 o2 L1 L2. apply (i_inj _ _ I s1 s2 o1 o2); assumption.
  - intros h U. destruct (Nat.eq_dec (s_h o) h) as [<-|N].
    + exists s, o. split; [exact L|reflexivity].
    + rewrite rget_set_other in U by exact N. apply (i_own _ _ I h U).
Qed.

Ltac simp_rec := unfold consumed, lastp in *;
                 cbn [m_live m_mode m_pc m_start m_cur m_deliv m_eos m_eos_ok m_kicked m_lost
                      r_pos r_sub r_awt r_used r_kicked with_pos with_awt with_pc with_lost awt_pc idle_pc] in *.

Ltac fail_show := match goal with |- ?g => idtac "OPEN:" g end.
Ltac splits := repeat match goal with |- _ /\ _ => split end.

Lemma free_live e s o : free_obj e s = Some o -> live_obj e s = Some o.
Proof. unfold free_obj. destruct (live_obj e s) as [o'|]; [|discriminate]. destruct (s_blk o'); [discriminate|]. trivial. Qed.

Lemma with_pq_same e : with_pq e (pq e) = e.
Proof. destruct e; reflexivity. Qed.

Lemma R_viol e m : good_b m = true -> R e (set_viol m).
Proof. intros G. split; [exact G|left; reflexivity]. Qed.

Lemma R_same e m : good_b m = true -> Inv e m -> R e m.
Proof. intros G I. split; [exact G|right; exact I]. Qed.

Lemma valid_mode_cases t : valid_mode t = true -> t = 0 \/ t = 1 \/ t = 2.
Proof. unfold valid_mode. lia. Qed.

(* ---- advance_lk ---- *)
Lemma advance_lk_cases q h t :
  let l := rget (regs q) h in
  (advance_lk q h t = (q, false) /\ (r_kicked l = true \/ (wrap (r_pos l + 1) = qpos q /\ closed q = false))) \/
  (advance_lk q h t = (set_reg q h (with_pos l
       (if t =? 1 then Z.max (wrap (r_pos l + 1)) (wrap (qpos q - zlen (qd q)))
        else if t =? 2 then Z.max (wrap (r_pos l + 1)) (wrap (qpos q - 1)) else wrap (r_pos l + 1))), true) /\
   r_kicked l = false /\ ~ (wrap (r_pos l + 1) = qpos q /\ closed q = false)).
Proof.
  intros l. unfold advance_lk. fold l.
  destruct (r_kicked l) eqn:K; [left; split; [reflexivity|left; reflexivity]|].
  destruct ((wrap (r_pos l + 1) =? qpos q) && negb (closed q)) eqn:E.
  - left. split; [reflexivity|right]. apply andb_prop in E as [E1 E2]. split; [lia|]. destruct (closed q); [discriminate|reflexivity].
  - right. split; [reflexivity|]. split; [reflexivity|]. intros [A B]. rewrite B in E. cbn in E. lia.
Qed.

Lemma awt_same_keep l h x b : (h < length l)%nat ->
  NoDup (flat_map awt_of l) -> (forall a, In a (flat_map awt_of l) -> a < b) ->
  (awt_of x = [] \/ awt_of x = awt_of (rget l h)) ->
  NoDup (flat_map awt_of (set_nth l h x)) /\ (forall a, In a (flat_map awt_of (set_nth l h x)) -> a < b).
Proof.
  intros L N B X.
  destruct (set_nth_split l h x L) as (l1 & y & l2 & E1 & E2 & E3).
  assert (Y : rget l h = y) by (rewrite E1, <- E2; apply rget_split).
  rewrite E3. rewrite E1 in N, B. rewrite flat_map_split in *. rewrite Y in X.
  destruct X as [X|X]; rewrite X.
  - cbn [app]. split; [apply NoDup_drop_mid with (b := awt_of y); exact N|].
    intros a I. apply B. apply in_app_iff in I. apply in_app_iff. destruct I as [I|I]; [left; exact I|].
    right. apply in_app_iff. right. exact I.
  - split; [exact N|exact B].
Qed.

Lemma step_ready e m s : good_b m = true -> m_viol m = false -> Inv e m ->
  R (fst (step e (OReady s))) (mon_step m (OReady s) (snd (step e (OReady s)))).
Proof.
  intros G V I. unfold step, step_gen, mon_step. rewrite V.
  destruct (free_obj e s) as [o|] eqn:F; cbn [fst snd o_st rejected ok3 Z.eqb negb o_a o_b].
  2:{ apply R_same; assumption. }
  pose proof (free_live _ _ _ F) as L.
  destruct (inv_rec _ _ _ _ I L) as (r & Gr & LV). rewrite Gr, LV. cbn [negb orb].
  destruct (idle_pc (m_pc r)) eqn:IP; cbn [negb orb]; [|apply R_viol; exact G].
  destruct (HALF <=? pos_of (fst (advance_lk (pq e) (s_h o) (s_mode o))) (s_h o)) eqn:HB; [apply R_viol; exact G|].
  pose proof (i_sub _ _ I s o r L Gr) as (U & SB & MD & VM & KK & CU & RG & AW & PO).
  assert (HL : (s_h o < length (regs (pq e)))%nat) by (apply rget_used_lt; exact U).
  pose proof (good_rec _ _ _ G Gr) as GR.
  pose proof (i_g _ _ I) as [G1 G2 G3 G4 G5 G6]. pose proof (win_len _ _ G5) as WL.
  pose proof (zlen_nonneg (qd (pq e))) as QN. fold (npub m) in *.
  assert (HW : HALF < W) by reflexivity.
  set (l := rget (regs (pq e)) (s_h o)) in *.
  assert (W1 : wrap (r_pos l + 1) = r_pos l + 1) by (apply wrap_small; lia).
  destruct (advance_lk_cases (pq e) (s_h o) (s_mode o)) as [(E & C)|(E & K & C)]; fold l in E, C.
  - (* not ready: nothing changes *)
    rewrite E in *. cbn [fst snd b2z Z.eqb] in *.
    split.
    + apply good_set_sub; [exact G|]. unfold rec_good_b in *; cbn [m_mode m_start m_deliv m_eos m_eos_ok m_lost] in *. exact GR.
    + right. rewrite <- (set_reg_same (pq e) (s_h o) HL) at 1.
      replace (mkT (set_reg (pq e) (s_h o) (rget (regs (pq e)) (s_h o))) (objs e) (nawt e) (palive e))
        with (mkT (set_reg (pq e) (s_h o) l) (objs e) (nawt e) (palive e)) by reflexivity.
      unfold with_pq. cbn [pq objs nawt palive].
      apply (local_update e m s o r); try assumption; try reflexivity.
      * unfold pos_of. fold l. unfold sub_ok. splits; simp_rec; try assumption; try lia.
        { rewrite AW. destruct (m_pc r); try discriminate; reflexivity. }
        { intros EO. specialize (PO EO). clear - PO IP. unfold pos_ok in *. simp_rec.
          destruct (m_pc r); try discriminate; simp_rec; intuition (try discriminate; try congruence). }
      * apply awt_same_keep; [exact HL|apply (i_awt _ _ I)|apply (i_awt _ _ I)|right; reflexivity].
  - (* advanced *)
    rewrite E in *. cbn [fst snd b2z Z.eqb] in *.
    set (np := if s_mode o =? 1 then Z.max (wrap (r_pos l + 1)) (wrap (qpos (pq e) - zlen (qd (pq e))))
               else if s_mode o =? 2 then Z.max (wrap (r_pos l + 1)) (wrap (qpos (pq e) - 1))
               else wrap (r_pos l + 1)) in *.
    assert (PE : pos_of (set_reg (pq e) (s_h o) (with_pos l np)) (s_h o) = np).
    { unfold pos_of, set_reg, with_regs. cbn [regs]. rewrite rget_set_same by exact HL. reflexivity. }
    rewrite PE in *.
    assert (W2 : wrap (qpos (pq e) - zlen (qd (pq e))) = npub m + 1 - zlen (qd (pq e))).
    { rewrite G3. apply wrap_small. lia. }
    assert (W3 : wrap (qpos (pq e) - 1) = npub m) by (rewrite G3; rewrite wrap_small; lia).
    assert (NPL : r_pos l + 1 <= np).
    { unfold np. rewrite W1. destruct (s_mode o =? 1); [lia|]. destruct (s_mode o =? 2); lia. }
    assert (NP0 : s_mode o = 0 -> np = r_pos l + 1).
    { intros Z0. unfold np. rewrite Z0. cbn. exact W1. }
    assert (NPU : r_pos l <= npub m -> np <= npub m + 1).
    { intros H. unfold np. rewrite W1, W2, W3. destruct (s_mode o =? 1); [lia|]. destruct (s_mode o =? 2); lia. }
    assert (CLO : np = npub m + 1 -> r_pos l <= npub m -> closed (pq e) = true).
    { intros H1 H2. destruct (closed (pq e)) eqn:CL; [reflexivity|]. exfalso. apply C. split; [|reflexivity].
      rewrite W1, G3. fold (npub m). unfold np in H1. rewrite W1, W2, W3 in H1.
      destruct (s_mode o =? 1); [|destruct (s_mode o =? 2)]; lia. }
    split.
    + apply good_set_sub; [exact G|]. unfold rec_good_b in *; cbn [m_mode m_start m_deliv m_eos m_eos_ok m_lost] in *. exact GR.
    + right. unfold with_pq. cbn [pq objs nawt palive].
      apply (local_update e m s o r); try assumption; try reflexivity.
      * unfold sub_ok. splits; simp_rec; try assumption; try lia.
        { rewrite AW. destruct (m_pc r); try discriminate; reflexivity. }
        { intros EO. specialize (PO EO). rewrite <- KK in *. rewrite <- MD in NP0.
          clear - PO IP NPL NP0 NPU CLO. unfold pos_ok in *. simp_rec.
          destruct (m_pc r); try discriminate; simp_rec; intuition (try discriminate; try congruence; try lia; try (apply CLO; lia)). }
      * apply awt_same_keep; [exact HL|apply (i_awt _ _ I)|apply (i_awt _ _ I)|right; reflexivity].
Qed.

(* ---- advance_suspend_lk ---- *)
Lemma advance_suspend_cases q h a :
  let l := rget (regs q) h in
  let l1 := with_pos l (wrap (r_pos l + 1)) in
  (r_kicked l = true /\ advance_suspend_lk q h a = (q, false)) \/
  (r_kicked l = false /\ closed q = true /\ advance_suspend_lk q h a = (set_reg q h l1, false)) \/
  (r_kicked l = false /\ closed q = false /\ wrap (r_pos l + 1) = qpos q /\
   advance_suspend_lk q h a = (set_reg q h (with_awt l1 (Some a)), true)) \/
  (r_kicked l = false /\ closed q = false /\ wrap (r_pos l + 1) <> qpos q /\
   advance_suspend_lk q h a = (set_reg q h l1, false)).
Proof.
  intros l l1. unfold advance_suspend_lk. fold l. fold l1.
  destruct (r_kicked l); [left; split; reflexivity|right].
  destruct (closed q); [left; repeat split; reflexivity|right].
  cbn [r_pos l1 with_pos].
  destruct (wrap (r_pos l + 1) =? qpos q) eqn:E; [left|right]; repeat split; try reflexivity; lia.
Qed.

Lemma step_suspend e m s : good_b m = true -> m_viol m = false -> Inv e m ->
  R (fst (step e (OSuspend s))) (mon_step m (OSuspend s) (snd (step e (OSuspend s)))).
Proof.
  intros G V I. unfold step, step_gen, mon_step. rewrite V.
  destruct (free_obj e s) as [o|] eqn:F; cbn [fst snd o_st rejected ok3 Z.eqb negb o_a o_b o_c].
  2:{ apply R_same; assumption. }
  pose proof (free_live _ _ _ F) as L.
  destruct (inv_rec _ _ _ _ I L) as (r & Gr & LV). rewrite Gr.
  destruct (m_pc r) eqn:PC; try (apply R_viol; exact G).
  rewrite LV. cbn [negb orb].
  destruct (HALF <=? pos_of (fst (advance_suspend_lk (pq e) (s_h o) (nawt e))) (s_h o)) eqn:HB; [apply R_viol; exact G|].
  pose proof (i_sub _ _ I s o r L Gr) as (U & SB & MD & VM & KK & CU & RG & AW & PO).
  assert (HL : (s_h o < length (regs (pq e)))%nat) by (apply rget_used_lt; exact U).
  pose proof (good_rec _ _ _ G Gr) as GR.
  pose proof (i_g _ _ I) as [G1 G2 G3 G4 G5 G6]. fold (npub m) in *.
  assert (HW : HALF < W) by reflexivity.
  set (l := rget (regs (pq e)) (s_h o)) in *.
  assert (W1 : wrap (r_pos l + 1) = r_pos l + 1) by (apply wrap_small; lia).
  rewrite PC in AW. cbn [awt_pc] in AW.
  assert (AWL : awt_of l = []) by (unfold awt_of; rewrite AW; reflexivity).
  pose proof (i_awt _ _ I) as (AN & AB).
  destruct (advance_suspend_cases (pq e) (s_h o) (nawt e)) as [(K & E)|[(K & CL & E)|[(K & CL & WP & E)|(K & CL & WP & E)]]];
    fold l in K, E; try fold l in WP; rewrite E in *; cbn [fst snd b2z Z.eqb] in *.
  - (* kicked: nothing changes *)
    split.
    + apply good_set_sub; [exact G|]. unfold rec_good_b in *; cbn [m_mode m_start m_deliv m_eos m_eos_ok m_lost] in *. exact GR.
    + right. rewrite <- (set_reg_same (pq e) (s_h o) HL) at 1.
      apply (local_update e m s o r); try assumption; try reflexivity.
      * fold l. unfold pos_of. fold l. unfold sub_ok. splits; simp_rec; try assumption; try reflexivity; try lia.
        intros EO. specialize (PO EO). rewrite <- KK in *.
        clear - PO PC K. unfold pos_ok in *. rewrite PC in *. simp_rec.
        intuition (try discriminate; try congruence; try lia).
      * fold l. destruct (awt_same_keep (regs (pq e)) (s_h o) l (nawt e) HL AN AB) as (A1 & A2); [right; reflexivity|].
        split; [exact A1|]. intros a Ia. specialize (A2 a Ia). lia.
  - (* closed: advanced, not parked *)
    assert (PE : pos_of (set_reg (pq e) (s_h o) (with_pos l (wrap (r_pos l + 1)))) (s_h o) = r_pos l + 1).
    { unfold pos_of, set_reg, with_regs. cbn [regs]. rewrite rget_set_same by exact HL. cbn [r_pos with_pos]. exact W1. }
    rewrite PE in *. rewrite W1.
    split.
    + apply good_set_sub; [exact G|]. unfold rec_good_b in *; cbn [m_mode m_start m_deliv m_eos m_eos_ok m_lost] in *. exact GR.
    + right. apply (local_update e m s o r); try assumption; try reflexivity.
      * unfold sub_ok. splits; simp_rec; try assumption; try reflexivity; try lia.
        intros EO. specialize (PO EO). rewrite <- KK in *.
        clear - PO PC K CL. unfold pos_ok in *. rewrite PC in *. simp_rec.
        intuition (try discriminate; try congruence; try lia).
      * destruct (awt_same_keep (regs (pq e)) (s_h o) (with_pos l (r_pos l + 1)) (nawt e) HL AN AB) as (A1 & A2);
          [left; unfold awt_of; cbn [r_awt with_pos]; rewrite AW; reflexivity|].
        split; [exact A1|]. intros a Ia. specialize (A2 a Ia). lia.
  - (* parked *)
    assert (PE : pos_of (set_reg (pq e) (s_h o) (with_awt (with_pos l (wrap (r_pos l + 1))) (Some (nawt e)))) (s_h o)
                 = r_pos l + 1).
    { unfold pos_of, set_reg, with_regs. cbn [regs]. rewrite rget_set_same by exact HL. cbn [r_pos with_pos with_awt]. exact W1. }
    rewrite PE in *. rewrite W1 in *.
    split.
    + apply good_set_sub; [exact G|]. unfold rec_good_b in *; cbn [m_mode m_start m_deliv m_eos m_eos_ok m_lost] in *. exact GR.
    + right. apply (local_update e m s o r); try assumption; try reflexivity.
      * unfold sub_ok. splits; simp_rec; try assumption; try reflexivity; try lia.
        intros EO. specialize (PO EO). rewrite <- KK in *. rewrite G3 in WP.
        clear - PO PC K CL WP. unfold pos_ok in *. rewrite PC in *. simp_rec.
        intuition (try discriminate; try congruence; try lia).
      * apply awt_set_fresh; [exact HL|exact AN|exact AB|].
        right; left. reflexivity.
  - (* data arrived meanwhile: advanced, not parked *)
    assert (PE : pos_of (set_reg (pq e) (s_h o) (with_pos l (wrap (r_pos l + 1)))) (s_h o) = r_pos l + 1).
    { unfold pos_of, set_reg, with_regs. cbn [regs]. rewrite rget_set_same by exact HL. cbn [r_pos with_pos]. exact W1. }
    rewrite PE in *. rewrite W1 in *.
    split.
    + apply good_set_sub; [exact G|]. unfold rec_good_b in *; cbn [m_mode m_start m_deliv m_eos m_eos_ok m_lost] in *. exact GR.
    + right. apply (local_update e m s o r); try assumption; try reflexivity.
      * unfold sub_ok. splits; simp_rec; try assumption; try reflexivity; try lia.
        intros EO. specialize (PO EO). rewrite <- KK in *. rewrite G3 in WP.
        clear - PO PC K CL WP. unfold pos_ok in *. rewrite PC in *. simp_rec.
        intuition (try discriminate; try congruence; try lia).
      * destruct (awt_same_keep (regs (pq e)) (s_h o) (with_pos l (r_pos l + 1)) (nawt e) HL AN AB) as (A1 & A2);
          [left; unfold awt_of; cbn [r_awt with_pos]; rewrite AW; reflexivity|].
        split; [exact A1|]. intros a Ia. specialize (A2 a Ia). lia.
Qed.

(* ---- get_value_lk ---- *)
Lemma qidx_val lg qd i v : win lg qd -> qidx qd i = GVal v -> 0 <= i < zlen qd /\ v = nthz lg (zlen lg - 1 - i).
Proof.
  intros WN. unfold qidx. destruct ((0 <=? i) && (i <? zlen qd)) eqn:E; [|discriminate].
  assert (RR : 0 <= i < zlen qd) by lia. rewrite (win_nth _ _ _ WN RR). intros H. injection H as <-. split; [exact RR|reflexivity].
Qed.

Lemma qidx_not_eos qd i : qidx qd i <> GEos.
Proof. unfold qidx. destruct ((0 <=? i) && (i <? zlen qd)); [|discriminate]. destruct (nth_error qd (Z.to_nat i)); discriminate. Qed.

Lemma local_same e m s o r r' :
  Inv e m -> live_obj e s = Some o -> get (m_subs m) s = Some r -> m_live r' = true ->
  sub_ok (npub m) (zlen (qd (pq e))) (closed (pq e)) (maxl (pq e)) s o (rget (regs (pq e)) (s_h o)) r' ->
  Inv e (set_sub m s r').
Proof.
  intros I L G LV SO.
  pose proof (i_sub _ _ I s o r L G) as SO0.
  assert (HL : (s_h o < length (regs (pq e)))%nat) by (apply rget_used_lt; apply SO0).
  replace e with (mkT (set_reg (pq e) (s_h o) (rget (regs (pq e)) (s_h o))) (objs e) (nawt e) (palive e)) at 1
    by (rewrite set_reg_same by exact HL; destruct e; reflexivity).
  apply (local_update e m s o r); try assumption.
  apply awt_same_keep; [exact HL|apply (i_awt _ _ I)|apply (i_awt _ _ I)|right; reflexivity].
Qed.

Lemma contig_b_cons start lg p v k d :
  contig_b start lg ((p, v, k) :: d) =
  ((p =? start + zlen ((p, v, k) :: d)) && (1 <=? p) && (p <=? zlen lg) && (v =? nthz lg (p - 1)) && contig_b start lg d).
Proof. reflexivity. Qed.

(* what get_value_lk does, for a registration whose position is in range *)
Inductive gv_spec (q : pubq) (h : nat) (t : Z) : pubq * gres -> Prop :=
| gv_eos_end : r_kicked (rget (regs q) h) = true \/ qpos q <= r_pos (rget (regs q) h) -> gv_spec q h t (q, GEos)
| gv_eos_gap : r_kicked (rget (regs q) h) = false -> r_pos (rget (regs q) h) < qpos q -> t = 0 ->
               zlen (qd q) <= qpos q - r_pos (rget (regs q) h) - 1 -> gv_spec q h t (q, GEos)
| gv_ub : gv_spec q h t (q, GUb)
| gv_val_same v : r_kicked (rget (regs q) h) = false -> r_pos (rget (regs q) h) < qpos q -> (t = 0 \/ t = 1) ->
               qpos q - r_pos (rget (regs q) h) - 1 < zlen (qd q) ->
               qidx (qd q) (qpos q - r_pos (rget (regs q) h) - 1) = GVal v -> gv_spec q h t (q, GVal v)
| gv_val_move v np i : r_kicked (rget (regs q) h) = false -> r_pos (rget (regs q) h) < qpos q ->
               (t = 1 /\ zlen (qd q) <= qpos q - r_pos (rget (regs q) h) - 1 /\ i = zlen (qd q) - 1 \/ t = 2 /\ i = 0) ->
               np = qpos q - i - 1 -> qidx (qd q) i = GVal v ->
               gv_spec q h t (set_reg q h (with_pos (rget (regs q) h) np), GVal v).

Lemma get_value_spec q h t : (t = 0 \/ t = 1 \/ t = 2) -> 0 <= r_pos (rget (regs q) h) < HALF -> 1 <= qpos q < HALF ->
  zlen (qd q) < HALF -> gv_spec q h t (get_value_lk q h t).
Proof.
  intros T RG QP QL. unfold get_value_lk. set (l := rget (regs q) h) in *.
  assert (HW : HALF < W) by reflexivity. pose proof (zlen_nonneg (qd q)) as QN.
  destruct (r_kicked l || (qpos q <=? r_pos l)) eqn:GD.
  { apply gv_eos_end. fold l. apply orb_prop in GD as [K|K]; [left; exact K|right; lia]. }
  apply orb_false_elim in GD as (K & PE).
  assert (RP : wrap (qpos q - r_pos l - 1) = qpos q - r_pos l - 1) by (apply wrap_small; lia).
  rewrite RP.
  destruct T as [ -> | [ -> | -> ] ]; cbn [Z.eqb].
  - destruct (zlen (qd q) <=? qpos q - r_pos l - 1) eqn:C.
    + apply gv_eos_gap; fold l; try assumption; try reflexivity; lia.
    + destruct (qidx (qd q) (qpos q - r_pos l - 1)) eqn:QI.
      * apply gv_val_same; fold l; try assumption; try lia; left; reflexivity.
      * exfalso. eapply qidx_not_eos. exact QI.
      * apply gv_ub.
  - destruct (zlen (qd q) <=? qpos q - r_pos l - 1) eqn:C.
    + destruct (qidx (qd q) (wrap (zlen (qd q) - 1))) eqn:QI.
      * assert (Z1 : 1 <= zlen (qd q)).
        { unfold qidx in QI. destruct ((0 <=? wrap (zlen (qd q) - 1)) && (wrap (zlen (qd q) - 1) <? zlen (qd q))) eqn:RR; [|discriminate].
          destruct (Z_lt_ge_dec (zlen (qd q) - 1) 0) as [N|N]; [|lia]. rewrite wrap_neg in RR by lia. lia. }
        rewrite (wrap_small (zlen (qd q) - 1)) in * by lia.
        rewrite (wrap_small (qpos q - (zlen (qd q) - 1) - 1)) by lia.
        apply (gv_val_move q h 1 v _ (zlen (qd q) - 1)); fold l; try assumption; try lia;
        left; repeat split; lia.
      * exfalso. eapply qidx_not_eos. exact QI.
      * apply gv_ub.
    + destruct (qidx (qd q) (qpos q - r_pos l - 1)) eqn:QI.
      * apply gv_val_same; fold l; try assumption; try lia; right; reflexivity.
      * exfalso. eapply qidx_not_eos. exact QI.
      * apply gv_ub.
  - destruct (qidx (qd q) 0) eqn:QI.
    + rewrite (wrap_small (qpos q - 1)) by lia.
      apply (gv_val_move q h 2 v _ 0); fold l; try assumption; try lia; right; split; reflexivity.
    + exfalso. eapply qidx_not_eos. exact QI.
    + apply gv_ub.
Qed.

Lemma incr_b_cons start p v k d : incr_b start ((p, v, k) :: d) = ((last_pos start d <? p) && incr_b start d).
Proof. reflexivity. Qed.

Lemma step_get e m s : good_b m = true -> m_viol m = false -> Inv e m ->
  R (fst (step e (OGet s))) (mon_step m (OGet s) (snd (step e (OGet s)))).
Proof.
  intros G V I. unfold step, step_gen.
  destruct (free_obj e s) as [o|] eqn:F.
  2:{ unfold mon_step. rewrite V. cbn. apply R_same; assumption. }
  pose proof (free_live _ _ _ F) as L.
  destruct (inv_rec _ _ _ _ I L) as (r & Gr & LV).
  pose proof (i_sub _ _ I s o r L Gr) as (U & SB & MD & VM & KK & CU & RG & AW & PO).
  assert (HL : (s_h o < length (regs (pq e)))%nat) by (apply rget_used_lt; exact U).
  pose proof (good_rec _ _ _ G Gr) as GR. unfold rec_good_b in GR.
  pose proof (i_g _ _ I) as [G1 G2 G3 G4 G5 G6]. fold (npub m) in *.
  pose proof (win_len _ _ G5) as WL. fold (npub m) in WL.
  pose proof (zlen_nonneg (qd (pq e))) as QN. pose proof (zlen_nonneg (m_deliv r)) as DN.
  pose proof (zlen_nonneg (m_log m)) as LN. fold (npub m) in LN.
  assert (HW : HALF < W) by reflexivity.
  pose proof (get_value_spec (pq e) (s_h o) (s_mode o) (valid_mode_cases _ VM) RG ltac:(lia) ltac:(lia)) as SP.
  set (l := rget (regs (pq e)) (s_h o)) in *.
  destruct SP as [HE | K PL T0 GAP | | v K PL T QL QI | v np i K PL TI NP QI];
    repeat match goal with H : context[rget (regs (pq e)) (s_h o)] |- _ => progress fold l in H end; fold l; cbn [fst snd];
    rewrite ?with_pq_same; unfold mon_step; rewrite V;
    cbn [o_st ok3 ub_obs Z.eqb negb o_a o_b o_c]; try (apply R_viol; exact G);
    rewrite Gr; destruct (m_pc r) eqn:PC; try (apply R_viol; exact G); rewrite LV; cbn [negb]; cbn [awt_pc] in AW.
  - (* end of stream: kicked, or at/behind the end *)
    destruct (m_eos r) eqn:EO.
    { split.
      + apply good_set_sub; [exact G|]. unfold with_pc, rec_good_b. cbn [m_mode m_start m_deliv m_eos m_eos_ok m_lost]. rewrite EO. exact GR.
      + right. apply (local_same e m s o r); try assumption. fold l.
        unfold sub_ok. splits; simp_rec; try assumption; try reflexivity; try lia. all: intros; try discriminate; try congruence. }
    specialize (PO eq_refl). destruct PO as (ST & M0 & M12). rewrite PC in *. rewrite <- KK in *. rewrite MD in *. simp_rec.
    assert (EOK : r_kicked l || m_lost r ||
                  (m_closed m && (if s_mode o =? 0 then m_start r + zlen (m_deliv r) =? npub m else m_cur r =? npub m + 1)) = true).
    { destruct (r_kicked l) eqn:K; [reflexivity|]. destruct (m_lost r) eqn:LS; [reflexivity|]. cbn [orb] in *.
      rewrite <- (i_cl _ _ I). rewrite CU. destruct HE as [HE|HE]; [congruence|]. rewrite G3 in HE.
      destruct (valid_mode_cases _ VM) as [T|[T|T]]; rewrite T in *; cbn [Z.eqb].
      - specialize (M0 eq_refl). destruct M0 as (A1 & A2 & A3 & A4). specialize (A3 eq_refl eq_refl).
        specialize (A4 eq_refl). destruct A4 as (D1 & D2 & D3 & D4). rewrite D4; [lia|reflexivity|reflexivity|lia].
      - specialize (M12 ltac:(lia)). destruct M12 as (B1 & B2 & B3 & B4). specialize (B4 eq_refl).
        destruct B4 as (C1 & C2 & C3). rewrite C3; [lia|reflexivity|reflexivity|lia].
      - specialize (M12 ltac:(lia)). destruct M12 as (B1 & B2 & B3 & B4). specialize (B4 eq_refl).
        destruct B4 as (C1 & C2 & C3). rewrite C3; [lia|reflexivity|reflexivity|lia]. }
    split.
    + apply good_set_sub; [exact G|]. unfold rec_good_b. cbn [m_mode m_start m_deliv m_eos m_eos_ok m_lost].
      rewrite ?MD. apply andb_prop in GR as (GR1 & GR2). rewrite GR1. cbn [negb orb andb]. rewrite ?MD. exact EOK.
    + right. apply (local_same e m s o r); try assumption; try reflexivity. fold l.
      unfold sub_ok. splits; simp_rec; try assumption; try reflexivity; try lia. all: intros; try discriminate; try congruence.
  - (* end of stream: all_values, the wanted value is not retained *)
    destruct (m_eos r) eqn:EO.
    { split.
      + apply good_set_sub; [exact G|]. unfold with_pc, rec_good_b. cbn [m_mode m_start m_deliv m_eos m_eos_ok m_lost]. rewrite EO. exact GR.
      + right. apply (local_same e m s o r); try assumption. fold l.
        unfold sub_ok. splits; simp_rec; try assumption; try reflexivity; try lia. all: intros; try discriminate; try congruence. }
    specialize (PO eq_refl). destruct PO as (ST & M0 & M12). rewrite PC in *. rewrite <- KK in *. rewrite MD in *. simp_rec.
    rewrite T0 in *. specialize (M0 eq_refl). destruct M0 as (A1 & A2 & A3 & A4). specialize (A3 eq_refl K).
    assert (LS : m_lost r = true).
    { destruct (m_lost r) eqn:LS; [reflexivity|]. specialize (A4 eq_refl). destruct A4 as (D1 & D2 & D3 & D4). rewrite G3 in *. lia. }
    split.
    + apply good_set_sub; [exact G|]. unfold rec_good_b. cbn [m_mode m_start m_deliv m_eos m_eos_ok m_lost].
      apply andb_prop in GR as (GR1 & GR2). rewrite ?MD. rewrite ?T0. rewrite GR1, LS. cbn [negb orb andb]. rewrite orb_true_r. reflexivity.
    + right. apply (local_same e m s o r); try assumption; try reflexivity. fold l.
      unfold sub_ok. splits; simp_rec; try assumption; try reflexivity; try lia. all: intros; try discriminate; try congruence.
  - (* a value at the reader's own position *)
    unfold pos_of. fold l.
    destruct (HALF <=? r_pos l) eqn:HB; [lia|].
    destruct (m_eos r) eqn:EO.
    { split.
      + apply good_set_sub; [exact G|]. unfold rec_good_b. cbn [m_mode m_start m_deliv m_eos m_eos_ok m_lost]. exact GR.
      + right. apply (local_same e m s o r); try assumption; try reflexivity. fold l.
        unfold sub_ok. splits; simp_rec; try assumption; try reflexivity; try lia. all: intros; try discriminate; try congruence. }
    specialize (PO eq_refl). destruct PO as (ST & M0 & M12). rewrite PC in *. rewrite <- KK in *. rewrite MD in *. simp_rec.
    rewrite K. rewrite G3 in *.
    apply (qidx_val _ _ _ _ G5) in QI as (IR & VE). fold (npub m) in VE.
    replace (npub m - 1 - (npub m + 1 - r_pos l - 1)) with (r_pos l - 1) in VE by lia.
    split.
    + apply good_add_bad. apply good_set_sub; [exact G|]. unfold rec_good_b. cbn [m_mode m_start m_deliv m_eos m_eos_ok m_lost].
      cbn [negb orb]. rewrite andb_true_r.
      apply andb_prop in GR as (GR1 & _).
      destruct T as [T|T]; rewrite T in *; cbn [Z.eqb] in *.
      * specialize (M0 eq_refl). destruct M0 as (A1 & A2 & A3 & A4). specialize (A3 eq_refl K).
        rewrite contig_b_cons, zlen_cons. fold (npub m). rewrite GR1. lia.
      * specialize (M12 ltac:(lia)). destruct M12 as (B1 & B2 & B3 & B4). specialize (B3 eq_refl K).
        apply andb_prop in GR1 as (GR3 & GR4). rewrite incr_b_cons. cbn [forallb]. rewrite GR3, GR4.
        unfold skipval_b. change (1 =? 2) with false. cbv iota. fold (npub m). lia.
    + right. unfold add_bad. cbn [orb]. rewrite orb_false_r.
      match goal with |- Inv e ?mm => replace mm with
          (set_sub m s (mkSr true (s_mode o) PIdle (m_start r) (r_pos l) ((r_pos l, v, npub m) :: m_deliv r) false (m_eos_ok r) false (m_lost r)))
          by (unfold set_sub; cbn; reflexivity) end.
      apply (local_same e m s o r); try assumption; try reflexivity. fold l.
      unfold sub_ok. splits; simp_rec; try assumption; try reflexivity; try lia.
      intros _. unfold pos_ok. simp_rec. rewrite zlen_cons. cbn [last_pos].
      destruct T as [T|T]; rewrite T in *.
      * specialize (M0 eq_refl). destruct M0 as (A1 & A2 & A3 & A4). specialize (A3 eq_refl K).
        clear - ST A3 A4 IR G4 PL. intuition (try discriminate; try congruence; try lia).
      * specialize (M12 ltac:(lia)). destruct M12 as (B1 & B2 & B3 & B4). specialize (B3 eq_refl K).
        clear - ST B1 B3 B4 IR G4 PL. intuition (try discriminate; try congruence; try lia).
  - (* a value at a later position: the reader is moved there *)
    assert (PE : pos_of (set_reg (pq e) (s_h o) (with_pos l np)) (s_h o) = np).
    { unfold pos_of, set_reg, with_regs. cbn [regs]. rewrite rget_set_same by exact HL. reflexivity. }
    unfold with_pq. cbn [pq objs nawt palive]. rewrite PE.
    destruct (HALF <=? np) eqn:HB; [apply R_viol; exact G|].
    rewrite G3 in *.
    apply (qidx_val _ _ _ _ G5) in QI as (IR & VE). fold (npub m) in VE.
    assert (NPV : v = nthz (m_log m) (np - 1)) by (rewrite VE; f_equal; lia).
    assert (AK : NoDup (flat_map awt_of (set_nth (regs (pq e)) (s_h o) (with_pos l np))) /\
                 (forall a, In a (flat_map awt_of (set_nth (regs (pq e)) (s_h o) (with_pos l np))) -> a < nawt e)).
    { apply awt_same_keep; [exact HL|apply (i_awt _ _ I)|apply (i_awt _ _ I)|right; reflexivity]. }
    assert (NPR : r_pos l <= np /\ 1 <= np <= npub m /\ (s_mode o = 2 -> np = npub m) /\ s_mode o <> 0).
    { destruct TI as [(T & C & II)|(T & II)]; rewrite T; lia. }
    destruct NPR as (NP1 & NP2 & NP3 & NP4).
    destruct (m_eos r) eqn:EO.
    { split.
      + apply good_set_sub; [exact G|]. unfold rec_good_b. cbn [m_mode m_start m_deliv m_eos m_eos_ok m_lost]. exact GR.
      + right. apply (local_update e m s o r); try assumption; try reflexivity.
        unfold sub_ok. splits; simp_rec; try assumption; try reflexivity; try lia. all: intros; try discriminate; try congruence. }
    specialize (PO eq_refl). destruct PO as (ST & M0 & M12). rewrite PC in *. rewrite <- KK in *. rewrite MD in *. simp_rec.
    rewrite K.
    specialize (M12 NP4). destruct M12 as (B1 & B2 & B3 & B4). specialize (B3 eq_refl K).
    split.
    + apply good_add_bad. apply good_set_sub; [exact G|]. unfold rec_good_b. cbn [m_mode m_start m_deliv m_eos m_eos_ok m_lost].
      cbn [negb orb]. rewrite andb_true_r.
      apply andb_prop in GR as (GR1 & _).
      destruct (s_mode o =? 0) eqn:M0E; [lia|].
      apply andb_prop in GR1 as (GR3 & GR4). rewrite incr_b_cons. cbn [forallb]. rewrite GR3, GR4.
      unfold skipval_b. fold (npub m). destruct (s_mode o =? 2) eqn:M2; [specialize (NP3 ltac:(lia))|]; lia.
    + right. unfold add_bad. cbn [orb]. rewrite orb_false_r.
      match goal with |- Inv _ ?mm => replace mm with
          (set_sub m s (mkSr true (s_mode o) PIdle (m_start r) np ((np, v, npub m) :: m_deliv r) false (m_eos_ok r) false (m_lost r)))
          by (unfold set_sub; cbn; reflexivity) end.
      apply (local_update e m s o r); try assumption; try reflexivity.
      unfold sub_ok. splits; simp_rec; try assumption; try reflexivity; try lia.
      intros _. unfold pos_ok. simp_rec. cbn [last_pos].
      clear - ST B1 B3 B4 NP1 NP2 NP4 G4. intuition (try discriminate; try congruence; try lia).
Qed.

(* ---- kick, position ---- *)
Lemma Inv_bad e m b : Inv e m -> Inv e (add_bad m b).
Proof. intros [A B C D E F G H I J]. constructor; assumption. Qed.

Lemma good_add_bad_f m b : good_b m = true -> b = false -> good_b (add_bad m b) = true.
Proof. intros G ->. apply good_add_bad. exact G. Qed.

Lemma eqlz_refl l : eqlz l l = true.
Proof. induction l as [|x l IH]; cbn; [reflexivity|]. rewrite Z.eqb_refl, IH. reflexivity. Qed.

Lemma with_regs_same q : with_regs q (regs q) = q.
Proof. destruct q; reflexivity. Qed.

Lemma inv_rec_any e m s o : Inv e m -> get (objs e) s = Some o ->
  exists r, get (m_subs m) s = Some r /\ m_live r = s_live o.
Proof.
  intros I G. destruct (get (m_subs m) s) as [r|] eqn:E.
  - exists r. split; [reflexivity|]. symmetry. apply (i_live _ _ I s o r G E).
  - apply (i_none _ _ I) in E. congruence.
Qed.

Lemma slot_owner e m h : Inv e m -> r_used (rget (regs (pq e)) h) = true ->
  exists s o, live_obj e s = Some o /\ s_h o = h /\ r_sub (rget (regs (pq e)) h) = Z.of_nat s.
Proof.
  intros I U. destruct (i_own _ _ I h U) as (s & o & L & E). exists s, o. split; [exact L|]. split; [exact E|].
  destruct (inv_rec _ _ _ _ I L) as (r & Gr & _). pose proof (i_sub _ _ I s o r L Gr) as (_ & SB & _). rewrite E in SB. exact SB.
Qed.

Lemma step_kick e m s : good_b m = true -> m_viol m = false -> Inv e m ->
  R (fst (step e (OKick s))) (mon_step m (OKick s) (snd (step e (OKick s)))).
Proof.
  intros G V I. unfold step, step_gen.
  destruct (get (objs e) s) as [o|] eqn:GO.
  2:{ unfold mon_step. rewrite V. cbn. apply R_same; assumption. }
  destruct (palive e || s_live o) eqn:PA.
  2:{ unfold mon_step. rewrite V. cbn. apply R_same; assumption. }
  destruct (inv_rec_any _ _ _ _ I GO) as (r & Gr & LV).
  cbn [fst snd]. unfold mon_step. rewrite V. cbn [o_st okw Z.eqb negb o_wk]. rewrite Gr, LV.
  destruct (s_live o) eqn:SL.
  - (* a live subscriber: its registration is marked, its awaiter resumed *)
    pose proof (live_obj_intro _ _ _ GO SL) as L.
    pose proof (i_sub _ _ I s o r L Gr) as (U & SB & MD & VM & KK & CU & RG & AW & PO).
    assert (HL : (s_h o < length (regs (pq e)))%nat) by (apply rget_used_lt; exact U).
    pose proof (good_rec _ _ _ G Gr) as GR. unfold rec_good_b in GR.
    set (l := rget (regs (pq e)) (s_h o)) in *.
    assert (KR : kick_regs (Z.of_nat s) (regs (pq e)) =
                 (set_nth (regs (pq e)) (s_h o) (mkReg (r_pos l) (r_sub l) None (r_used l) true), r_awt l)).
    { apply kick_regs_at; try assumption.
      intros k Lk Uk Sk. destruct (slot_owner _ _ _ I Uk) as (s' & o' & L' & E' & SB').
      rewrite SB' in Sk. apply Nat2Z.inj in Sk. subst s'. rewrite L in L'. injection L' as <-. symmetry. exact E'. }
    unfold kick_lk. rewrite KR. cbn [fst snd].
    change (with_regs (pq e) (set_nth (regs (pq e)) (s_h o) (mkReg (r_pos l) (r_sub l) None (r_used l) true)))
      with (set_reg (pq e) (s_h o) (mkReg (r_pos l) (r_sub l) None (r_used l) true)).
    assert (EX : eqlz (match m_pc r with PParked a => [a] | _ => [] end) (olist (r_awt l)) = true).
    { rewrite AW. destruct (m_pc r); cbn; try reflexivity. rewrite Z.eqb_refl. reflexivity. }
    rewrite EX. cbn [negb].
    split.
    + apply good_add_bad. apply good_set_sub; [exact G|]. unfold rec_good_b, wake_rec.
      destruct (m_pc r); cbn [with_pc m_mode m_start m_deliv m_eos m_eos_ok m_lost]; exact GR.
    + right. apply Inv_bad. unfold with_pq. cbn [pq objs nawt palive].
      apply (local_update e m s o r); try assumption; try reflexivity.
      * unfold sub_ok, wake_rec. destruct (m_pc r) eqn:PC; splits; simp_rec; try assumption; try reflexivity; try lia.
        all: try (intros EO; specialize (PO EO); clear - PO; unfold pos_ok in *; simp_rec;
                  intuition (try discriminate; try congruence; try lia)).
        all: try (rewrite PC; reflexivity).
      * apply awt_same_keep; [exact HL|apply (i_awt _ _ I)|apply (i_awt _ _ I)|left; reflexivity].
  - (* an already destroyed subscriber: no registration matches *)
    assert (KR : kick_regs (Z.of_nat s) (regs (pq e)) = (regs (pq e), None)).
    { apply kick_regs_none. intros k Lk Uk Sk. destruct (slot_owner _ _ _ I Uk) as (s' & o' & L' & E' & SB').
      rewrite SB' in Sk. apply Nat2Z.inj in Sk. subst s'. apply live_obj_get in L' as (L1 & L2). congruence. }
    unfold kick_lk. rewrite KR. cbn [fst snd olist eqlz negb]. rewrite with_regs_same, with_pq_same.
    split; [apply good_add_bad; exact G|right; apply Inv_bad; exact I].
Qed.

Lemma step_position e m s : good_b m = true -> m_viol m = false -> Inv e m ->
  R (fst (step e (OPosition s))) (mon_step m (OPosition s) (snd (step e (OPosition s)))).
Proof.
  intros G V I. unfold step, step_gen.
  destruct (live_obj e s) as [o|] eqn:L.
  2:{ unfold mon_step. rewrite V. cbn. apply R_same; assumption. }
  destruct (inv_rec _ _ _ _ I L) as (r & Gr & LV).
  pose proof (i_sub _ _ I s o r L Gr) as (U & SB & MD & VM & KK & CU & RG & AW & PO).
  cbn [fst snd]. unfold mon_step. rewrite V. cbn [o_st ok3 Z.eqb negb o_a]. rewrite Gr, LV. cbn [negb].
  unfold pos_of. rewrite CU, Z.eqb_refl. cbn [negb].
  split; [apply good_add_bad; exact G|right; apply Inv_bad; exact I].
Qed.

(* ---- push_lk: publish / batch / close / ~publisher ---- *)
Lemma freelist_map_clear rs nf fl : freelist rs nf fl -> freelist (map clear_reg rs) nf fl.
Proof.
  assert (CU : forall x, r_used (clear_reg x) = r_used x) by (intros x; unfold clear_reg; destruct (r_used x) eqn:E; cbn; congruence).
  assert (CP : forall x, r_pos (clear_reg x) = r_pos x) by (intros x; unfold clear_reg; destruct (r_used x); reflexivity).
  induction 1 as [|h t L U N F IH].
  - replace (zlen rs) with (zlen (map clear_reg rs)) by apply zlen_map. constructor.
  - constructor; [rewrite map_length; exact L|rewrite rget_map_clear, CU; exact U|exact N|].
    rewrite rget_map_clear, CP. exact IH.
Qed.

Lemma awt_clear l b : NoDup (flat_map awt_of l) -> (forall a, In a (flat_map awt_of l) -> a < b) ->
  NoDup (flat_map awt_of (map clear_reg l)) /\ (forall a, In a (flat_map awt_of (map clear_reg l)) -> a < b).
Proof.
  assert (INC : forall l a, In a (flat_map awt_of (map clear_reg l)) -> In a (flat_map awt_of l)).
  { induction l0 as [|x l0 IH]; cbn; intros a I; [exact I|]. apply in_app_iff in I. apply in_app_iff.
    destruct I as [I|I]; [|right; apply IH; exact I]. left. unfold clear_reg in I. destruct (r_used x); [destruct I|exact I]. }
  intros N B. split; [|intros a I; apply B, INC, I].
  induction l as [|x l IH]; cbn in *; [constructor|].
  assert (N2 : NoDup (flat_map awt_of (map clear_reg l))).
  { apply IH; [apply NoDup_app_remove_l in N; exact N|]. intros a I. apply B. apply in_app_iff. right. exact I. }
  unfold clear_reg at 1. destruct (r_used x); [cbn; exact N2|].
  clear IH B. induction (awt_of x) as [|a ax IHa]; cbn in *; [exact N2|].
  inversion N as [|? ? NA NN]; subst. constructor; [|apply IHa; exact NN].
  intros I. apply NA. apply in_app_iff in I. apply in_app_iff. destruct I as [I|I]; [left; exact I|right; apply INC; exact I].
Qed.

Lemma get_map {A B} (f : A -> B) l s : get (map (option_map f) l) s = option_map f (get l s).
Proof.
  unfold get. rewrite nth_error_map. destruct (nth_error l s) as [[x|]|]; reflexivity.
Qed.

Lemma nthz_app lg vs i : 0 <= i < zlen lg -> nthz (lg ++ vs) i = nthz lg i.
Proof. intros H. unfold nthz. apply app_nth1. unfold zlen in H. lia. Qed.

Lemma contig_ext start lg vs d : contig_b start lg d = true -> contig_b start (lg ++ vs) d = true.
Proof.
  induction d as [|[[p v] k] d IH]; [reflexivity|]. rewrite !contig_b_cons. intros H.
  apply andb_prop in H as (H & H5). apply andb_prop in H as (H & H4). apply andb_prop in H as (H & H3).
  apply andb_prop in H as (H1 & H2).
  rewrite IH by exact H5. rewrite H1, H2. rewrite zlen_app. pose proof (zlen_nonneg vs).
  rewrite nthz_app by lia. rewrite H4. cbn. rewrite andb_true_r. lia.
Qed.

Lemma skipval_ext t lg vs x : skipval_b t lg x = true -> skipval_b t (lg ++ vs) x = true.
Proof.
  destruct x as [[p v] k]. unfold skipval_b. intros H. rewrite zlen_app. pose proof (zlen_nonneg vs).
  apply andb_prop in H as (H & H5). apply andb_prop in H as (H & H4). apply andb_prop in H as (H & H3).
  apply andb_prop in H as (H1 & H2).
  rewrite nthz_app by lia. rewrite H1, H2, H4, H5. cbn [andb]. rewrite andb_true_r. lia.
Qed.

Lemma rec_good_ext lg vs r r' : m_mode r' = m_mode r -> m_start r' = m_start r -> m_deliv r' = m_deliv r ->
  m_eos r' = m_eos r -> m_eos_ok r' = m_eos_ok r ->
  rec_good_b lg (Some r) = true -> rec_good_b (lg ++ vs) (Some r') = true.
Proof.
  intros E1 E2 E3 E4 E5. unfold rec_good_b. rewrite E1, E2, E3, E4, E5. intros H.
  apply andb_prop in H as (H1 & H2). rewrite H2, andb_true_r.
  destruct (m_mode r =? 0); [apply contig_ext; exact H1|].
  apply andb_prop in H1 as (H3 & H4). rewrite H3. cbn [andb].
  rewrite forallb_forall in *. intros x Ix. apply skipval_ext. apply H4. exact Ix.
Qed.

Definition wk (n mx : Z) (r : srec) : srec := lag_rec n mx (wake_rec r).

Lemma wk_fields n mx r : m_live (wk n mx r) = m_live r /\ m_mode (wk n mx r) = m_mode r /\ m_start (wk n mx r) = m_start r /\
  m_cur (wk n mx r) = m_cur r /\ m_deliv (wk n mx r) = m_deliv r /\ m_eos (wk n mx r) = m_eos r /\
  m_eos_ok (wk n mx r) = m_eos_ok r /\ m_kicked (wk n mx r) = m_kicked r /\
  m_pc (wk n mx r) = match m_pc r with PParked _ => PAdv | p => p end /\
  m_lost (wk n mx r) = (m_lost r || ((m_mode r =? 0) && (mx <? n - consumed r))).
Proof.
  unfold wk, lag_rec, wake_rec, consumed.
  destruct (m_pc r) eqn:PC; cbn [with_pc m_mode m_start m_deliv];
    destruct ((m_mode r =? 0) && (mx <? n - (m_start r + zlen (m_deliv r)))) eqn:E;
    cbn [with_lost with_pc m_live m_mode m_pc m_start m_cur m_deliv m_eos m_eos_ok m_kicked m_lost]; rewrite ?PC;
    repeat split; try reflexivity; try (rewrite orb_true_r; reflexivity); try (rewrite orb_false_r; reflexivity).
Qed.

Lemma wake_inv e m vs cl pa :
  good_b m = true -> Inv e m -> npub m + zlen vs + 1 < HALF ->
  (vs <> [] /\ cl = closed (pq e)) \/ (vs = [] /\ cl = true) ->
  let q0 := mkQ (regs (pq e)) (next_free (pq e)) (rev vs ++ qd (pq e)) (qpos (pq e)) cl (minl (pq e)) (maxl (pq e)) in
  let m' := mon_wake_all m (m_log m ++ vs) cl (snd (push_lk q0 (zlen vs))) in
  good_b m' = true /\ Inv (mkT (fst (push_lk q0 (zlen vs))) (objs e) (nawt e) pa) m'.
Proof.
  intros G I HB CS q0 m'.
  set (qc := mkQ (regs (pq e)) (next_free (pq e)) (qd (pq e)) (qpos (pq e)) cl (minl (pq e)) (maxl (pq e))).
  assert (GC : Gq (m_log m) qc) by (eapply Gq_same; [apply (i_g _ _ I)|reflexivity..]).
  destruct (push_lk_spec (m_log m) qc vs GC HB) as (G' & RE & NF & CE & MN & MX & QL & WE).
  change (mkQ (regs qc) (next_free qc) (rev vs ++ qd qc) (qpos qc) (closed qc) (minl qc) (maxl qc)) with q0 in *.
  cbn [regs next_free closed minl maxl qd qc] in RE, NF, CE, MN, MX, QL, WE.
  set (q' := fst (push_lk q0 (zlen vs))) in *.
  pose proof (i_g _ _ I) as [G1 G2 G3 G4 G5 G6]. fold (npub m) in *.
  pose proof (zlen_nonneg vs) as VN. pose proof (zlen_nonneg (qd (pq e))) as QN.
  assert (HW : HALF < W) by reflexivity.
  assert (VC : vs <> [] -> 1 <= zlen vs).
  { destruct vs; [congruence|]. intros _. rewrite zlen_cons. pose proof (zlen_nonneg vs). lia. }
  pose proof (i_mm _ _ I) as (MM1 & MM2).
  pose proof (i_awt _ _ I) as (AN & AB).
  set (n' := npub m + zlen vs) in *.
  assert (NL : zlen (m_log m ++ vs) = n') by (rewrite zlen_app; reflexivity).
  assert (SUBS : m_subs m' = map (option_map (wk n' (m_max m))) (m_subs m)).
  { unfold m', mon_wake_all. cbn [m_subs]. rewrite NL. reflexivity. }
  (* the wake-up list is exactly the set of parked awaiters *)
  assert (WOK : wake_all_ok (m_subs m) (flat_map wake_of (regs (pq e))) = true).
  { unfold wake_all_ok. apply andb_true_intro. split; [apply andb_true_intro; split|].
    - apply nodup_b_NoDup. apply (NoDup_flat_map_sub awt_of); [|exact AN].
      intros x. unfold wake_of, awt_of. destruct (r_used x); [left|right]; reflexivity.
    - apply forallb_forall. intros a Ia. apply in_flat_map_rget in Ia as (h & Lh & Ia).
      unfold wake_of in Ia. destruct (r_used (rget (regs (pq e)) h)) eqn:U; [|destruct Ia].
      destruct (slot_owner _ _ _ I U) as (s & o & L & E & SB).
      destruct (inv_rec _ _ _ _ I L) as (r & Gr & LV).
      pose proof (i_sub _ _ I s o r L Gr) as (_ & _ & _ & _ & _ & _ & _ & AW & _). rewrite E in AW.
      apply existsb_exists. exists (Some r). split; [apply get_In with (s := s); exact Gr|].
      unfold parked_on. rewrite LV. cbn [andb]. destruct (m_pc r); cbn [awt_pc] in AW; rewrite AW in Ia; cbn in Ia; try tauto.
      destruct Ia as [<-|[]]. apply Z.eqb_refl.
    - apply forallb_forall. intros [r|] Ir; [|reflexivity]. unfold parked_in.
      destruct (m_live r) eqn:LV; [|reflexivity]. destruct (m_pc r) eqn:PC; try reflexivity.
      apply In_get in Ir as (s & Gr).
      destruct (get (objs e) s) as [o|] eqn:GO; [|apply (i_none _ _ I) in GO; congruence].
      pose proof (i_live _ _ I s o r GO Gr) as SL. rewrite LV in SL.
      pose proof (live_obj_intro _ _ _ GO SL) as L.
      pose proof (i_sub _ _ I s o r L Gr) as (U & _ & _ & _ & _ & _ & _ & AW & _). rewrite PC in AW. cbn [awt_pc] in AW.
      apply memz_In. apply in_flat_map_rget. exists (s_h o). split; [apply rget_used_lt; exact U|].
      unfold wake_of. rewrite U, AW. left. reflexivity. }
  split.
  - (* the judgement *)
    unfold good_b. rewrite SUBS. unfold m', mon_wake_all. cbn [m_bad m_log].
    rewrite WE, WOK. cbn [negb]. rewrite orb_false_r.
    unfold good_b in G. apply andb_prop in G as (GB & GS). rewrite GB. cbn [andb].
    apply forallb_forall. intros x Ix. apply in_map_iff in Ix as ([r|] & <- & Ir); [|reflexivity].
    cbn [option_map]. rewrite forallb_forall in GS. specialize (GS _ Ir).
    pose proof (wk_fields n' (m_max m) r) as (F1 & F2 & F3 & F4 & F5 & F6 & F7 & F8 & F9 & F10).
    apply (rec_good_ext _ _ r); assumption.
  - constructor; cbn [pq objs nawt palive]; fold q'.
    + exact G'.
    + unfold m', mon_wake_all. cbn [m_min m_max]. rewrite MN, MX. split; assumption.
    + unfold m', mon_wake_all. cbn [m_closed]. exact CE.
    + destruct (i_fl _ _ I) as (fl & FL). exists fl. rewrite RE, NF. apply freelist_map_clear. exact FL.
    + rewrite RE. apply awt_clear; assumption.
    + intros s. rewrite SUBS, get_map. destruct (get (m_subs m) s) eqn:E; cbn [option_map].
      * split; [intros X; apply (i_none _ _ I) in X; congruence|discriminate].
      * split; [reflexivity|intros _; apply (i_none _ _ I); exact E].
    + intros s o r GO Gr. rewrite SUBS, get_map in Gr. destruct (get (m_subs m) s) as [r0|] eqn:E; [|discriminate].
      cbn [option_map] in Gr. injection Gr as <-.
      pose proof (wk_fields n' (m_max m) r0) as (F1 & _). rewrite F1. apply (i_live _ _ I s o r0 GO E).
    + intros s o r L Gr. change (live_obj e s = Some o) in L.
      rewrite SUBS, get_map in Gr. destruct (get (m_subs m) s) as [r0|] eqn:E; [|discriminate].
      cbn [option_map] in Gr. injection Gr as <-.
      pose proof (wk_fields n' (m_max m) r0) as (F1 & F2 & F3 & F4 & F5 & F6 & F7 & F8 & F9 & F10).
      pose proof (i_sub _ _ I s o r0 L E) as (U & SB & MD & VM & KK & CU & RG & AW & PO).
      set (l := rget (regs (pq e)) (s_h o)) in *.
      rewrite RE, rget_map_clear. fold l.
      assert (CLR : clear_reg l = with_awt l None) by (unfold clear_reg; rewrite U; reflexivity).
      rewrite CLR. unfold npub. unfold m' at 1, mon_wake_all at 1. cbn [m_log]. rewrite NL. rewrite CE, MX.
      unfold sub_ok. cbn [with_awt r_used r_sub r_kicked r_pos r_awt]. rewrite F2, F4, F8, F9, F6.
      splits; try assumption; try lia.
      * destruct (m_pc r0); reflexivity.
      * intros EO. specialize (PO EO). destruct PO as (ST & M0 & M12).
        assert (ND : n' + 1 - r_pos l <= need_of (n' + 1) (regs (pq e)) (minl (pq e)) \/ r_pos l > n' + 1).
        { destruct (Z_le_gt_dec (r_pos l) (n' + 1)) as [LE|GT]; [left|right; exact GT].
          rewrite <- (wrap_small (n' + 1 - r_pos l)) by lia. replace (n' + 1) with (npub m + zlen vs + 1) by (unfold n'; lia).
          apply need_of_rget. exact U. }
        unfold pos_ok. cbn [with_awt r_pos]. rewrite F2, F3, F8, F9, F10. unfold consumed, lastp. rewrite F3, F5.
        unfold consumed, lastp in M0, M12. rewrite <- MM2.
        split; [exact ST|]. split.
        -- intros MDE. specialize (M0 MDE). destruct M0 as (A1 & A2 & A3 & A4). rewrite MDE. cbn [Z.eqb andb].
           splits.
           ++ exact A1.
           ++ intros IP. apply A2. destruct (m_pc r0); cbn [idle_pc] in *; try discriminate; reflexivity.
           ++ intros IP KF. apply A3; [|exact KF]. destruct (m_pc r0); cbn [idle_pc] in *; try discriminate; reflexivity.
           ++ intros LS. apply orb_false_elim in LS as (LS1 & LS2). specialize (A4 LS1). destruct A4 as (D1 & D2 & D3 & D4).
              rewrite QL. fold n'. splits; try lia.
              intros PCE KF DN. destruct CS as [(VS & CC)|(VS & CC)]; [specialize (VC VS); lia|exact CC].
        -- intros MDE. specialize (M12 MDE). destruct M12 as (B1 & B2 & B3 & B4).
           assert (MZ : (m_mode r0 =? 0) = false) by lia. rewrite MZ. cbn [andb]. rewrite orb_false_r.
           splits.
           ++ exact B1.
           ++ intros IP. apply B2. destruct (m_pc r0); cbn [idle_pc] in *; try discriminate; reflexivity.
           ++ intros IP KF. apply B3; [|exact KF]. destruct (m_pc r0); cbn [idle_pc] in *; try discriminate; reflexivity.
           ++ intros LS. specialize (B4 LS). destruct B4 as (C1 & C2 & C3). splits; try lia.
              ** intros IP. assert (idle_pc (m_pc r0) = true) by (destruct (m_pc r0); cbn [idle_pc] in *; try discriminate; reflexivity).
                 specialize (C2 H). lia.
              ** intros PCE KF DN. destruct CS as [(VS & CC)|(VS & CC)]; [specialize (VC VS); lia|exact CC].
    + intros s1 s2 o1 o2 L1 L2. apply (i_inj _ _ I s1 s2 o1 o2); assumption.
    + intros h U. rewrite RE, rget_map_clear in U.
      assert (U2 : r_used (rget (regs (pq e)) h) = true).
      { unfold clear_reg in U. destruct (r_used (rget (regs (pq e)) h)) eqn:UU; [reflexivity|congruence]. }
      apply (i_own _ _ I h U2).
Qed.

Lemma step_pub_batch e m vs : good_b m = true -> m_viol m = false -> Inv e m ->
  R (fst (step e (OBatch vs))) (mon_step m (OBatch vs) (snd (step e (OBatch vs)))).
Proof.
  intros G V I. unfold step, step_gen. destruct (palive e) eqn:PA.
  2:{ unfold mon_step. rewrite V. cbn. apply R_same; assumption. }
  cbn [fst snd]. unfold mon_step. rewrite V. cbn [o_st okw Z.eqb negb o_wk].
  destruct vs as [|v vs].
  - cbn [push_batch fst snd mon_publish eqlz negb]. rewrite with_pq_same.
    split; [apply good_add_bad; exact G|right; apply Inv_bad; exact I].
  - unfold mon_publish. destruct (HALF <=? zlen (m_log m) + zlen (v :: vs) + 1) eqn:HB; [apply R_viol; exact G|].
    unfold push_batch. rewrite <- (i_cl _ _ I).
    destruct (wake_inv e m (v :: vs) (closed (pq e)) (palive e) G I) as (G' & I').
    + unfold npub. lia.
    + left. split; [discriminate|reflexivity].
    + split; [exact G'|right; exact I'].
Qed.

Lemma step_pub e m v : good_b m = true -> m_viol m = false -> Inv e m ->
  R (fst (step e (OPub v))) (mon_step m (OPub v) (snd (step e (OPub v)))).
Proof.
  intros G V I. unfold step, step_gen. destruct (palive e) eqn:PA.
  2:{ unfold mon_step. rewrite V. cbn. apply R_same; assumption. }
  cbn [fst snd]. unfold mon_step. rewrite V. cbn [o_st okw Z.eqb negb o_wk].
  unfold mon_publish. destruct (HALF <=? zlen (m_log m) + zlen [v] + 1) eqn:HB; [apply R_viol; exact G|].
  unfold push1. rewrite <- (i_cl _ _ I).
  destruct (wake_inv e m [v] (closed (pq e)) (palive e) G I) as (G' & I').
  - unfold npub. lia.
  - left. split; [discriminate|reflexivity].
  - split; [exact G'|right; exact I'].
Qed.

Lemma close_R e m pa : good_b m = true -> m_viol m = false -> Inv e m ->
  R (mkT (fst (close_q (pq e))) (objs e) (nawt e) pa) (mon_close m (snd (close_q (pq e)))).
Proof.
  intros G V I. unfold close_q, mon_close. rewrite <- (i_cl _ _ I).
  destruct (closed (pq e)) eqn:CL.
  - cbn [fst snd eqlz negb]. split; [apply good_add_bad; exact G|right; apply Inv_bad].
    destruct I as [A B C D E F G0 H I0 J]. constructor; assumption.
  - destruct (wake_inv e m [] true pa G I) as (G' & I').
    + pose proof (i_g _ _ I) as [G1 G2 G3 G4 G5 G6]. unfold npub. cbn. lia.
    + right. split; reflexivity.
    + cbn [rev app zlen length Z.of_nat] in G', I'. rewrite app_nil_r in G', I'.
      split; [exact G'|right; exact I'].
Qed.

Lemma step_close e m : good_b m = true -> m_viol m = false -> Inv e m ->
  R (fst (step e OClose)) (mon_step m OClose (snd (step e OClose))).
Proof.
  intros G V I. unfold step, step_gen. destruct (palive e) eqn:PA.
  2:{ unfold mon_step. rewrite V. cbn. apply R_same; assumption. }
  cbn [fst snd]. unfold mon_step. rewrite V. cbn [o_st okw Z.eqb negb o_wk].
  unfold with_pq. apply close_R; assumption.
Qed.

Lemma step_destroy e m : good_b m = true -> m_viol m = false -> Inv e m ->
  R (fst (step e ODestroyPub)) (mon_step m ODestroyPub (snd (step e ODestroyPub))).
Proof.
  intros G V I. unfold step, step_gen. destruct (palive e) eqn:PA.
  2:{ unfold mon_step. rewrite V. cbn. apply R_same; assumption. }
  cbn [fst snd]. unfold mon_step. rewrite V. cbn [o_st okw Z.eqb negb o_wk].
  apply close_R; assumption.
Qed.

(* ---- subscribe (recent / at a position / by copy) ---- *)
Lemma live_obj_put_same e s o na pa q : s_live o = true ->
  live_obj (mkT q (put (objs e) s (Some o)) na pa) s = Some o.
Proof. intros L. unfold live_obj. cbn [objs]. rewrite get_put_same, L. reflexivity. Qed.

Lemma live_obj_put_other e s k o na pa q : s <> k ->
  live_obj (mkT q (put (objs e) s (Some o)) na pa) k = live_obj e k.
Proof. intros N. unfold live_obj. cbn [objs]. rewrite get_put_other by exact N. reflexivity. Qed.

Lemma add_obj e m s t p lost regs' nf' h :
  Inv e m -> get (objs e) s = None -> valid_mode t = true -> 0 <= p < HALF ->
  (lost = false -> if t =? 0 then p <= npub m /\ npub m - p <= zlen (qd (pq e)) /\ npub m - p <= maxl (pq e)
                   else p <= npub m) ->
  r_used (rget (regs (pq e)) h) = false ->
  rget regs' h = mkReg p (Z.of_nat s) None true false ->
  (forall k, k <> h -> rget regs' k = rget (regs (pq e)) k) ->
  (exists fl, freelist regs' nf' fl) ->
  (NoDup (flat_map awt_of regs') /\ forall a, In a (flat_map awt_of regs') -> a < nawt e) ->
  Inv (mkT (mkQ regs' nf' (qd (pq e)) (qpos (pq e)) (closed (pq e)) (minl (pq e)) (maxl (pq e)))
           (put (objs e) s (Some (mkSo h t true false))) (nawt e) (palive e))
      (set_sub m s (new_rec t p lost)).
Proof.
  intros I GN VM PR WN UN RH RO FL AW.
  assert (MN : get (m_subs m) s = None) by (apply (i_none _ _ I); exact GN).
  assert (NH : forall k o, live_obj e k = Some o -> s <> k /\ s_h o <> h).
  { intros k o L. split.
    - intros <-. apply live_obj_get in L as (L1 & _). congruence.
    - intros E. destruct (inv_rec _ _ _ _ I L) as (r & Gr & _).
      pose proof (i_sub _ _ I k o r L Gr) as (U & _). rewrite E in U. congruence. }
  constructor; cbn [pq objs nawt palive regs next_free qd qpos closed minl maxl set_sub m_log m_closed m_subs m_min m_max].
  - eapply Gq_same; [apply (i_g _ _ I)|reflexivity..].
  - apply (i_mm _ _ I).
  - apply (i_cl _ _ I).
  - exact FL.
  - exact AW.
  - intros k. destruct (Nat.eq_dec s k) as [<-|N].
    + rewrite get_put_same. rewrite get_put_same. split; discriminate.
    + rewrite get_put_other by exact N. rewrite get_put_other by exact N. apply (i_none _ _ I).
  - intros k o r G1 G2. destruct (Nat.eq_dec s k) as [<-|N].
    + rewrite get_put_same in G1. rewrite get_put_same in G2. injection G1 as <-. injection G2 as <-. reflexivity.
    + rewrite get_put_other in G1 by exact N. rewrite get_put_other in G2 by exact N. apply (i_live _ _ I k); assumption.
  - intros k o r L G2. destruct (Nat.eq_dec s k) as [<-|N].
    + rewrite live_obj_put_same in L by reflexivity. injection L as <-.
      rewrite get_put_same in G2. injection G2 as <-. cbn [s_h]. rewrite RH.
      unfold npub in *. cbn [set_sub m_log] in *.
      unfold sub_ok, new_rec. splits; simp_rec; try reflexivity; try assumption; try lia.
      intros _. unfold pos_ok. simp_rec. cbn [s_mode zlen length Z.of_nat last_pos] in *.
      destruct (t =? 0) eqn:T0.
      * clear - PR WN T0. intuition (try discriminate; try congruence; try lia).
      * clear - PR WN T0. intuition (try discriminate; try congruence; try lia).
    + rewrite live_obj_put_other in L by exact N. rewrite get_put_other in G2 by exact N.
      destruct (NH k o L) as (_ & NE). rewrite RO by exact NE. apply (i_sub _ _ I k); assumption.
  - intros s1 s2 o1 o2 L1 L2 E.
    destruct (Nat.eq_dec s s1) as [<-|N1]; destruct (Nat.eq_dec s s2) as [<-|N2]; try reflexivity.
    + rewrite live_obj_put_same in L1 by reflexivity. injection L1 as <-.
      rewrite live_obj_put_other in L2 by exact N2. destruct (NH s2 o2 L2) as (_ & NE). cbn [s_h] in E. congruence.
    + rewrite live_obj_put_same in L2 by reflexivity. injection L2 as <-.
      rewrite live_obj_put_other in L1 by exact N1. destruct (NH s1 o1 L1) as (_ & NE). cbn [s_h] in E. congruence.
    + rewrite live_obj_put_other in L1 by exact N1. rewrite live_obj_put_other in L2 by exact N2.
      apply (i_inj _ _ I s1 s2 o1 o2); assumption.
  - intros k U. destruct (Nat.eq_dec k h) as [->|N].
    + exists s, (mkSo h t true false). split; [apply live_obj_put_same; reflexivity|reflexivity].
    + rewrite RO in U by exact N. destruct (i_own _ _ I k U) as (s' & o' & L' & E').
      exists s', o'. split; [|exact E']. destruct (NH s' o' L') as (NS & _). rewrite live_obj_put_other by exact NS. exact L'.
Qed.

Lemma subscribe_inv e m s t p lost :
  Inv e m -> get (objs e) s = None -> valid_mode t = true -> 0 <= p < HALF ->
  (lost = false -> if t =? 0 then p <= npub m /\ npub m - p <= zlen (qd (pq e)) /\ npub m - p <= maxl (pq e)
                   else p <= npub m) ->
  Inv (fst (new_sub e s t (subscribe_lk (pq e) (Z.of_nat s) p))) (set_sub m s (new_rec t p lost)) /\
  snd (new_sub e s t (subscribe_lk (pq e) (Z.of_nat s) p)) =
    ok3 (Z.of_nat (snd (subscribe_lk (pq e) (Z.of_nat s) p))) p 0.
Proof.
  intros I GN VM PR WN. unfold new_sub. cbn [fst snd].
  pose proof (i_awt _ _ I) as (AN & AB). destruct (i_fl _ _ I) as (fl & FL).
  unfold subscribe_lk. destruct (zlen (regs (pq e)) <=? next_free (pq e)) eqn:C; cbn [fst snd].
  - (* a new slot *)
    assert (FE : fl = [] /\ next_free (pq e) = zlen (regs (pq e))).
    { destruct (freelist_head _ _ _ FL) as [X|(h & t' & _ & E & L)]; [exact X|]. unfold zlen in C. lia. }
    split.
    + apply add_obj; try assumption.
      * apply (f_equal r_used (rget_beyond _ _ (le_n _))).
      * apply rget_app_new.
      * intros k N. destruct (Nat.lt_ge_cases k (length (regs (pq e)))) as [L|L].
        -- apply rget_app_l. exact L.
        -- rewrite !rget_beyond; [reflexivity|exact L|rewrite app_length; cbn; lia].
      * exists []. replace (zlen (regs (pq e)) + 1) with (zlen (regs (pq e) ++ [mkReg p (Z.of_nat s) None true false]))
          by (rewrite zlen_app; reflexivity). constructor.
      * rewrite flat_map_app. cbn. rewrite app_nil_r. split; assumption.
    + unfold pos_of. cbn [regs]. rewrite rget_app_new. reflexivity.
  - (* a slot from the free list *)
    destruct (freelist_head _ _ _ FL) as [(_ & X)|(h & t' & -> & E & L)]; [lia|].
    rewrite E, Nat2Z.id.
    inversion FL as [|h' t'' L' U' N' F' E1 E2]; subst.
    split.
    + apply add_obj; try assumption.
      * apply rget_set_same. exact L.
      * intros k N. apply rget_set_other. congruence.
      * exists t'. apply freelist_set_other; assumption.
      * apply awt_same_keep; try assumption. left. reflexivity.
    + unfold pos_of. cbn [regs]. rewrite rget_set_same by exact L. reflexivity.
Qed.

Lemma rec_good_new lg t p lost : rec_good_b lg (Some (new_rec t p lost)) = true.
Proof. unfold rec_good_b, new_rec. cbn [m_mode m_start m_deliv m_eos m_eos_ok]. destruct (t =? 0); reflexivity. Qed.

Lemma step_subrecent e m s t : good_b m = true -> m_viol m = false -> Inv e m ->
  R (fst (step e (OSubRecent s t))) (mon_step m (OSubRecent s t) (snd (step e (OSubRecent s t)))).
Proof.
  intros G V I. unfold step, step_gen.
  destruct (get (objs e) s) as [o|] eqn:GN.
  { unfold mon_step. rewrite V. cbn. apply R_same; assumption. }
  destruct (valid_mode t && palive e) eqn:VP.
  2:{ unfold mon_step. rewrite V. cbn. apply R_same; assumption. }
  apply andb_prop in VP as (VM & PA).
  pose proof (i_g _ _ I) as [G1 G2 G3 G4 G5 G6]. fold (npub m) in *.
  pose proof (zlen_nonneg (m_log m)) as LN. fold (npub m) in LN. assert (HW : HALF < W) by reflexivity.
  unfold subscribe_recent_lk. rewrite G3. rewrite wrap_small by lia. replace (npub m + 1 - 1) with (npub m) by lia.
  destruct (subscribe_inv e m s t (npub m) false I GN VM ltac:(lia)) as (I' & OE).
  { intros _. pose proof (zlen_nonneg (qd (pq e))). destruct (t =? 0); lia. }
  rewrite OE. unfold mon_step. rewrite V. cbn [o_st ok3 Z.eqb negb o_b].
  assert (MN : get (m_subs m) s = None) by (apply (i_none _ _ I); exact GN). rewrite MN, VM. cbn [negb orb].
  destruct (HALF <=? npub m) eqn:HB; [lia|]. rewrite Z.eqb_refl. cbn [negb].
  split; [apply good_add_bad; apply good_set_sub; [exact G|apply rec_good_new]|right; apply Inv_bad; exact I'].
Qed.

Lemma step_subat e m s t p : good_b m = true -> m_viol m = false -> Inv e m ->
  R (fst (step e (OSubAt s t p))) (mon_step m (OSubAt s t p) (snd (step e (OSubAt s t p)))).
Proof.
  intros G V I. unfold step, step_gen.
  destruct (get (objs e) s) as [o|] eqn:GN.
  { unfold mon_step. rewrite V. cbn. apply R_same; assumption. }
  destruct (valid_mode t && palive e && (0 <=? p) && (p <? HALF)) eqn:VP.
  2:{ unfold mon_step. rewrite V. cbn. apply R_same; assumption. }
  apply andb_prop in VP as (VP & P2). apply andb_prop in VP as (VP & P1). apply andb_prop in VP as (VM & PA).
  pose proof (i_g _ _ I) as [G1 G2 G3 G4 G5 G6]. fold (npub m) in *.
  pose proof (i_mm _ _ I) as (MM1 & MM2).
  destruct (subscribe_inv e m s t p (negb (in_window m t p)) I GN VM ltac:(lia)) as (I' & OE).
  { intros LS. apply negb_false_iff in LS. unfold in_window in LS. rewrite MM1 in LS.
    pose proof (zlen_nonneg (qd (pq e))). destruct (t =? 0); lia. }
  rewrite OE. unfold mon_step. rewrite V. cbn [o_st ok3 Z.eqb negb o_b].
  assert (MN : get (m_subs m) s = None) by (apply (i_none _ _ I); exact GN). rewrite MN, VM. cbn [negb orb].
  destruct (HALF <=? p) eqn:HB; [lia|]. destruct (p <? 0) eqn:PN; [lia|]. cbn [orb]. rewrite Z.eqb_refl. cbn [negb].
  split; [apply good_add_bad; apply good_set_sub; [exact G|apply rec_good_new]|right; apply Inv_bad; exact I'].
Qed.

Lemma step_subcopy e m s src : good_b m = true -> m_viol m = false -> Inv e m ->
  R (fst (step e (OSubCopy s src))) (mon_step m (OSubCopy s src) (snd (step e (OSubCopy s src)))).
Proof.
  intros G V I. unfold step, step_gen.
  destruct (get (objs e) s) as [o0|] eqn:GN.
  { unfold mon_step. rewrite V. cbn. apply R_same; assumption. }
  destruct (live_obj e src) as [o|] eqn:L.
  2:{ unfold mon_step. rewrite V. cbn. apply R_same; assumption. }
  destruct (inv_rec _ _ _ _ I L) as (r & Gr & LV).
  pose proof (i_sub _ _ I src o r L Gr) as (U & SB & MD & VM & KK & CU & RG & AW & PO).
  unfold subscribe_copy_lk. set (l := rget (regs (pq e)) (s_h o)) in *.
  set (lost := m_lost r || m_eos r || m_kicked r || negb (idle_pc (m_pc r))).
  destruct (subscribe_inv e m s (s_mode o) (r_pos l) lost I GN VM RG) as (I' & OE).
  { intros LS. unfold lost in LS. apply orb_false_elim in LS as (LS & L4). apply orb_false_elim in LS as (LS & L3).
    apply orb_false_elim in LS as (L1 & L2). apply negb_false_iff in L4.
    specialize (PO L2). destruct PO as (ST & M0 & M12). rewrite MD in *.
    destruct (s_mode o =? 0) eqn:T0.
    - assert (T : s_mode o = 0) by lia. specialize (M0 T). destruct M0 as (A1 & A2 & A3 & A4).
      specialize (A2 L4). specialize (A4 L1). rewrite A2. lia.
    - assert (T : s_mode o <> 0) by lia. specialize (M12 T). destruct M12 as (B1 & B2 & B3 & B4).
      specialize (B4 L1). destruct B4 as (C1 & C2 & C3). apply C2. exact L4. }
  rewrite OE. unfold mon_step. rewrite V. cbn [o_st ok3 Z.eqb negb o_b].
  assert (MN : get (m_subs m) s = None) by (apply (i_none _ _ I); exact GN). rewrite MN, Gr, LV. cbn [negb orb].
  destruct (HALF <=? r_pos l) eqn:HB; [lia|]. rewrite CU, Z.eqb_refl. cbn [negb]. rewrite MD. fold lost.
  split; [apply good_add_bad; apply good_set_sub; [exact G|apply rec_good_new]|right; apply Inv_bad; exact I'].
Qed.

(* ---- ~subscriber ---- *)
Lemma live_obj_put_dead e s o na pa q : s_live o = false ->
  live_obj (mkT q (put (objs e) s (Some o)) na pa) s = None.
Proof. intros L. unfold live_obj. cbn [objs]. rewrite get_put_same, L. reflexivity. Qed.

Lemma step_leave e m s : good_b m = true -> m_viol m = false -> Inv e m ->
  R (fst (step e (OLeave s))) (mon_step m (OLeave s) (snd (step e (OLeave s)))).
Proof.
  intros G V I. unfold step, step_gen.
  destruct (free_obj e s) as [o|] eqn:F.
  2:{ unfold mon_step. rewrite V. cbn. apply R_same; assumption. }
  pose proof (free_live _ _ _ F) as L.
  destruct (inv_rec _ _ _ _ I L) as (r & Gr & LV).
  pose proof (i_sub _ _ I s o r L Gr) as (U & SB & MD & VM & KK & CU & RG & AW & PO).
  assert (HL : (s_h o < length (regs (pq e)))%nat) by (apply rget_used_lt; exact U).
  pose proof (good_rec _ _ _ G Gr) as GR.
  cbn [fst snd]. unfold mon_step. rewrite V. cbn [o_st ok3 Z.eqb negb]. rewrite Gr.
  rewrite LV; cbn [negb].
  all: split; [apply good_set_sub; [exact G|exact GR]|right].
  all: set (l := rget (regs (pq e)) (s_h o)) in *.
  all: set (l' := mkReg (next_free (pq e)) (r_sub l) (r_awt l) false (r_kicked l)).
  all: assert (NH : forall k o', live_obj e k = Some o' -> s <> k -> s_h o' <> s_h o)
         by (intros k o' L' N E; apply N; symmetry; apply (i_inj _ _ I k s o' o L' L E)).
  all: unfold leave_lk; fold l; fold l'.
  all: constructor; cbn [pq objs nawt palive regs next_free qd qpos closed minl maxl set_sub m_log m_closed m_subs m_min m_max].
  all: try (eapply Gq_same; [apply (i_g _ _ I)|reflexivity..]).
  all: try apply (i_mm _ _ I).
  all: try apply (i_cl _ _ I).
  all: try (destruct (i_fl _ _ I) as (fl & FL); exists (s_h o :: fl);
            assert (NI : ~ In (s_h o) fl) by (intros K; pose proof (freelist_unused _ _ _ FL _ K); fold l in H; congruence);
            constructor; [rewrite length_set_nth; exact HL|rewrite rget_set_same by exact HL; reflexivity|exact NI|];
            rewrite rget_set_same by exact HL; cbn [r_pos l']; apply freelist_set_other; assumption).
  all: try (apply awt_same_keep; [exact HL|apply (i_awt _ _ I)|apply (i_awt _ _ I)|right; reflexivity]).
  all: try (intros k; destruct (Nat.eq_dec s k) as [<-|N];
            [rewrite get_put_same; rewrite get_put_same; split; discriminate
            |rewrite get_put_other by exact N; rewrite get_put_other by exact N; apply (i_none _ _ I)]).
  all: try (intros k o1 r1 G1 G2; destruct (Nat.eq_dec s k) as [<-|N];
            [rewrite get_put_same in G1; rewrite get_put_same in G2; injection G1 as <-; injection G2 as <-; reflexivity
            |rewrite get_put_other in G1 by exact N; rewrite get_put_other in G2 by exact N; apply (i_live _ _ I k); assumption]).
  all: try (intros k o1 r1 L1 G2; destruct (Nat.eq_dec s k) as [<-|N];
            [rewrite live_obj_put_dead in L1 by reflexivity; discriminate|];
            rewrite live_obj_put_other in L1 by exact N; rewrite get_put_other in G2 by exact N;
            rewrite rget_set_other by (intros E; apply (NH k o1 L1 N); symmetry; exact E);
            apply (i_sub _ _ I k); assumption).
  all: try (intros s1 s2 o1 o2 L1 L2 E;
            destruct (Nat.eq_dec s s1) as [<-|N1]; [rewrite live_obj_put_dead in L1 by reflexivity; discriminate|];
            destruct (Nat.eq_dec s s2) as [<-|N2]; [rewrite live_obj_put_dead in L2 by reflexivity; discriminate|];
            rewrite live_obj_put_other in L1 by exact N1; rewrite live_obj_put_other in L2 by exact N2;
            apply (i_inj _ _ I s1 s2 o1 o2); assumption).
  all: try (intros k UK; destruct (Nat.eq_dec (s_h o) k) as [<-|N];
            [rewrite rget_set_same in UK by exact HL; discriminate|];
            rewrite rget_set_other in UK by exact N;
            destruct (i_own _ _ I k UK) as (s' & o' & L' & E'); exists s', o'; split; [|exact E'];
            assert (s <> s') by (intros <-; rewrite L in L'; injection L' as <-; congruence);
            rewrite live_obj_put_other by assumption; exact L').
Qed.

(* ------------------------------------------------------------------ every locked step preserves R *)
Lemma good_mon_step_viol m x o : m_viol m = true -> mon_step m x o = m.
Proof. intros V. unfold mon_step. rewrite V. reflexivity. Qed.

Theorem step_R e m x : R e m -> R (fst (step e x)) (mon_step m x (snd (step e x))).
Proof.
  intros (G & VI). destruct (m_viol m) eqn:V.
  { rewrite good_mon_step_viol by exact V. split; [exact G|left; exact V]. }
  destruct VI as [VI|I]; [congruence|].
  destruct x.
  - apply step_pub; assumption.
  - apply step_pub_batch; assumption.
  - apply step_subrecent; assumption.
  - apply step_subat; assumption.
  - apply step_subcopy; assumption.
  - apply step_ready; assumption.
  - apply step_suspend; assumption.
  - apply step_get; assumption.
  - apply step_kick; assumption.
  - apply step_leave; assumption.
  - apply step_close; assumption.
  - apply step_position; assumption.
  - apply step_destroy; assumption.
  - unfold step, step_gen, mon_step. rewrite V. cbn. apply R_same; assumption.
  - unfold step, step_gen, mon_step. rewrite V. cbn. apply R_same; assumption.
  - unfold step, step_gen, mon_step. rewrite V. cbn. apply R_same; assumption.
  - unfold step, step_gen, mon_step. rewrite V. cbn. apply R_same; assumption.
Qed.

(* ---- composite operations: sequences of locked steps, one observation line each ---- *)
Lemma R_bump e m : R e m -> R (bump e) m.
Proof.
  intros (G & [V|I]); split; try exact G; [left; exact V|right].
  destruct I as [A B C D E F G0 H I0 J]. constructor; try assumption.
  cbn [bump pq nawt]. destruct E as (E1 & E2). split; [exact E1|]. intros a Ia. specialize (E2 a Ia). lia.
Qed.

Lemma R_set_blk e m s o b : R e m -> live_obj e s = Some o -> R (set_blk e s o b) m.
Proof.
  intros (G & [V|I]) L; split; try exact G; [left; exact V|right].
  pose proof (live_obj_get _ _ _ L) as (GO & SL).
  assert (LO : forall k, live_obj (set_blk e s o b) k = if Nat.eq_dec s k then Some (mkSo (s_h o) (s_mode o) (s_live o) b) else live_obj e k).
  { intros k. unfold set_blk. destruct (Nat.eq_dec s k) as [<-|N].
    - apply live_obj_put_same. exact SL.
    - apply live_obj_put_other. exact N. }
  constructor; try (unfold set_blk; cbn [pq objs nawt palive]).
  - apply (i_g _ _ I). - apply (i_mm _ _ I). - apply (i_cl _ _ I). - apply (i_fl _ _ I). - apply (i_awt _ _ I).
  - intros k. destruct (Nat.eq_dec s k) as [<-|N].
    + rewrite get_put_same. split; [discriminate|]. intros X. apply (i_none _ _ I) in X. congruence.
    + rewrite get_put_other by exact N. apply (i_none _ _ I).
  - intros k o1 r1 G1 G2. destruct (Nat.eq_dec s k) as [<-|N].
    + rewrite get_put_same in G1. injection G1 as <-. cbn [s_live]. apply (i_live _ _ I s o r1 GO G2).
    + rewrite get_put_other in G1 by exact N. apply (i_live _ _ I k); assumption.
  - intros k o1 r1 L1 G2. fold (set_blk e s o b) in L1. rewrite LO in L1. destruct (Nat.eq_dec s k) as [<-|N].
    + injection L1 as <-. cbn [s_h]. pose proof (i_sub _ _ I s o r1 L G2) as SO. unfold sub_ok in *. cbn [s_mode]. exact SO.
    + apply (i_sub _ _ I k); assumption.
  - intros s1 s2 o1 o2 L1 L2 E. fold (set_blk e s o b) in L1, L2. rewrite LO in L1, L2.
    assert (X : forall k ok, (if Nat.eq_dec s k then Some (mkSo (s_h o) (s_mode o) (s_live o) b) else live_obj e k) = Some ok ->
                exists ok', live_obj e k = Some ok' /\ s_h ok' = s_h ok).
    { intros k ok HH. destruct (Nat.eq_dec s k) as [<-|N]; [injection HH as <-; exists o; split; [exact L|reflexivity]|exists ok; split; [exact HH|reflexivity]]. }
    destruct (X _ _ L1) as (o1' & L1' & E1). destruct (X _ _ L2) as (o2' & L2' & E2).
    apply (i_inj _ _ I s1 s2 o1' o2' L1' L2'). congruence.
  - intros h U. destruct (i_own _ _ I h U) as (s' & o' & L' & E'). fold (set_blk e s o b).
    destruct (Nat.eq_dec s s') as [<-|N].
    + exists s, (mkSo (s_h o) (s_mode o) (s_live o) b). rewrite LO. destruct (Nat.eq_dec s s); [|congruence].
      split; [reflexivity|]. cbn [s_h]. rewrite L in L'. injection L' as <-. exact E'.
    + exists s', o'. rewrite LO. destruct (Nat.eq_dec s s'); [congruence|]. split; assumption.
Qed.

Lemma feed1_cons m x o os : feed1 m x (o :: os) = (mon_step m x o, os).
Proof. reflexivity. Qed.

Lemma step_obs_st e x : o_st (snd (step e x)) = 0 \/ o_st (snd (step e x)) = 1 \/ o_st (snd (step e x)) = -999.
Proof.
  unfold step, step_gen. destruct x; cbn;
    repeat match goal with
           | |- context[if ?c then _ else _] => destruct c; cbn
           | |- context[match ?c with _ => _ end] => destruct c; cbn
           end; auto.
Qed.

Lemma mon_step_rejected m x : mon_step m x rejected = m.
Proof. unfold mon_step. destruct (m_viol m); reflexivity. Qed.

Lemma ready_obs_ok e s o : free_obj e s = Some o -> o_st (snd (step e (OReady s))) = 0.
Proof. intros F. unfold step, step_gen. rewrite F. reflexivity. Qed.

Lemma step_objs_next e x s : x = OReady s \/ x = OSuspend s \/ x = OGet s -> objs (fst (step e x)) = objs e.
Proof.
  intros [ -> | [ -> | -> ] ]; unfold step, step_gen; destruct (free_obj e s); try reflexivity.
  destruct (snd (get_value_lk (pq e) (s_h s0) (s_mode s0))); reflexivity.
Qed.

Lemma live_obj_objs e e' s : objs e' = objs e -> live_obj e' s = live_obj e s.
Proof. intros E. unfold live_obj. rewrite E. reflexivity. Qed.

Theorem stepx_R e m x os : R e m ->
  R (fst (stepx e x)) (fst (feed m x (snd (stepx e x) ++ os))) /\ snd (feed m x (snd (stepx e x) ++ os)) = os.
Proof.
  intros HR.
  assert (PRIM : R (fst (step e x)) (fst (feed1 m x ([snd (step e x)] ++ os))) /\
                 snd (feed1 m x ([snd (step e x)] ++ os)) = os).
  { cbn [app]. rewrite feed1_cons. cbn [fst snd]. split; [apply step_R; exact HR|reflexivity]. }
  destruct x; try exact PRIM; clear PRIM; unfold stepx, stepx_gen;
    change (step_gen advance_suspend_lk get_value_lk) with step.
  - (* OBlock *)
    destruct (free_obj e s) as [o|] eqn:F.
    2:{ cbn [fst snd app feed is_ok rejected o_st Z.eqb negb]. rewrite feed1_cons, mon_step_rejected. split; [exact HR|reflexivity]. }
    pose proof (free_live _ _ _ F) as L.
    set (r1 := step e (OReady s)).
    assert (R1 : R (fst r1) (mon_step m (OReady s) (snd r1))) by (apply step_R; exact HR).
    assert (OK1 : o_st (snd r1) = 0) by (apply (ready_obs_ok _ _ _ F)).
    destruct (o_a (snd r1) =? 1) eqn:A1.
    { set (g := step (fst r1) (OGet s)). cbn [fst snd app]. unfold feed, is_ok, ret1. rewrite OK1, A1. cbn [Z.eqb negb].
      rewrite feed1_cons. cbn [fst snd]. rewrite feed1_cons. cbn [fst snd].
      split; [apply R_bump; apply step_R; exact R1|reflexivity]. }
    set (r2 := step (fst r1) (OReady s)).
    assert (R2 : R (fst r2) (mon_step (mon_step m (OReady s) (snd r1)) (OReady s) (snd r2))) by (apply step_R; exact R1).
    destruct (o_a (snd r2) =? 1) eqn:A2.
    { set (g := step (fst r2) (OGet s)). cbn [fst snd app]. unfold feed, is_ok, ret1. rewrite OK1, A1. cbn [Z.eqb negb].
      rewrite feed1_cons. cbn [fst snd]. rewrite feed1_cons. cbn [fst snd]. rewrite A2. rewrite feed1_cons. cbn [fst snd].
      split; [apply R_bump; apply step_R; exact R2|reflexivity]. }
    set (r3 := step (fst r2) (OSuspend s)).
    assert (R3 : R (fst r3) (mon_step (mon_step (mon_step m (OReady s) (snd r1)) (OReady s) (snd r2)) (OSuspend s) (snd r3)))
      by (apply step_R; exact R2).
    assert (L3 : live_obj (fst r3) s = Some o).
    { assert (O3 : objs (fst r3) = objs e).
      { unfold r3. rewrite (step_objs_next _ _ s) by auto. unfold r2. rewrite (step_objs_next _ _ s) by auto.
        unfold r1. apply (step_objs_next _ _ s). auto. }
      rewrite (live_obj_objs _ _ s O3). exact L. }
    destruct (o_a (snd r3) =? 1) eqn:A3.
    { cbn [fst snd app]. unfold feed, is_ok, ret1. rewrite OK1, A1. cbn [Z.eqb negb].
      rewrite feed1_cons. cbn [fst snd]. rewrite feed1_cons. cbn [fst snd]. rewrite A2. rewrite feed1_cons. cbn [fst snd]. rewrite A3.
      split; [apply R_set_blk; assumption|reflexivity]. }
    set (g := step (fst r3) (OGet s)). cbn [fst snd app]. unfold feed, is_ok, ret1. rewrite OK1, A1. cbn [Z.eqb negb].
    rewrite feed1_cons. cbn [fst snd]. rewrite feed1_cons. cbn [fst snd]. rewrite A2. rewrite feed1_cons. cbn [fst snd]. rewrite A3.
    rewrite feed1_cons. cbn [fst snd].
    split; [apply step_R; exact R3|reflexivity].
  - (* OBlockFin *)
    destruct (live_obj e s) as [o|] eqn:L.
    2:{ cbn [fst snd app feed]. rewrite feed1_cons, mon_step_rejected. split; [exact HR|reflexivity]. }
    destruct (s_blk o && match r_awt (rget (regs (pq e)) (s_h o)) with None => true | Some _ => false end).
    2:{ cbn [fst snd app feed]. rewrite feed1_cons, mon_step_rejected. split; [exact HR|reflexivity]. }
    cbn [fst snd app feed]. rewrite feed1_cons. cbn [fst snd].
    split; [apply step_R; apply R_set_blk; assumption|reflexivity].
  - (* OPoll *)
    destruct (free_obj e s) as [o|] eqn:F.
    2:{ cbn [fst snd app feed is_ok rejected o_st Z.eqb negb]. rewrite feed1_cons, mon_step_rejected. split; [exact HR|reflexivity]. }
    set (r1 := step e (OReady s)).
    assert (R1 : R (fst r1) (mon_step m (OReady s) (snd r1))) by (apply step_R; exact HR).
    assert (OK1 : o_st (snd r1) = 0) by (apply (ready_obs_ok _ _ _ F)).
    destruct (o_a (snd r1) =? 1) eqn:A1.
    + set (g := step (fst r1) (OGet s)). cbn [fst snd app]. unfold feed, is_ok, ret1. rewrite OK1, A1. cbn [Z.eqb negb].
      rewrite feed1_cons. cbn [fst snd]. rewrite feed1_cons. cbn [fst snd].
      split; [apply step_R; exact R1|reflexivity].
    + cbn [fst snd app]. unfold feed, is_ok, ret1. rewrite OK1, A1. cbn [Z.eqb negb].
      rewrite feed1_cons. cbn [fst snd]. split; [exact R1|reflexivity].
Qed.

(* ------------------------------------------------------------------ whole runs *)
Theorem run_R l : forall e m, R e m -> R (snd (run_from e l)) (mon_run m l (fst (run_from e l))).
Proof.
  induction l as [|x l IH]; intros e m HR; [exact HR|].
  unfold run_from in *. cbn [run_gen fst snd mon_run]. fold (stepx e x).
  destruct (stepx_R e m x (fst (run_gen advance_suspend_lk get_value_lk (fst (stepx e x)) l)) HR) as (R1 & E1).
  rewrite E1. apply IH. exact R1.
Qed.

Lemma Inv0 mn mx : cfg_ok_b mn mx = true -> Inv (tst0 mn mx) (mon0 mn mx).
Proof.
  intros C. unfold cfg_ok_b in C.
  assert (GN : forall (A : Type) (s : nat), @get A [] s = None) by (intros A s; unfold get; destruct s; reflexivity).
  assert (LN : forall s, live_obj (tst0 mn mx) s = None) by (intros s; unfold live_obj, tst0; cbn [objs]; rewrite GN; reflexivity).
  constructor; unfold tst0, mon0, pubq0; cbn [pq objs nawt palive regs next_free qd qpos closed minl maxl m_log m_closed m_subs m_min m_max].
  - constructor; cbn [regs next_free qd qpos closed minl maxl]; try (unfold zlen; cbn; lia).
    + unfold HALF, zlen. cbn. lia.
    + unfold win. exists 0%nat. reflexivity.
  - split; reflexivity.
  - reflexivity.
  - exists []. apply (fl_nil []).
  - split; [constructor|]. intros a [].
  - intros s. rewrite !GN. split; reflexivity.
  - intros s o r G0. rewrite GN in G0. discriminate.
  - intros s o r L. fold (pubq0 mn mx) in L. fold (tst0 mn mx) in L. rewrite LN in L. discriminate.
  - intros s1 s2 o1 o2 L. fold (pubq0 mn mx) in L. fold (tst0 mn mx) in L. rewrite LN in L. discriminate.
  - intros h U. unfold rget in U. destruct h; discriminate.
Qed.

Lemma dec_enc o : dec_obs (encode_obs o) = o.
Proof. destruct o; reflexivity. Qed.

(* the monitor's judgement on the model's own trace is `good`, for every case file *)
Theorem oracle_accepts_model ops : pub_oracle ops (pub_run ops) = true.
Proof.
  unfold pub_oracle, pub_run, pub_run_gen. destruct ops as [|c t]; [reflexivity|].
  destruct (cfg_of c) as [[mn mx]|] eqn:CF.
  - rewrite map_map. rewrite (map_ext _ (fun o => o) dec_enc), map_id.
    assert (C : cfg_ok_b mn mx = true).
    { unfold cfg_of in CF. destruct c as [|a [|b [|? ?]]]; try discriminate.
      destruct (cfg_ok_b a (if b =? 0 then unlimited else b)) eqn:E; [|discriminate]. injection CF as <- <-. exact E. }
    assert (R0 : R (tst0 mn mx) (mon0 mn mx)) by (split; [reflexivity|right; apply Inv0; exact C]).
    apply (run_R (map decode t) _ _ R0).
  - cbn [map length]. rewrite map_length. apply Nat.eqb_refl.
Qed.

(* ------------------------------------------------------------------ readable consequences *)
(* what the monitor has recorded after the model ran ops from the initial state *)
Definition final_e (mn mx : Z) (ops : list op) : tst := snd (run_from (tst0 mn mx) ops).
Definition final_m (mn mx : Z) (ops : list op) : mon := mon_run (mon0 mn mx) ops (fst (run_from (tst0 mn mx) ops)).

Lemma final_R mn mx ops : cfg_ok_b mn mx = true -> R (final_e mn mx ops) (final_m mn mx ops).
Proof. intros C. apply run_R. split; [reflexivity|right; apply Inv0; exact C]. Qed.

(* deliveries are stored newest first: the i-th newest of an all_values subscriber is at position start + |d| - i *)
Lemma contig_spec start lg d : contig_b start lg d = true ->
  forall i p v k, nth_error d i = Some (p, v, k) ->
  p = start + zlen d - Z.of_nat i /\ 1 <= p <= zlen lg /\ v = nthz lg (p - 1).
Proof.
  induction d as [|[[p0 v0] k0] d IH]; intros H i p v k E; [destruct i; discriminate|].
  rewrite contig_b_cons in H.
  apply andb_prop in H as (H & H5). apply andb_prop in H as (H & H4). apply andb_prop in H as (H & H3).
  apply andb_prop in H as (H1 & H2).
  destruct i as [|i]; cbn [nth_error] in E.
  - injection E as <- <- <-. lia.
  - destruct (IH H5 i p v k E) as (A & B & C). rewrite zlen_cons. split; [lia|]. split; assumption.
Qed.

(* skip modes: every delivery is at a position above all earlier ones and above the start *)
Lemma incr_spec start d : incr_b start d = true ->
  forall i p v k, nth_error d i = Some (p, v, k) -> last_pos start (skipn (S i) d) < p.
Proof.
  induction d as [|[[p0 v0] k0] d IH]; intros H i p v k E; [destruct i; discriminate|].
  rewrite incr_b_cons in H. apply andb_prop in H as (H1 & H2).
  destruct i as [|i]; cbn [nth_error] in E.
  - injection E as <- <- <-. cbn [skipn]. lia.
  - cbn [skipn]. apply (IH H2 i p v k E).
Qed.

Lemma final_rec_good mn mx ops s r : cfg_ok_b mn mx = true ->
  get (m_subs (final_m mn mx ops)) s = Some r -> rec_good_b (m_log (final_m mn mx ops)) (Some r) = true.
Proof. intros C G. apply (good_rec _ s); [apply (final_R mn mx ops C)|exact G]. Qed.

Theorem contiguous mn mx ops s r : cfg_ok_b mn mx = true ->
  get (m_subs (final_m mn mx ops)) s = Some r -> m_mode r = 0 ->
  forall i p v k, nth_error (m_deliv r) i = Some (p, v, k) ->
  p = m_start r + zlen (m_deliv r) - Z.of_nat i /\ 1 <= p <= zlen (m_log (final_m mn mx ops)) /\
  v = nthz (m_log (final_m mn mx ops)) (p - 1).
Proof.
  intros C G M. pose proof (final_rec_good _ _ _ _ _ C G) as H. unfold rec_good_b in H. rewrite M in H. cbn [Z.eqb] in H.
  apply andb_prop in H as (H & _). apply contig_spec. exact H.
Qed.

Theorem skip_forward mn mx ops s r : cfg_ok_b mn mx = true ->
  get (m_subs (final_m mn mx ops)) s = Some r -> m_mode r <> 0 ->
  forall i p v k, nth_error (m_deliv r) i = Some (p, v, k) ->
  last_pos (m_start r) (skipn (S i) (m_deliv r)) < p /\ 1 <= p <= k /\ k <= zlen (m_log (final_m mn mx ops)) /\
  v = nthz (m_log (final_m mn mx ops)) (p - 1) /\ (m_mode r = 2 -> p = k).
Proof.
  intros C G M i p v k E. pose proof (final_rec_good _ _ _ _ _ C G) as H. unfold rec_good_b in H.
  destruct (m_mode r =? 0) eqn:M0; [lia|]. apply andb_prop in H as (H & _). apply andb_prop in H as (H1 & H2).
  split; [apply (incr_spec _ _ H1 i p v k E)|].
  rewrite forallb_forall in H2. specialize (H2 _ (nth_error_In _ _ E)). unfold skipval_b in H2.
  destruct (m_mode r =? 2) eqn:M2; lia.
Qed.

Theorem eos_legitimate mn mx ops s r : cfg_ok_b mn mx = true ->
  get (m_subs (final_m mn mx ops)) s = Some r -> m_eos r = true -> m_eos_ok r = true.
Proof.
  intros C G E. pose proof (final_rec_good _ _ _ _ _ C G) as H. unfold rec_good_b in H. rewrite E in H.
  apply andb_prop in H as (_ & H). exact H.
Qed.

Theorem wakes_exact mn mx ops : cfg_ok_b mn mx = true -> m_bad (final_m mn mx ops) = false.
Proof.
  intros C. destruct (final_R mn mx ops C) as (G & _). unfold good_b in G. apply andb_prop in G as (G & _).
  destruct (m_bad (final_m mn mx ops)); [discriminate|reflexivity].
Qed.

(* in every reachable state the list push_lk resumes is exactly the set of parked awaiters, each once *)
Theorem wake_list_exact e m : Inv e m -> wake_all_ok (m_subs m) (flat_map wake_of (regs (pq e))) = true.
Proof.
  intros I. pose proof (i_awt _ _ I) as (AN & AB).
  unfold wake_all_ok. apply andb_true_intro. split; [apply andb_true_intro; split|].
  - apply nodup_b_NoDup. apply (NoDup_flat_map_sub awt_of); [|exact AN].
    intros x. unfold wake_of, awt_of. destruct (r_used x); [left|right]; reflexivity.
  - apply forallb_forall. intros a Ia. apply in_flat_map_rget in Ia as (h & Lh & Ia).
    unfold wake_of in Ia. destruct (r_used (rget (regs (pq e)) h)) eqn:U; [|destruct Ia].
    destruct (slot_owner _ _ _ I U) as (s & o & L & E & SB).
    destruct (inv_rec _ _ _ _ I L) as (r & Gr & LV).
    pose proof (i_sub _ _ I s o r L Gr) as (_ & _ & _ & _ & _ & _ & _ & AW & _). rewrite E in AW.
    apply existsb_exists. exists (Some r). split; [apply get_In with (s := s); exact Gr|].
    unfold parked_on. rewrite LV. cbn [andb]. destruct (m_pc r); cbn [awt_pc] in AW; rewrite AW in Ia; cbn in Ia; try tauto.
    destruct Ia as [<-|[]]. apply Z.eqb_refl.
  - apply forallb_forall. intros [r|] Ir; [|reflexivity]. unfold parked_in.
    destruct (m_live r) eqn:LV; [|reflexivity]. destruct (m_pc r) eqn:PC; try reflexivity.
    apply In_get in Ir as (s & Gr).
    destruct (get (objs e) s) as [o|] eqn:GO; [|apply (i_none _ _ I) in GO; congruence].
    pose proof (i_live _ _ I s o r GO Gr) as SL. rewrite LV in SL.
    pose proof (live_obj_intro _ _ _ GO SL) as L.
    pose proof (i_sub _ _ I s o r L Gr) as (U & _ & _ & _ & _ & _ & _ & AW & _). rewrite PC in AW. cbn [awt_pc] in AW.
    apply memz_In. apply in_flat_map_rget. exists (s_h o). split; [apply rget_used_lt; exact U|].
    unfold wake_of. rewrite U, AW. left. reflexivity.
Qed.

(* the retained window covers everything a non-lagging all_values subscriber still has to read *)
Theorem window_sufficient mn mx ops s o r : cfg_ok_b mn mx = true -> m_viol (final_m mn mx ops) = false ->
  live_obj (final_e mn mx ops) s = Some o -> get (m_subs (final_m mn mx ops)) s = Some r ->
  m_mode r = 0 -> m_eos r = false -> m_lost r = false ->
  consumed r <= npub (final_m mn mx ops) /\
  npub (final_m mn mx ops) - consumed r <= zlen (qd (pq (final_e mn mx ops))) /\
  npub (final_m mn mx ops) - consumed r <= maxl (pq (final_e mn mx ops)).
Proof.
  intros C V L G M E LS. destruct (final_R mn mx ops C) as (_ & [X|I]); [congruence|].
  pose proof (i_sub _ _ I s o r L G) as (_ & _ & _ & _ & _ & _ & _ & _ & PO).
  destruct (PO E) as (_ & M0 & _). destruct (M0 M) as (_ & _ & _ & A4). destruct (A4 LS) as (D1 & D2 & D3 & _).
  split; [exact D1|split; assumption].
Qed.

(* a next() step of one subscriber never touches another subscriber's registration (copies included) *)
Lemma next_step_frame e x s o k : free_obj e s = Some o -> (x = OReady s \/ x = OSuspend s \/ x = OGet s) ->
  k <> s_h o -> rget (regs (pq (fst (step e x)))) k = rget (regs (pq e)) k.
Proof.
  intros F X N. unfold step, step_gen.
  destruct X as [ -> | [ -> | -> ] ]; rewrite F; cbn [fst].
  - unfold with_pq. cbn [pq]. unfold advance_lk.
    destruct (r_kicked (rget (regs (pq e)) (s_h o))); [reflexivity|].
    destruct ((wrap (r_pos (rget (regs (pq e)) (s_h o)) + 1) =? qpos (pq e)) && negb (closed (pq e))); [reflexivity|].
    cbn [fst]. unfold set_reg, with_regs. cbn [regs]. apply rget_set_other. congruence.
  - cbn [pq]. unfold advance_suspend_lk.
    destruct (r_kicked (rget (regs (pq e)) (s_h o))); [reflexivity|].
    destruct (closed (pq e)); [cbn [fst]; unfold set_reg, with_regs; cbn [regs]; apply rget_set_other; congruence|].
    destruct (r_pos (with_pos (rget (regs (pq e)) (s_h o)) (wrap (r_pos (rget (regs (pq e)) (s_h o)) + 1))) =? qpos (pq e));
      cbn [fst]; unfold set_reg, with_regs; cbn [regs]; apply rget_set_other; congruence.
  - assert (GF : rget (regs (fst (get_value_lk (pq e) (s_h o) (s_mode o)))) k = rget (regs (pq e)) k).
    { unfold get_value_lk.
      repeat match goal with
             | |- context[if ?c then _ else _] => destruct c
             | |- context[match qidx ?a ?b with _ => _ end] => destruct (qidx a b)
             end; cbn [fst]; try reflexivity;
        unfold set_reg, with_regs; cbn [regs]; apply rget_set_other; congruence. }
    destruct (snd (get_value_lk (pq e) (s_h o) (s_mode o))); cbn [fst with_pq pq]; try exact GF; reflexivity.
Qed.

Theorem copy_independent e m x s o s' o' : Inv e m -> free_obj e s = Some o -> live_obj e s' = Some o' -> s <> s' ->
  (x = OReady s \/ x = OSuspend s \/ x = OGet s) ->
  rget (regs (pq (fst (step e x)))) (s_h o') = rget (regs (pq e)) (s_h o').
Proof.
  intros I F L' N X. apply (next_step_frame e x s o); try assumption.
  intros E. apply N. apply (i_inj _ _ I s s' o o' (free_live _ _ _ F) L'). symmetry. exact E.
Qed.
