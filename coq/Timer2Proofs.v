(* Timer2Proofs.v — run-level theorems about the scheduler model of TimerDefs.v (property C12).
   Built on the heap lemmas of TimerProofs.v.  Everything is for histories of any length, any time points
   (equal / past / negative), any idents (duplicates included). *)
From Cocls Require Import Base BaseProofs TimerDefs TimerProofs.
Require Import ZifyBool ZifyNat Sorted.
Local Open Scope Z_scope.
Ltac Zify.zify_post_hook ::= Z.div_mod_to_equations.

(* ================================================================= *)
(* 1. pending / emptied entries                                      *)
(* ================================================================= *)

Definition live (e : entry) : bool := negb (isnone (e_p e)).

Lemma pending_eq l : pending l = filter live l.
Proof. reflexivity. Qed.

Lemma filter_perm {A} (f : A -> bool) a b : Permutation a b -> Permutation (filter f a) (filter f b).
Proof.
  induction 1 as [|x a b P IH|x y a|a b c P1 IH1 P2 IH2]; cbn [filter].
  - constructor.
  - destruct (f x); [apply perm_skip|]; exact IH.
  - destruct (f x), (f y); try reflexivity. apply perm_swap.
  - etransitivity; eassumption.
Qed.

Lemma pending_perm a b : Permutation a b -> Permutation (pending a) (pending b).
Proof. apply filter_perm. Qed.

Lemma pending_cons_live t l : live t = true -> pending (t :: l) = t :: pending l.
Proof. intros H. unfold pending. cbn [filter]. fold (live t). rewrite H. reflexivity. Qed.

Lemma pending_cons_dead t l : live t = false -> pending (t :: l) = pending l.
Proof. intros H. unfold pending. cbn [filter]. fold (live t). rewrite H. reflexivity. Qed.

Lemma pending_In e l : In e (pending l) <-> In e l /\ live e = true.
Proof. unfold pending. apply filter_In. Qed.

Lemma live_some e : live e = true <-> exists p, e_p e = Some p.
Proof.
  unfold live. destruct (e_p e) as [p|]; cbn [isnone negb]; split; intros H; try discriminate; eauto.
  destruct H as [p H]. discriminate.
Qed.

(* the time points found in l' are time points found in l (entries are only removed or emptied in place) *)
Definition tps_sub (l' l : list entry) : Prop :=
  forall u, In u l' -> exists u', In u' l /\ e_tp u' = e_tp u.

Lemma tps_sub_refl l : tps_sub l l.
Proof. intros u H. eauto. Qed.

Lemma tps_sub_trans a b c : tps_sub a b -> tps_sub b c -> tps_sub a c.
Proof.
  intros H1 H2 u Hu. destruct (H1 u Hu) as (v & Hv & E). destruct (H2 v Hv) as (w & Hw & E2).
  exists w. split; [exact Hw|congruence].
Qed.

Lemma tps_sub_incl a b : (forall u, In u a -> In u b) -> tps_sub a b.
Proof. intros H u Hu. exists u. auto. Qed.

(* pop_item on a heap t :: rest, packaged *)
Lemma pop_item_spec t rest : heap_ok (t :: rest) ->
  exists l', pop_item (t :: rest) = Ok l' /\ heap_ok l' /\ Permutation l' rest /\ length l' = length rest.
Proof.
  intros H. destruct (pop_item_ok t rest H) as (l' & E & H' & P & L).
  exists l'. repeat split; auto. apply Permutation_cons_inv in P. exact P.
Qed.

(* ================================================================= *)
(* 2. get_expired_lk                                                 *)
(* ================================================================= *)

Definition expired_spec (l : list entry) (now : Z) (l' : list entry) (r : expired) : Prop :=
  match r with
  | ExpP t =>
      live t = true /\ e_tp t <= now /\
      Permutation (pending l) (t :: pending l') /\
      (forall u, In u (pending l) -> e_tp t <= e_tp u)
  | ExpT tp =>
      now < tp /\ Permutation (pending l) (pending l') /\
      (exists t rest, l' = t :: rest /\ live t = true /\ e_tp t = tp) /\
      (forall u, In u l' -> tp <= e_tp u)
  | ExpMax => l' = [] /\ pending l = []
  end.

Lemma get_expired_lk_ok fuel : forall l now, (length l < fuel)%nat -> heap_ok l ->
  exists l' r, get_expired_lk fuel l now = Ok (l', r) /\ heap_ok l' /\
               (forall u, In u l' -> In u l) /\ expired_spec l now l' r.
Proof.
  induction fuel as [|f IH]; intros l now F H; [lia|].
  cbn [get_expired_lk].
  destruct l as [|t rest].
  - cbn [is_empty]. exists [], ExpMax. repeat split; auto.
  - cbn [is_empty top rbind].
    destruct ((e_tp t <=? now) || isnone (e_p t))%bool eqn:C.
    + destruct (pop_item_spec t rest H) as (l1 & E1 & H1 & P1 & L1).
      rewrite E1. cbn [rbind].
      destruct (e_p t) as [p|] eqn:EP.
      * (* a due live entry: returned *)
        assert (live t = true) as LT by (unfold live; rewrite EP; reflexivity).
        exists l1, (ExpP t). split; [reflexivity|]. split; [exact H1|]. split.
        { intros u Hu. right. eapply Permutation_in; eassumption. }
        cbn [expired_spec]. split; [exact LT|]. split.
        { cbn [isnone] in C. lia. }
        split.
        { rewrite pending_cons_live by exact LT. apply perm_skip. apply pending_perm. symmetry. exact P1. }
        { intros u Hu. apply pending_In in Hu. destruct Hu as [Hu _].
          apply (heap_top_min_in t rest u H Hu). }
      * (* an emptied entry: dropped, look again *)
        assert (live t = false) as LT by (unfold live; rewrite EP; reflexivity).
        assert (length l1 < f)%nat as F1 by (cbn [length] in F; lia).
        destruct (IH l1 now F1 H1) as (l' & r & E & H' & S & SP).
        exists l', r. split; [exact E|]. split; [exact H'|]. split.
        { intros u Hu. right. eapply Permutation_in; [exact P1|]. apply S. exact Hu. }
        assert (Permutation (pending (t :: rest)) (pending l1)) as PP.
        { rewrite pending_cons_dead by exact LT. apply pending_perm. symmetry. exact P1. }
        destruct r as [t'|tp|]; cbn [expired_spec] in *.
        -- destruct SP as (A & B & C' & D). repeat split; auto.
           ++ rewrite PP. exact C'.
           ++ intros u Hu. apply D. eapply Permutation_in; eassumption.
        -- destruct SP as (A & B & C' & D). repeat split; auto. rewrite PP. exact B.
        -- destruct SP as (A & B). split; [exact A|].
           apply Permutation_nil. rewrite <- B. symmetry. exact PP.
    + (* top is live and not due *)
      apply orb_false_iff in C. destruct C as [C1 C2].
      assert (live t = true) as LT by (unfold live; rewrite C2; reflexivity).
      exists (t :: rest), (ExpT (e_tp t)). split; [reflexivity|]. split; [exact H|]. split; [auto|].
      cbn [expired_spec]. split; [lia|]. split; [reflexivity|]. split.
      * exists t, rest. auto.
      * intros u Hu. apply (heap_top_min_in t rest u H Hu).
Qed.

Lemma get_expired_ok l now : heap_ok l ->
  exists l' r, get_expired l now = Ok (l', r) /\ heap_ok l' /\
               (forall u, In u l' -> In u l) /\ expired_spec l now l' r.
Proof. intros H. unfold get_expired. apply get_expired_lk_ok; [lia|exact H]. Qed.

(* ================================================================= *)
(* 3. remove                                                         *)
(* ================================================================= *)

Lemma remove_loop_ok fuel : forall l id, (length l < fuel)%nat -> heap_ok l ->
  exists l' r, remove_loop fuel l id = Ok (l', r) /\ heap_ok l' /\ (forall u, In u l' -> In u l) /\
    match r with
    | Some t => live t = true /\ e_id t = id /\ Permutation (pending l) (t :: pending l')
    | None => Permutation (pending l) (pending l')
    end.
Proof.
  induction fuel as [|f IH]; intros l id F H; [lia|].
  cbn [remove_loop].
  destruct l as [|t rest].
  - cbn [is_empty]. exists [], None. repeat split; auto.
  - cbn [is_empty top rbind].
    destruct (e_id t =? id) eqn:C.
    + destruct (pop_item_spec t rest H) as (l1 & E1 & H1 & P1 & L1).
      rewrite E1. cbn [rbind].
      destruct (e_p t) as [p|] eqn:EP.
      * assert (live t = true) as LT by (unfold live; rewrite EP; reflexivity).
        exists l1, (Some t). split; [reflexivity|]. split; [exact H1|]. split.
        { intros u Hu. right. eapply Permutation_in; eassumption. }
        split; [exact LT|]. split; [lia|].
        rewrite pending_cons_live by exact LT. apply perm_skip. apply pending_perm. symmetry. exact P1.
      * assert (live t = false) as LT by (unfold live; rewrite EP; reflexivity).
        assert (length l1 < f)%nat as F1 by (cbn [length] in F; lia).
        destruct (IH l1 id F1 H1) as (l' & r & E & H' & S & SP).
        exists l', r. split; [exact E|]. split; [exact H'|]. split.
        { intros u Hu. right. eapply Permutation_in; [exact P1|]. apply S. exact Hu. }
        assert (Permutation (pending (t :: rest)) (pending l1)) as PP.
        { rewrite pending_cons_dead by exact LT. apply pending_perm. symmetry. exact P1. }
        destruct r as [t'|].
        -- destruct SP as (A & B & C'). repeat split; auto. rewrite PP. exact C'.
        -- rewrite PP. exact SP.
    + exists (t :: rest), None. split; [reflexivity|]. split; [exact H|]. split; [auto|]. reflexivity.
Qed.

Lemma find_take_ok l id : forall l' r, find_take l id = (l', r) ->
  map e_tp l' = map e_tp l /\
  match r with
  | Some t => live t = true /\ e_id t = id /\ Permutation (pending l) (t :: pending l')
  | None => l' = l /\ forall u, In u (pending l) -> e_id u <> id
  end.
Proof.
  induction l as [|e t IH]; intros l' r E; cbn [find_take] in E.
  - inversion E; subst. split; [reflexivity|]. split; [reflexivity|]. intros u [].
  - destruct ((e_id e =? id) && negb (isnone (e_p e)))%bool eqn:C.
    + inversion E; subst. clear E. apply andb_true_iff in C. destruct C as [C1 C2].
      split; [reflexivity|]. split; [exact C2|]. split; [lia|].
      rewrite pending_cons_live by exact C2.
      rewrite pending_cons_dead by reflexivity. reflexivity.
    + destruct (find_take t id) as [t' r'] eqn:E'. inversion E; subst. clear E.
      destruct (IH t' r eq_refl) as (M & SP).
      split; [cbn [map]; rewrite M; reflexivity|].
      destruct r as [x|].
      * destruct SP as (A & B & P). split; [exact A|]. split; [exact B|].
        destruct (live e) eqn:LE.
        -- rewrite !pending_cons_live by exact LE. rewrite P. apply perm_swap.
        -- rewrite !pending_cons_dead by exact LE. exact P.
      * destruct SP as (A & B). subst t'. split; [reflexivity|].
        intros u Hu. apply pending_In in Hu. destruct Hu as [[Hu|Hu] LU].
        -- subst u. fold (live e) in C. rewrite LU in C. rewrite andb_true_r in C. lia.
        -- apply B. apply pending_In. auto.
Qed.

Lemma tps_sub_map l' l : map e_tp l' = map e_tp l -> tps_sub l' l.
Proof.
  intros M u Hu.
  assert (In (e_tp u) (map e_tp l)) as I by (rewrite <- M; apply in_map; exact Hu).
  apply in_map_iff in I. destruct I as (u' & E & I). exists u'. auto.
Qed.

Definition remove_spec (l : list entry) (id : Z) (l' : list entry) (r : option entry) : Prop :=
  match r with
  | Some t => live t = true /\ e_id t = id /\ Permutation (pending l) (t :: pending l')
  | None => Permutation (pending l) (pending l') /\ forall u, In u (pending l) -> e_id u <> id
  end.

Theorem remove_ok l id : heap_ok l ->
  exists l' r, remove l id = Ok (l', r) /\ heap_ok l' /\ tps_sub l' l /\ (l = [] -> l' = []) /\ remove_spec l id l' r.
Proof.
  intros H. unfold remove.
  destruct l as [|t0 rest0] eqn:EL.
  - cbn [is_empty]. exists [], None. repeat split; auto using tps_sub_refl.
  - rewrite <- EL in *. assert (is_empty l = false) as NE by (rewrite EL; reflexivity). rewrite NE.
    destruct (remove_loop_ok (S (length l)) l id (Nat.lt_succ_diag_r _) H) as (l1 & r1 & E1 & H1 & S1 & SP1).
    rewrite E1. cbn [rbind fst snd].
    destruct r1 as [t|].
    + exists l1, (Some t). split; [reflexivity|]. split; [exact H1|]. split; [apply tps_sub_incl; exact S1|].
      split; [intros Q; rewrite EL in Q; discriminate|]. exact SP1.
    + destruct (find_take l1 id) as [l2 r2] eqn:E2.
      destruct (find_take_ok l1 id l2 r2 E2) as (M & SP2).
      exists l2, r2. split; [reflexivity|]. split; [apply (heap_ok_ext l1 l2); [symmetry; exact M|exact H1]|].
      split.
      { eapply tps_sub_trans; [apply tps_sub_map; exact M|apply tps_sub_incl; exact S1]. }
      split; [intros Q; rewrite EL in Q; discriminate|].
      destruct r2 as [t|]; cbn [remove_spec].
      * destruct SP2 as (A & B & P). repeat split; auto. rewrite SP1. exact P.
      * destruct SP2 as (A & B). subst l2. split; [exact SP1|].
        intros u Hu. apply B. eapply Permutation_in; eassumption.
Qed.

(* ================================================================= *)
(* 4. the state invariant and the refinement of every operation      *)
(* ================================================================= *)

Definition pid_of (e : entry) : list nat := match e_p e with Some p => [p] | None => [] end.
(* promise ids held by the array *)
Definition ppids (l : list entry) : list nat := flat_map pid_of l.

Lemma ppids_cons e l : ppids (e :: l) = pid_of e ++ ppids l.
Proof. reflexivity. Qed.

Lemma ppids_pending l : ppids (pending l) = ppids l.
Proof.
  induction l as [|e l IH]; [reflexivity|].
  destruct (live e) eqn:L.
  - rewrite pending_cons_live by exact L. rewrite !ppids_cons, IH. reflexivity.
  - rewrite pending_cons_dead by exact L. rewrite ppids_cons, IH.
    unfold live in L. unfold pid_of. destruct (e_p e); [discriminate|reflexivity].
Qed.

Lemma ppids_perm a b : Permutation a b -> Permutation (ppids a) (ppids b).
Proof. apply Permutation_flat_map. Qed.

Lemma In_ppids p l : In p (ppids l) <-> exists e, In e l /\ e_p e = Some p.
Proof.
  unfold ppids. rewrite in_flat_map. split; intros (e & I & H); exists e; split; auto.
  - unfold pid_of in H. destruct (e_p e) as [q|]; [destruct H as [H|[]]; congruence|destruct H].
  - unfold pid_of. rewrite H. left. reflexivity.
Qed.

Lemma ppids_take l t l' p : e_p t = Some p -> Permutation (pending l) (t :: pending l') ->
  Permutation (ppids l) (p :: ppids l').
Proof.
  intros E P. apply ppids_perm in P. rewrite ppids_pending, ppids_cons, ppids_pending in P.
  unfold pid_of in P. rewrite E in P. exact P.
Qed.

Lemma ppids_same l l' : Permutation (pending l) (pending l') -> Permutation (ppids l) (ppids l').
Proof. intros P. apply ppids_perm in P. rewrite !ppids_pending in P. exact P. Qed.

Record inv (s : st) : Prop := mkInv {
  inv_heap : heap_ok (sched s);                         (* _scheduled[0] is a minimum *)
  inv_dead : alive s = false -> sched s = [];
  inv_nodup : NoDup (ppids (sched s));                  (* a promise sits in at most one slot *)
  inv_pend : forall p, get (futs s) p = Some FPending <-> In p (ppids (sched s)) }.

Lemma inv_st0 : inv st0.
Proof.
  split; cbn [sched futs alive st0 ppids flat_map].
  - apply heap_ok_nil.
  - reflexivity.
  - constructor.
  - intros p. unfold get. destruct p; cbn; split; intros H; try discriminate; destruct H.
Qed.

Lemma stat_of_not_pending h : stat_of h <> FPending.
Proof. destruct h; discriminate. Qed.

Lemma complete_live f t h p : e_p t = Some p -> complete f (t, h) = put f p (Some (stat_of h)).
Proof. intros E. unfold complete. cbn [fst snd]. rewrite E. reflexivity. Qed.

Lemma complete_keeps f l l' t h p : e_p t = Some p -> NoDup (ppids l) ->
  (forall q, get f q = Some FPending <-> In q (ppids l)) -> Permutation (ppids l) (p :: ppids l') ->
  NoDup (ppids l') /\ (forall q, get (complete f (t, h)) q = Some FPending <-> In q (ppids l')).
Proof.
  intros E ND PE P.
  assert (NoDup (p :: ppids l')) as ND' by (eapply Permutation_NoDup; eassumption).
  inversion ND' as [|? ? NI ND'']; subst.
  split; [exact ND''|]. intros q. rewrite (complete_live f t h p E).
  destruct (Nat.eq_dec q p) as [Q|Q].
  - subst q. rewrite get_put_same. split; intros H.
    + exfalso. apply (stat_of_not_pending h). congruence.
    + contradiction.
  - rewrite get_put_other by congruence. rewrite PE. split; intros H.
    + apply (Permutation_in _ P) in H. destruct H as [H|H]; [congruence|exact H].
    + apply (Permutation_in _ (Permutation_sym P)). right. exact H.
Qed.

(* --- the multiset specification of one call (P = pending multiset before, P' = after) --- *)
Definition rm_spec (P : list entry) (id : Z) (h : how) (o : out) (P' : list entry) : Prop :=
  (exists t, o = mkOut 0 1 0 [(t, h)] /\ In t P /\ e_id t = id /\ Permutation P (t :: P'))
  \/ (o = mkOut 0 0 0 [] /\ (forall u, In u P -> e_id u <> id) /\ Permutation P P').

Definition sched_spec (P : list entry) (pid : nat) (id tp : Z) (o : out) (P' : list entry) : Prop :=
  (o = rejected /\ P' = P) \/ (o = mkOut 0 0 0 [] /\ Permutation P' (mkE tp (Some pid) id :: P)).

Definition spec_step (P : list entry) (x : op) (o : out) (P' : list entry) : Prop :=
  match x with
  | OSchedule pid id tp => sched_spec P pid id tp o P'
  | OSleep pid id tp => sched_spec P pid id tp o P'
  | OExpired now =>
      (exists t, o = mkOut 0 1 0 [(t, ByExpiry now)] /\ In t P /\ e_tp t <= now /\
                 (forall u, In u P -> e_tp t <= e_tp u) /\ Permutation P (t :: P'))
      \/ (exists tp, o = mkOut 0 0 tp [] /\ now < tp /\ (exists t, In t P /\ e_tp t = tp) /\
                     (forall u, In u P -> tp <= e_tp u) /\ Permutation P P')
      \/ (o = mkOut 0 2 0 [] /\ P = [] /\ P' = [])
  | ORemove id => rm_spec P id ByRemove o P'
  | OCancel id => rm_spec P id (ByCancel 0) o P'
  | OCancelE id c => rm_spec P id (ByCancel c) o P'
  | ODestroy => o = mkOut 0 0 0 (map (fun e => (e, ByDestroy)) P) /\ P' = []
  | OBad => o = rejected /\ P' = P
  end.

(* what a call does to the futures: only the futures named by its completion events change *)
Definition futs_effect (s : st) (x : op) (o : out) (s' : st) : Prop :=
  match x with
  | OSchedule pid _ _ | OSleep pid _ _ =>
      if o_st o =? 0 then futs s' = put (futs s) pid (Some FPending) else futs s' = futs s
  | _ => futs s' = fold_left complete (o_evs o) (futs s)
  end.

Lemma do_remove_ok s id h : inv s -> alive s = true ->
  exists s' o, do_remove s id h = Ok (s', o) /\ inv s' /\ alive s' = true /\
               rm_spec (pending (sched s)) id h o (pending (sched s')) /\
               futs s' = fold_left complete (o_evs o) (futs s).
Proof.
  intros [IH ID IN IP] A. unfold do_remove.
  destruct (remove_ok (sched s) id IH) as (l' & r & E & H' & TS & EM & SP).
  rewrite E. cbn [rbind fst snd].
  destruct r as [t|]; cbn [remove_spec] in SP.
  - destruct SP as (LT & EI & P).
    destruct (proj1 (live_some t) LT) as [p EP].
    destruct (complete_keeps (futs s) (sched s) l' t h p EP IN IP (ppids_take _ _ _ _ EP P)) as (ND & PE).
    eexists _, _. split; [reflexivity|]. split; [|split; [reflexivity|split]].
    + split; cbn [sched futs alive]; auto. discriminate.
    + left. exists t. cbn [sched]. repeat split; auto.
      apply (Permutation_in _ (Permutation_sym P)). left. reflexivity.
    + reflexivity.
  - destruct SP as (P & NO).
    eexists _, _. split; [reflexivity|]. split; [|split; [reflexivity|split]].
    + split; cbn [sched futs alive]; auto; try discriminate.
      * eapply Permutation_NoDup; [apply ppids_same; exact P|exact IN].
      * intros q. rewrite IP. split; apply Permutation_in; [|symmetry]; apply ppids_same; exact P.
    + right. cbn [sched]. auto.
    + reflexivity.
Qed.

Lemma fold_complete_destroy es : forall f q,
  get (fold_left complete (map (fun e => (e, ByDestroy)) es) f) q =
  if in_dec Nat.eq_dec q (ppids es) then Some FDropped else get f q.
Proof.
  induction es as [|e es IH]; intros f q; cbn [map fold_left].
  - cbn [ppids flat_map]. destruct (in_dec Nat.eq_dec q []) as [[]|]; reflexivity.
  - rewrite IH. rewrite ppids_cons.
    destruct (in_dec Nat.eq_dec q (ppids es)) as [I|I];
    destruct (in_dec Nat.eq_dec q (pid_of e ++ ppids es)) as [J|J]; try reflexivity.
    + exfalso. apply J. apply in_or_app. right. exact I.
    + apply in_app_or in J. destruct J as [J|J]; [|contradiction].
      unfold pid_of in J. destruct (e_p e) as [p|] eqn:EP; [|destruct J]. destruct J as [J|[]]. subst q.
      rewrite (complete_live f e ByDestroy p EP). apply get_put_same.
    + unfold complete. cbn [fst snd]. destruct (e_p e) as [p|] eqn:EP; [|reflexivity].
      rewrite get_put_other; [reflexivity|]. intros Q. subst q. apply J. apply in_or_app. left.
      unfold pid_of. rewrite EP. left. reflexivity.
Qed.

(* every call returns (no out-of-bounds access, no fuel artefact), keeps the invariant, and refines the
   multiset specification *)
Theorem step_ok s x : inv s ->
  exists s' o, step s x = Ok (s', o) /\ inv s' /\ futs_effect s x o s' /\
               (alive s = true -> spec_step (pending (sched s)) x o (pending (sched s'))) /\
               (alive s = false -> s' = s /\ o = rejected).
Proof.
  intros I. unfold step.
  destruct (alive s) eqn:A; cbn [negb].
  2:{ exists s, rejected. split; [reflexivity|]. split; [exact I|]. split.
      - destruct x; cbn [futs_effect rejected o_st o_evs fold_left]; reflexivity.
      - split; [discriminate|auto]. }
  assert (forall pid id tp,
    exists s' o,
      match get (futs s) pid with
      | Some _ => Ok (s, rejected)
      | None => Ok (mkSt (fst (schedule (sched s) (mkE tp (Some pid) id))) (put (futs s) pid (Some FPending)) true,
                    mkOut 0 0 0 [])
      end = Ok (s', o) /\ inv s' /\
      (if o_st o =? 0 then futs s' = put (futs s) pid (Some FPending) else futs s' = futs s) /\
      (true = true -> sched_spec (pending (sched s)) pid id tp o (pending (sched s'))) /\
      (true = false -> s' = s /\ o = rejected)) as SCH.
  { intros pid id tp. destruct I as [IH ID IN IP].
    destruct (get (futs s) pid) as [v|] eqn:G.
    - exists s, rejected. split; [reflexivity|]. split; [split; assumption|]. split; [reflexivity|].
      split; [|discriminate]. intros _. left. auto.
    - set (e := mkE tp (Some pid) id).
      destruct (heap_push_ok (sched s) e IH) as (H1 & P1 & L1).
      assert (live e = true) as LE by reflexivity.
      assert (Permutation (ppids (heap_push (sched s) e)) (pid :: ppids (sched s))) as PP.
      { apply ppids_perm in P1. exact P1. }
      assert (~ In pid (ppids (sched s))) as NI.
      { intros Q. apply IP in Q. congruence. }
      eexists _, _. split; [reflexivity|]. split; [|split; [reflexivity|split; [|discriminate]]].
      + split; cbn [sched futs alive schedule fst]; auto; try discriminate.
        * eapply Permutation_NoDup; [symmetry; exact PP|]. constructor; assumption.
        * intros q. destruct (Nat.eq_dec q pid) as [Q|Q].
          -- subst q. rewrite get_put_same. split; intros _; [|reflexivity].
             apply (Permutation_in _ (Permutation_sym PP)). left. reflexivity.
          -- rewrite get_put_other by congruence. rewrite IP. split; intros H.
             ++ apply (Permutation_in _ (Permutation_sym PP)). right. exact H.
             ++ apply (Permutation_in _ PP) in H. destruct H as [H|H]; [congruence|exact H].
      + intros _. right. split; [reflexivity|]. cbn [sched schedule fst].
        fold e. rewrite <- (pending_cons_live e (sched s) LE). apply pending_perm. exact P1. }
  destruct x as [pid id tp|pid id tp|now|id|id|id c| |]; cbn [futs_effect spec_step].
  - apply SCH.
  - apply SCH.
  - (* get_expired *)
    destruct I as [IH ID IN IP].
    destruct (get_expired_ok (sched s) now IH) as (l' & r & E & H' & SUB & SP).
    rewrite E. cbn [rbind fst snd].
    destruct r as [t|tp|]; cbn [expired_spec] in SP.
    + destruct SP as (LT & DUE & P & MIN).
      destruct (proj1 (live_some t) LT) as [p EP].
      destruct (complete_keeps (futs s) (sched s) l' t (ByExpiry now) p EP IN IP (ppids_take _ _ _ _ EP P)) as (ND & PE).
      eexists _, _. split; [reflexivity|]. split; [|split; [reflexivity|split; [|discriminate]]].
      * split; cbn [sched futs alive]; auto. discriminate.
      * intros _. left. exists t. cbn [sched]. repeat split; auto.
        apply (Permutation_in _ (Permutation_sym P)). left. reflexivity.
    + destruct SP as (FUT & P & (t & rest & EL & LT & ET) & MIN).
      eexists _, _. split; [reflexivity|]. split; [|split; [reflexivity|split; [|discriminate]]].
      * split; cbn [sched futs alive]; auto; try discriminate.
        -- eapply Permutation_NoDup; [apply ppids_same; exact P|exact IN].
        -- intros q. rewrite IP. split; apply Permutation_in; [|symmetry]; apply ppids_same; exact P.
      * intros _. right. left. exists tp. cbn [sched]. split; [reflexivity|]. split; [exact FUT|].
        assert (In t (pending l')) as IT by (apply pending_In; rewrite EL; split; [left; reflexivity|exact LT]).
        split; [|split; [|exact P]].
        -- exists t. split; [|exact ET]. apply (Permutation_in _ (Permutation_sym P)). exact IT.
        -- intros u Hu. apply MIN. apply (Permutation_in _ P) in Hu. apply pending_In in Hu. apply Hu.
    + destruct SP as (EL & EP). subst l'.
      eexists _, _. split; [reflexivity|]. split; [|split; [reflexivity|split; [|discriminate]]].
      * split; cbn [sched futs alive]; auto using heap_ok_nil; try discriminate.
        -- constructor.
        -- intros q. rewrite IP. rewrite <- ppids_pending, EP. reflexivity.
      * intros _. right. right. cbn [sched]. auto.
  - destruct (do_remove_ok s id ByRemove I A) as (s' & o & E & I' & A' & SP & FE).
    exists s', o. split; [exact E|]. split; [exact I'|]. split; [exact FE|]. split; [intros _; exact SP|discriminate].
  - destruct (do_remove_ok s id (ByCancel 0) I A) as (s' & o & E & I' & A' & SP & FE).
    exists s', o. split; [exact E|]. split; [exact I'|]. split; [exact FE|]. split; [intros _; exact SP|discriminate].
  - destruct (do_remove_ok s id (ByCancel c) I A) as (s' & o & E & I' & A' & SP & FE).
    exists s', o. split; [exact E|]. split; [exact I'|]. split; [exact FE|]. split; [intros _; exact SP|discriminate].
  - (* ~scheduler *)
    destruct I as [IH ID IN IP].
    eexists _, _. split; [reflexivity|]. split; [|split; [reflexivity|split; [|discriminate]]].
    + split; cbn [sched futs alive]; auto using heap_ok_nil.
      * constructor.
      * intros q. rewrite fold_complete_destroy. rewrite ppids_pending.
        destruct (in_dec Nat.eq_dec q (ppids (sched s))) as [J|J].
        -- split; [discriminate|intros []].
        -- rewrite IP. split; [contradiction|intros []].
    + intros _. cbn [sched]. auto.
  - exists s, rejected. split; [reflexivity|]. split; [exact I|]. split; [reflexivity|]. split; [auto|discriminate].
Qed.
