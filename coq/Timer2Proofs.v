(* Timer2Proofs.v — run-level theorems about the scheduler model of TimerDefs.v (property C12).
   Built on the heap lemmas of TimerProofs.v.  Everything is for histories of any length, any time points
   (equal / past / negative), any idents (duplicates included). *)
From Cocls Require Import Base BaseProofs TimerDefs TimerProofs.
Require Import ZifyBool ZifyNat Sorted.
Local Open Scope Z_scope.
Ltac Zify.zify_post_hook ::= Z.div_mod_to_equations.

(* ================================================================= *)
(* 1. pending / emptied entries                                      *)
(* ================================================================= *)

Definition live (e : entry) : bool := negb (isnone (e_p e)).

Lemma pending_eq l : pending l = filter live l.
Proof. reflexivity. Qed.

Lemma filter_perm {A} (f : A -> bool) a b : Permutation a b -> Permutation (filter f a) (filter f b).
Proof.
  induction 1 as [|x a b P IH|x y a|a b c P1 IH1 P2 IH2]; cbn [filter].
  - constructor.
  - destruct (f x); [apply perm_skip|]; exact IH.
  - destruct (f x), (f y); try reflexivity. apply perm_swap.
  - etransitivity; eassumption.
Qed.

Lemma pending_perm a b : Permutation a b -> Permutation (pending a) (pending b).
Proof. apply filter_perm. Qed.

Lemma pending_cons_live t l : live t = true -> pending (t :: l) = t :: pending l.
Proof. intros H. unfold pending. cbn [filter]. fold (live t). rewrite H. reflexivity. Qed.

Lemma pending_cons_dead t l : live t = false -> pending (t :: l) = pending l.
Proof. intros H. unfold pending. cbn [filter]. fold (live t). rewrite H. reflexivity. Qed.

Lemma pending_In e l : In e (pending l) <-> In e l /\ live e = true.
Proof. unfold pending. apply filter_In. Qed.

Lemma live_some e : live e = true <-> exists p, e_p e = Some p.
Proof.
  unfold live. destruct (e_p e) as [p|]; cbn [isnone negb]; split; intros H; try discriminate; eauto.
  destruct H as [p H]. discriminate.
Qed.

(* the time points found in l' are time points found in l (entries are only removed or emptied in place) *)
Definition tps_sub (l' l : list entry) : Prop :=
  forall u, In u l' -> exists u', In u' l /\ e_tp u' = e_tp u.

Lemma tps_sub_refl l : tps_sub l l.
Proof. intros u H. eauto. Qed.

Lemma tps_sub_trans a b c : tps_sub a b -> tps_sub b c -> tps_sub a c.
Proof.
  intros H1 H2 u Hu. destruct (H1 u Hu) as (v & Hv & E). destruct (H2 v Hv) as (w & Hw & E2).
  exists w. split; [exact Hw|congruence].
Qed.

Lemma tps_sub_incl a b : (forall u, In u a -> In u b) -> tps_sub a b.
Proof. intros H u Hu. exists u. auto. Qed.

(* pop_item on a heap t :: rest, packaged *)
Lemma pop_item_spec t rest : heap_ok (t :: rest) ->
  exists l', pop_item (t :: rest) = Ok l' /\ heap_ok l' /\ Permutation l' rest /\ length l' = length rest.
Proof.
  intros H. destruct (pop_item_ok t rest H) as (l' & E & H' & P & L).
  exists l'. repeat split; auto. apply Permutation_cons_inv in P. exact P.
Qed.

(* ================================================================= *)
(* 2. get_expired_lk                                                 *)
(* ================================================================= *)

Definition expired_spec (l : list entry) (now : Z) (l' : list entry) (r : expired) : Prop :=
  match r with
  | ExpP t =>
      live t = true /\ e_tp t <= now /\
      Permutation (pending l) (t :: pending l') /\
      (forall u, In u (pending l) -> e_tp t <= e_tp u)
  | ExpT tp =>
      now < tp /\ Permutation (pending l) (pending l') /\
      (exists t rest, l' = t :: rest /\ live t = true /\ e_tp t = tp) /\
      (forall u, In u l' -> tp <= e_tp u)
  | ExpMax => l' = [] /\ pending l = []
  end.

Lemma get_expired_lk_ok fuel : forall l now, (length l < fuel)%nat -> heap_ok l ->
  exists l' r, get_expired_lk fuel l now = Ok (l', r) /\ heap_ok l' /\
               (forall u, In u l' -> In u l) /\ expired_spec l now l' r.
Proof.
  induction fuel as [|f IH]; intros l now F H; [lia|].
  cbn [get_expired_lk].
  destruct l as [|t rest].
  - cbn [is_empty]. exists [], ExpMax. repeat split; auto.
  - cbn [is_empty top rbind].
    destruct ((e_tp t <=? now) || isnone (e_p t))%bool eqn:C.
    + destruct (pop_item_spec t rest H) as (l1 & E1 & H1 & P1 & L1).
      rewrite E1. cbn [rbind].
      destruct (e_p t) as [p|] eqn:EP.
      * (* a due live entry: returned *)
        assert (live t = true) as LT by (unfold live; rewrite EP; reflexivity).
        exists l1, (ExpP t). split; [reflexivity|]. split; [exact H1|]. split.
        { intros u Hu. right. eapply Permutation_in; eassumption. }
        cbn [expired_spec]. split; [exact LT|]. split.
        { cbn [isnone] in C. lia. }
        split.
        { rewrite pending_cons_live by exact LT. apply perm_skip. apply pending_perm. symmetry. exact P1. }
        { intros u Hu. apply pending_In in Hu. destruct Hu as [Hu _].
          apply (heap_top_min_in t rest u H Hu). }
      * (* an emptied entry: dropped, look again *)
        assert (live t = false) as LT by (unfold live; rewrite EP; reflexivity).
        assert (length l1 < f)%nat as F1 by (cbn [length] in F; lia).
        destruct (IH l1 now F1 H1) as (l' & r & E & H' & S & SP).
        exists l', r. split; [exact E|]. split; [exact H'|]. split.
        { intros u Hu. right. eapply Permutation_in; [exact P1|]. apply S. exact Hu. }
        assert (Permutation (pending (t :: rest)) (pending l1)) as PP.
        { rewrite pending_cons_dead by exact LT. apply pending_perm. symmetry. exact P1. }
        destruct r as [t'|tp|]; cbn [expired_spec] in *.
        -- destruct SP as (A & B & C' & D). repeat split; auto.
           ++ rewrite PP. exact C'.
           ++ intros u Hu. apply D. eapply Permutation_in; eassumption.
        -- destruct SP as (A & B & C' & D). repeat split; auto. rewrite PP. exact B.
        -- destruct SP as (A & B). split; [exact A|].
           apply Permutation_nil. rewrite <- B. symmetry. exact PP.
    + (* top is live and not due *)
      apply orb_false_iff in C. destruct C as [C1 C2].
      assert (live t = true) as LT by (unfold live; rewrite C2; reflexivity).
      exists (t :: rest), (ExpT (e_tp t)). split; [reflexivity|]. split; [exact H|]. split; [auto|].
      cbn [expired_spec]. split; [lia|]. split; [reflexivity|]. split.
      * exists t, rest. auto.
      * intros u Hu. apply (heap_top_min_in t rest u H Hu).
Qed.

Lemma get_expired_ok l now : heap_ok l ->
  exists l' r, get_expired l now = Ok (l', r) /\ heap_ok l' /\
               (forall u, In u l' -> In u l) /\ expired_spec l now l' r.
Proof. intros H. unfold get_expired. apply get_expired_lk_ok; [lia|exact H]. Qed.

(* ================================================================= *)
(* 3. remove                                                         *)
(* ================================================================= *)

Lemma remove_loop_ok fuel : forall l id, (length l < fuel)%nat -> heap_ok l ->
  exists l' r, remove_loop fuel l id = Ok (l', r) /\ heap_ok l' /\ (forall u, In u l' -> In u l) /\
    match r with
    | Some t => live t = true /\ e_id t = id /\ Permutation (pending l) (t :: pending l')
    | None => Permutation (pending l) (pending l')
    end.
Proof.
  induction fuel as [|f IH]; intros l id F H; [lia|].
  cbn [remove_loop].
  destruct l as [|t rest].
  - cbn [is_empty]. exists [], None. repeat split; auto.
  - cbn [is_empty top rbind].
    destruct (e_id t =? id) eqn:C.
    + destruct (pop_item_spec t rest H) as (l1 & E1 & H1 & P1 & L1).
      rewrite E1. cbn [rbind].
      destruct (e_p t) as [p|] eqn:EP.
      * assert (live t = true) as LT by (unfold live; rewrite EP; reflexivity).
        exists l1, (Some t). split; [reflexivity|]. split; [exact H1|]. split.
        { intros u Hu. right. eapply Permutation_in; eassumption. }
        split; [exact LT|]. split; [lia|].
        rewrite pending_cons_live by exact LT. apply perm_skip. apply pending_perm. symmetry. exact P1.
      * assert (live t = false) as LT by (unfold live; rewrite EP; reflexivity).
        assert (length l1 < f)%nat as F1 by (cbn [length] in F; lia).
        destruct (IH l1 id F1 H1) as (l' & r & E & H' & S & SP).
        exists l', r. split; [exact E|]. split; [exact H'|]. split.
        { intros u Hu. right. eapply Permutation_in; [exact P1|]. apply S. exact Hu. }
        assert (Permutation (pending (t :: rest)) (pending l1)) as PP.
        { rewrite pending_cons_dead by exact LT. apply pending_perm. symmetry. exact P1. }
        destruct r as [t'|].
        -- destruct SP as (A & B & C'). repeat split; auto. rewrite PP. exact C'.
        -- rewrite PP. exact SP.
    + exists (t :: rest), None. split; [reflexivity|]. split; [exact H|]. split; [auto|]. reflexivity.
Qed.

Lemma find_take_ok l id : forall l' r, find_take l id = (l', r) ->
  map e_tp l' = map e_tp l /\
  match r with
  | Some t => live t = true /\ e_id t = id /\ Permutation (pending l) (t :: pending l')
  | None => l' = l /\ forall u, In u (pending l) -> e_id u <> id
  end.
Proof.
  induction l as [|e t IH]; intros l' r E; cbn [find_take] in E.
  - inversion E; subst. split; [reflexivity|]. split; [reflexivity|]. intros u [].
  - destruct ((e_id e =? id) && negb (isnone (e_p e)))%bool eqn:C.
    + inversion E; subst. clear E. apply andb_true_iff in C. destruct C as [C1 C2].
      split; [reflexivity|]. split; [exact C2|]. split; [lia|].
      rewrite pending_cons_live by exact C2.
      rewrite pending_cons_dead by reflexivity. reflexivity.
    + destruct (find_take t id) as [t' r'] eqn:E'. inversion E; subst. clear E.
      destruct (IH t' r eq_refl) as (M & SP).
      split; [cbn [map]; rewrite M; reflexivity|].
      destruct r as [x|].
      * destruct SP as (A & B & P). split; [exact A|]. split; [exact B|].
        destruct (live e) eqn:LE.
        -- rewrite !pending_cons_live by exact LE. rewrite P. apply perm_swap.
        -- rewrite !pending_cons_dead by exact LE. exact P.
      * destruct SP as (A & B). subst t'. split; [reflexivity|].
        intros u Hu. apply pending_In in Hu. destruct Hu as [[Hu|Hu] LU].
        -- subst u. fold (live e) in C. rewrite LU in C. rewrite andb_true_r in C. lia.
        -- apply B. apply pending_In. auto.
Qed.

Lemma tps_sub_map l' l : map e_tp l' = map e_tp l -> tps_sub l' l.
Proof.
  intros M u Hu.
  assert (In (e_tp u) (map e_tp l)) as I by (rewrite <- M; apply in_map; exact Hu).
  apply in_map_iff in I. destruct I as (u' & E & I). exists u'. auto.
Qed.

Definition remove_spec (l : list entry) (id : Z) (l' : list entry) (r : option entry) : Prop :=
  match r with
  | Some t => live t = true /\ e_id t = id /\ Permutation (pending l) (t :: pending l')
  | None => Permutation (pending l) (pending l') /\ forall u, In u (pending l) -> e_id u <> id
  end.

Theorem remove_ok l id : heap_ok l ->
  exists l' r, remove l id = Ok (l', r) /\ heap_ok l' /\ tps_sub l' l /\ (l = [] -> l' = []) /\ remove_spec l id l' r.
Proof.
  intros H. unfold remove.
  destruct l as [|t0 rest0] eqn:EL.
  - cbn [is_empty]. exists [], None. repeat split; auto using tps_sub_refl.
  - rewrite <- EL in *. assert (is_empty l = false) as NE by (rewrite EL; reflexivity). rewrite NE.
    destruct (remove_loop_ok (S (length l)) l id (Nat.lt_succ_diag_r _) H) as (l1 & r1 & E1 & H1 & S1 & SP1).
    rewrite E1. cbn [rbind fst snd].
    destruct r1 as [t|].
    + exists l1, (Some t). split; [reflexivity|]. split; [exact H1|]. split; [apply tps_sub_incl; exact S1|].
      split; [intros Q; rewrite EL in Q; discriminate|]. exact SP1.
    + destruct (find_take l1 id) as [l2 r2] eqn:E2.
      destruct (find_take_ok l1 id l2 r2 E2) as (M & SP2).
      exists l2, r2. split; [reflexivity|]. split; [apply (heap_ok_ext l1 l2); [symmetry; exact M|exact H1]|].
      split.
      { eapply tps_sub_trans; [apply tps_sub_map; exact M|apply tps_sub_incl; exact S1]. }
      split; [intros Q; rewrite EL in Q; discriminate|].
      destruct r2 as [t|]; cbn [remove_spec].
      * destruct SP2 as (A & B & P). repeat split; auto. rewrite SP1. exact P.
      * destruct SP2 as (A & B). subst l2. split; [exact SP1|].
        intros u Hu. apply B. eapply Permutation_in; eassumption.
Qed.

(* ================================================================= *)
(* 4. the state invariant and the refinement of every operation      *)
(* ================================================================= *)

Definition pid_of (e : entry) : list nat := match e_p e with Some p => [p] | None => [] end.
(* promise ids held by the array *)
Definition ppids (l : list entry) : list nat := flat_map pid_of l.

Lemma ppids_cons e l : ppids (e :: l) = pid_of e ++ ppids l.
Proof. reflexivity. Qed.

Lemma ppids_pending l : ppids (pending l) = ppids l.
Proof.
  induction l as [|e l IH]; [reflexivity|].
  destruct (live e) eqn:L.
  - rewrite pending_cons_live by exact L. rewrite !ppids_cons, IH. reflexivity.
  - rewrite pending_cons_dead by exact L. rewrite ppids_cons, IH.
    unfold live in L. unfold pid_of. destruct (e_p e); [discriminate|reflexivity].
Qed.

Lemma ppids_perm a b : Permutation a b -> Permutation (ppids a) (ppids b).
Proof. apply Permutation_flat_map. Qed.

Lemma In_ppids p l : In p (ppids l) <-> exists e, In e l /\ e_p e = Some p.
Proof.
  unfold ppids. rewrite in_flat_map. split; intros (e & I & H); exists e; split; auto.
  - unfold pid_of in H. destruct (e_p e) as [q|]; [destruct H as [H|[]]; congruence|destruct H].
  - unfold pid_of. rewrite H. left. reflexivity.
Qed.

Lemma ppids_take l t l' p : e_p t = Some p -> Permutation (pending l) (t :: pending l') ->
  Permutation (ppids l) (p :: ppids l').
Proof.
  intros E P. apply ppids_perm in P. rewrite ppids_pending, ppids_cons, ppids_pending in P.
  unfold pid_of in P. rewrite E in P. exact P.
Qed.

Lemma ppids_same l l' : Permutation (pending l) (pending l') -> Permutation (ppids l) (ppids l').
Proof. intros P. apply ppids_perm in P. rewrite !ppids_pending in P. exact P. Qed.

Record inv (s : st) : Prop := mkInv {
  inv_heap : heap_ok (sched s);                         (* _scheduled[0] is a minimum *)
  inv_dead : alive s = false -> sched s = [];
  inv_nodup : NoDup (ppids (sched s));                  (* a promise sits in at most one slot *)
  inv_pend : forall p, get (futs s) p = Some FPending <-> In p (ppids (sched s)) }.

Lemma inv_st0 : inv st0.
Proof.
  split; cbn [sched futs alive st0 ppids flat_map].
  - apply heap_ok_nil.
  - reflexivity.
  - constructor.
  - intros p. unfold get. destruct p; cbn; split; intros H; try discriminate; destruct H.
Qed.

Lemma stat_of_not_pending h : stat_of h <> FPending.
Proof. destruct h; discriminate. Qed.

Lemma complete_live f t h p : e_p t = Some p -> complete f (t, h) = put f p (Some (stat_of h)).
Proof. intros E. unfold complete. cbn [fst snd]. rewrite E. reflexivity. Qed.

Lemma complete_keeps f l l' t h p : e_p t = Some p -> NoDup (ppids l) ->
  (forall q, get f q = Some FPending <-> In q (ppids l)) -> Permutation (ppids l) (p :: ppids l') ->
  NoDup (ppids l') /\ (forall q, get (complete f (t, h)) q = Some FPending <-> In q (ppids l')).
Proof.
  intros E ND PE P.
  assert (NoDup (p :: ppids l')) as ND' by (eapply Permutation_NoDup; eassumption).
  inversion ND' as [|? ? NI ND'']; subst.
  split; [exact ND''|]. intros q. rewrite (complete_live f t h p E).
  destruct (Nat.eq_dec q p) as [Q|Q].
  - subst q. rewrite get_put_same. split; intros H.
    + exfalso. apply (stat_of_not_pending h). congruence.
    + contradiction.
  - rewrite get_put_other by congruence. rewrite PE. split; intros H.
    + apply (Permutation_in _ P) in H. destruct H as [H|H]; [congruence|exact H].
    + apply (Permutation_in _ (Permutation_sym P)). right. exact H.
Qed.

(* --- the multiset specification of one call (P = pending multiset before, P' = after) --- *)
Definition rm_spec (P : list entry) (id : Z) (h : how) (o : out) (P' : list entry) : Prop :=
  (exists t, o = mkOut 0 1 0 [(t, h)] /\ In t P /\ e_id t = id /\ Permutation P (t :: P'))
  \/ (o = mkOut 0 0 0 [] /\ (forall u, In u P -> e_id u <> id) /\ Permutation P P').

Definition sched_spec (P : list entry) (pid : nat) (id tp : Z) (o : out) (P' : list entry) : Prop :=
  (o = rejected /\ P' = P) \/ (o = mkOut 0 0 0 [] /\ Permutation P' (mkE tp (Some pid) id :: P)).

Definition spec_step (P : list entry) (x : op) (o : out) (P' : list entry) : Prop :=
  match x with
  | OSchedule pid id tp => sched_spec P pid id tp o P'
  | OSleep pid id tp => sched_spec P pid id tp o P'
  | OExpired now =>
      (exists t, o = mkOut 0 1 0 [(t, ByExpiry now)] /\ In t P /\ e_tp t <= now /\
                 (forall u, In u P -> e_tp t <= e_tp u) /\ Permutation P (t :: P'))
      \/ (exists tp, o = mkOut 0 0 tp [] /\ now < tp /\ (exists t, In t P /\ e_tp t = tp) /\
                     (forall u, In u P -> tp <= e_tp u) /\ Permutation P P')
      \/ (o = mkOut 0 2 0 [] /\ P = [] /\ P' = [])
  | ORemove id => rm_spec P id ByRemove o P'
  | OCancel id => rm_spec P id (ByCancel 0) o P'
  | OCancelE id c => rm_spec P id (ByCancel c) o P'
  | ODestroy => o = mkOut 0 0 0 (map (fun e => (e, ByDestroy)) P) /\ P' = []
  | OBad => o = rejected /\ P' = P
  end.

(* what a call does to the futures: only the futures named by its completion events change *)
Definition futs_effect (s : st) (x : op) (o : out) (s' : st) : Prop :=
  match x with
  | OSchedule pid _ _ | OSleep pid _ _ =>
      if o_st o =? 0 then futs s' = put (futs s) pid (Some FPending) else futs s' = futs s
  | _ => futs s' = fold_left complete (o_evs o) (futs s)
  end.

Lemma do_remove_ok s id h : inv s -> alive s = true ->
  exists s' o, do_remove s id h = Ok (s', o) /\ inv s' /\ alive s' = true /\
               rm_spec (pending (sched s)) id h o (pending (sched s')) /\
               futs s' = fold_left complete (o_evs o) (futs s).
Proof.
  intros [IH ID IN IP] A. unfold do_remove.
  destruct (remove_ok (sched s) id IH) as (l' & r & E & H' & TS & EM & SP).
  rewrite E. cbn [rbind fst snd].
  destruct r as [t|]; cbn [remove_spec] in SP.
  - destruct SP as (LT & EI & P).
    destruct (proj1 (live_some t) LT) as [p EP].
    destruct (complete_keeps (futs s) (sched s) l' t h p EP IN IP (ppids_take _ _ _ _ EP P)) as (ND & PE).
    eexists _, _. split; [reflexivity|]. split; [|split; [reflexivity|split]].
    + split; cbn [sched futs alive]; auto. discriminate.
    + left. exists t. cbn [sched]. repeat split; auto.
      apply (Permutation_in _ (Permutation_sym P)). left. reflexivity.
    + reflexivity.
  - destruct SP as (P & NO).
    eexists _, _. split; [reflexivity|]. split; [|split; [reflexivity|split]].
    + split; cbn [sched futs alive]; auto; try discriminate.
      * eapply Permutation_NoDup; [apply ppids_same; exact P|exact IN].
      * intros q. rewrite IP. split; apply Permutation_in; [|symmetry]; apply ppids_same; exact P.
    + right. cbn [sched]. auto.
    + reflexivity.
Qed.

Lemma fold_complete_destroy es : forall f q,
  get (fold_left complete (map (fun e => (e, ByDestroy)) es) f) q =
  if in_dec Nat.eq_dec q (ppids es) then Some FDropped else get f q.
Proof.
  induction es as [|e es IH]; intros f q; cbn [map fold_left].
  - cbn [ppids flat_map]. destruct (in_dec Nat.eq_dec q []) as [[]|]; reflexivity.
  - rewrite IH. rewrite ppids_cons.
    destruct (in_dec Nat.eq_dec q (ppids es)) as [I|I];
    destruct (in_dec Nat.eq_dec q (pid_of e ++ ppids es)) as [J|J]; try reflexivity.
    + exfalso. apply J. apply in_or_app. right. exact I.
    + apply in_app_or in J. destruct J as [J|J]; [|contradiction].
      unfold pid_of in J. destruct (e_p e) as [p|] eqn:EP; [|destruct J]. destruct J as [J|[]]. subst q.
      rewrite (complete_live f e ByDestroy p EP). apply get_put_same.
    + unfold complete. cbn [fst snd]. destruct (e_p e) as [p|] eqn:EP; [|reflexivity].
      rewrite get_put_other; [reflexivity|]. intros Q. subst q. apply J. apply in_or_app. left.
      unfold pid_of. rewrite EP. left. reflexivity.
Qed.

(* every call returns (no out-of-bounds access, no fuel artefact), keeps the invariant, and refines the
   multiset specification *)
Theorem step_ok s x : inv s ->
  exists s' o, step s x = Ok (s', o) /\ inv s' /\ futs_effect s x o s' /\
               (alive s = true -> spec_step (pending (sched s)) x o (pending (sched s'))) /\
               (alive s = false -> s' = s /\ o = rejected).
Proof.
  intros I. unfold step.
  destruct (alive s) eqn:A; cbn [negb].
  2:{ exists s, rejected. split; [reflexivity|]. split; [exact I|]. split.
      - destruct x; cbn [futs_effect rejected o_st o_evs fold_left]; reflexivity.
      - split; [discriminate|auto]. }
  assert (forall pid id tp,
    exists s' o,
      match get (futs s) pid with
      | Some _ => Ok (s, rejected)
      | None => Ok (mkSt (fst (schedule (sched s) (mkE tp (Some pid) id))) (put (futs s) pid (Some FPending)) true,
                    mkOut 0 0 0 [])
      end = Ok (s', o) /\ inv s' /\
      (if o_st o =? 0 then futs s' = put (futs s) pid (Some FPending) else futs s' = futs s) /\
      (true = true -> sched_spec (pending (sched s)) pid id tp o (pending (sched s'))) /\
      (true = false -> s' = s /\ o = rejected)) as SCH.
  { intros pid id tp. destruct I as [IH ID IN IP].
    destruct (get (futs s) pid) as [v|] eqn:G.
    - exists s, rejected. split; [reflexivity|]. split; [split; assumption|]. split; [reflexivity|].
      split; [|discriminate]. intros _. left. auto.
    - set (e := mkE tp (Some pid) id).
      destruct (heap_push_ok (sched s) e IH) as (H1 & P1 & L1).
      assert (live e = true) as LE by reflexivity.
      assert (Permutation (ppids (heap_push (sched s) e)) (pid :: ppids (sched s))) as PP.
      { apply ppids_perm in P1. exact P1. }
      assert (~ In pid (ppids (sched s))) as NI.
      { intros Q. apply IP in Q. congruence. }
      eexists _, _. split; [reflexivity|]. split; [|split; [reflexivity|split; [|discriminate]]].
      + split; cbn [sched futs alive schedule fst]; auto; try discriminate.
        * eapply Permutation_NoDup; [symmetry; exact PP|]. constructor; assumption.
        * intros q. destruct (Nat.eq_dec q pid) as [Q|Q].
          -- subst q. rewrite get_put_same. split; intros _; [|reflexivity].
             apply (Permutation_in _ (Permutation_sym PP)). left. reflexivity.
          -- rewrite get_put_other by congruence. rewrite IP. split; intros H.
             ++ apply (Permutation_in _ (Permutation_sym PP)). right. exact H.
             ++ apply (Permutation_in _ PP) in H. destruct H as [H|H]; [congruence|exact H].
      + intros _. right. split; [reflexivity|]. cbn [sched schedule fst].
        fold e. rewrite <- (pending_cons_live e (sched s) LE). apply pending_perm. exact P1. }
  destruct x as [pid id tp|pid id tp|now|id|id|id c| |]; cbn [futs_effect spec_step].
  - apply SCH.
  - apply SCH.
  - (* get_expired *)
    destruct I as [IH ID IN IP].
    destruct (get_expired_ok (sched s) now IH) as (l' & r & E & H' & SUB & SP).
    rewrite E. cbn [rbind fst snd].
    destruct r as [t|tp|]; cbn [expired_spec] in SP.
    + destruct SP as (LT & DUE & P & MIN).
      destruct (proj1 (live_some t) LT) as [p EP].
      destruct (complete_keeps (futs s) (sched s) l' t (ByExpiry now) p EP IN IP (ppids_take _ _ _ _ EP P)) as (ND & PE).
      eexists _, _. split; [reflexivity|]. split; [|split; [reflexivity|split; [|discriminate]]].
      * split; cbn [sched futs alive]; auto. discriminate.
      * intros _. left. exists t. cbn [sched]. repeat split; auto.
        apply (Permutation_in _ (Permutation_sym P)). left. reflexivity.
    + destruct SP as (FUT & P & (t & rest & EL & LT & ET) & MIN).
      eexists _, _. split; [reflexivity|]. split; [|split; [reflexivity|split; [|discriminate]]].
      * split; cbn [sched futs alive]; auto; try discriminate.
        -- eapply Permutation_NoDup; [apply ppids_same; exact P|exact IN].
        -- intros q. rewrite IP. split; apply Permutation_in; [|symmetry]; apply ppids_same; exact P.
      * intros _. right. left. exists tp. cbn [sched]. split; [reflexivity|]. split; [exact FUT|].
        assert (In t (pending l')) as IT by (apply pending_In; rewrite EL; split; [left; reflexivity|exact LT]).
        split; [|split; [|exact P]].
        -- exists t. split; [|exact ET]. apply (Permutation_in _ (Permutation_sym P)). exact IT.
        -- intros u Hu. apply MIN. apply (Permutation_in _ P) in Hu. apply pending_In in Hu. apply Hu.
    + destruct SP as (EL & EP). subst l'.
      eexists _, _. split; [reflexivity|]. split; [|split; [reflexivity|split; [|discriminate]]].
      * split; cbn [sched futs alive]; auto using heap_ok_nil; try discriminate.
        -- constructor.
        -- intros q. rewrite IP. rewrite <- ppids_pending, EP. reflexivity.
      * intros _. right. right. cbn [sched]. auto.
  - destruct (do_remove_ok s id ByRemove I A) as (s' & o & E & I' & A' & SP & FE).
    exists s', o. split; [exact E|]. split; [exact I'|]. split; [exact FE|]. split; [intros _; exact SP|discriminate].
  - destruct (do_remove_ok s id (ByCancel 0) I A) as (s' & o & E & I' & A' & SP & FE).
    exists s', o. split; [exact E|]. split; [exact I'|]. split; [exact FE|]. split; [intros _; exact SP|discriminate].
  - destruct (do_remove_ok s id (ByCancel c) I A) as (s' & o & E & I' & A' & SP & FE).
    exists s', o. split; [exact E|]. split; [exact I'|]. split; [exact FE|]. split; [intros _; exact SP|discriminate].
  - (* ~scheduler *)
    destruct I as [IH ID IN IP].
    eexists _, _. split; [reflexivity|]. split; [|split; [reflexivity|split; [|discriminate]]].
    + split; cbn [sched futs alive]; auto using heap_ok_nil.
      * constructor.
      * intros q. rewrite fold_complete_destroy. rewrite ppids_pending.
        destruct (in_dec Nat.eq_dec q (ppids (sched s))) as [J|J].
        -- split; [discriminate|intros []].
        -- rewrite IP. split; [contradiction|intros []].
    + intros _. cbn [sched]. auto.
  - exists s, rejected. split; [reflexivity|]. split; [exact I|]. split; [reflexivity|]. split; [auto|discriminate].
Qed.

(* ================================================================= *)
(* 5. runs                                                           *)
(* ================================================================= *)

Lemma ob_out_mk_obs s s1 o : ob_out (mk_obs s s1 o) = o.
Proof. unfold mk_obs. destruct (o_st o =? 0); reflexivity. Qed.

(* no history ever reaches an Err outcome (out-of-bounds / fuel): c12_no_crash for the manual API *)
Lemma run_from_ok ops : forall s, inv s ->
  exists os s', run_from s ops = (os, Some s') /\ inv s' /\ length os = length ops.
Proof.
  induction ops as [|x t IH]; intros s I; cbn [run_from].
  - exists [], s. auto.
  - destruct (step_ok s x I) as (s1 & o & E & I1 & _).
    rewrite E. cbn [fst snd].
    destruct (IH s1 I1) as (os & s' & E' & I' & L). rewrite E'.
    exists (mk_obs s s1 o :: os), s'. cbn [length]. auto.
Qed.

Lemma run_split pre : forall s x post os s', run_from s (pre ++ x :: post) = (os, Some s') ->
  exists os1 s1 s2 o os2, run_from s pre = (os1, Some s1) /\ step s1 x = Ok (s2, o) /\
                          run_from s2 post = (os2, Some s') /\ os = os1 ++ mk_obs s1 s2 o :: os2.
Proof.
  induction pre as [|y pre IH]; intros s x post os s' E.
  - cbn [app run_from] in E. destruct (step s x) as [[s2 o]| |] eqn:ES; try (inversion E; fail).
    cbn [fst snd] in E. destruct (run_from s2 post) as [os2 e] eqn:ER. inversion E; subst.
    exists [], s, s2, o, os2. cbn [run_from app]. auto.
  - cbn [app run_from] in E. destruct (step s y) as [[sy oy]| |] eqn:ES; try (inversion E; fail).
    cbn [fst snd] in E. destruct (run_from sy (pre ++ x :: post)) as [os' e] eqn:ER. inversion E; subst.
    destruct (IH sy x post os' s' ER) as (os1 & s1 & s2 & o & os2 & E1 & E2 & E3 & E4).
    exists (mk_obs s sy oy :: os1), s1, s2, o, os2. cbn [run_from]. rewrite ES. cbn [fst snd]. rewrite E1.
    subst os'. auto.
Qed.

Lemma run_inv ops : forall s os s', inv s -> run_from s ops = (os, Some s') -> inv s'.
Proof.
  intros s os s' I E. destruct (run_from_ok ops s I) as (os2 & s2 & E2 & I2 & _).
  rewrite E in E2. inversion E2; subst. exact I2.
Qed.

Definition reachable (s : st) : Prop := exists ops os, run_from st0 ops = (os, Some s).

Lemma reachable_inv s : reachable s -> inv s.
Proof. intros (ops & os & E). eapply run_inv; [apply inv_st0|exact E]. Qed.

(* --- what a history scheduled, what it completed --- *)
Definition accepted (x : op) (o : obs) : list entry :=
  match x with
  | OSchedule pid id tp | OSleep pid id tp => if o_st (ob_out o) =? 0 then [mkE tp (Some pid) id] else []
  | _ => []
  end.

Fixpoint sched_run (ops : list op) (os : list obs) : list entry :=
  match ops, os with
  | x :: t, o :: u => accepted x o ++ sched_run t u
  | _, _ => []
  end.

Definition events_run (os : list obs) : list (entry * how) := flat_map (fun o => o_evs (ob_out o)) os.
Definition completed_run (os : list obs) : list entry := map fst (events_run os).

Lemma events_run_cons o os : events_run (o :: os) = o_evs (ob_out o) ++ events_run os.
Proof. reflexivity. Qed.

Lemma step_conserves s x s' o : inv s -> step s x = Ok (s', o) ->
  Permutation (accepted x (mk_obs s s' o) ++ pending (sched s)) (map fst (o_evs o) ++ pending (sched s')).
Proof.
  intros I E. destruct (step_ok s x I) as (s2 & o2 & E2 & I2 & FE & SP & DEAD).
  rewrite E in E2. inversion E2; subst s2 o2. clear E2.
  unfold accepted. rewrite ob_out_mk_obs.
  destruct (alive s) eqn:A.
  - specialize (SP eq_refl). clear DEAD.
    destruct x as [pid id tp|pid id tp|now|id|id|id c| |]; cbn [spec_step] in SP.
    1,2: destruct SP as [[-> ->]|[-> P]]; cbn [o_st rejected o_evs map app Z.eqb]; [reflexivity|symmetry; exact P].
    + destruct SP as [(t & -> & IT & DUE & MIN & P)|[(tp & -> & _ & _ & _ & P)|(-> & E0 & E1)]];
        cbn [o_evs map fst app]; [exact P|exact P|rewrite E0, E1; reflexivity].
    + destruct SP as [(t & -> & IT & EI & P)|(-> & _ & P)]; cbn [o_evs map fst app]; exact P.
    + destruct SP as [(t & -> & IT & EI & P)|(-> & _ & P)]; cbn [o_evs map fst app]; exact P.
    + destruct SP as [(t & -> & IT & EI & P)|(-> & _ & P)]; cbn [o_evs map fst app]; exact P.
    + destruct SP as (-> & ->). cbn [o_evs app]. rewrite map_map. cbn [fst]. rewrite map_id, app_nil_r. reflexivity.
    + destruct SP as (-> & ->). reflexivity.
  - destruct (DEAD eq_refl) as (-> & ->). cbn [rejected o_st o_evs map app].
    destruct x; reflexivity.
Qed.

Lemma perm_glue {A} (a b c d e f g : list A) :
  Permutation (a ++ c) (d ++ e) -> Permutation (b ++ e) (f ++ g) -> Permutation ((a ++ b) ++ c) ((d ++ f) ++ g).
Proof.
  intros H1 H2. rewrite <- app_assoc. rewrite Permutation_app_swap_app. rewrite H1.
  rewrite Permutation_app_swap_app. rewrite H2. rewrite app_assoc. reflexivity.
Qed.

(* conservation: scheduled ⊎ pending-before = completed ⊎ pending-after *)
Lemma run_conserves ops : forall s os s', inv s -> run_from s ops = (os, Some s') ->
  Permutation (sched_run ops os ++ pending (sched s)) (completed_run os ++ pending (sched s')).
Proof.
  induction ops as [|x t IH]; intros s os s' I E; cbn [run_from] in E.
  - inversion E; subst. reflexivity.
  - destruct (step s x) as [[s1 o]| |] eqn:ES; try (inversion E; fail).
    cbn [fst snd] in E. destruct (run_from s1 t) as [os1 e] eqn:ER. inversion E; subst. clear E.
    assert (inv s1) as I1.
    { destruct (step_ok s x I) as (s2 & o2 & E2 & I2 & _). rewrite ES in E2. inversion E2; subst. exact I2. }
    specialize (IH s1 os1 s' I1 ER).
    pose proof (step_conserves s x s1 o I ES) as SC.
    cbn [sched_run]. unfold completed_run in *. rewrite events_run_cons, map_app, ob_out_mk_obs.
    apply (perm_glue _ _ _ _ _ _ _ SC IH).
Qed.

(* --- completion events of one call come from the pending multiset; futures change accordingly --- *)
Lemma step_events_pending s x s' o : inv s -> step s x = Ok (s', o) ->
  forall ev, In ev (o_evs o) -> In (fst ev) (pending (sched s)).
Proof.
  intros I E. destruct (step_ok s x I) as (s2 & o2 & E2 & I2 & FE & SP & DEAD).
  rewrite E in E2. inversion E2; subst s2 o2. clear E2.
  destruct (alive s) eqn:A.
  - specialize (SP eq_refl).
    assert (forall id h, rm_spec (pending (sched s)) id h o (pending (sched s')) ->
            forall ev, In ev (o_evs o) -> In (fst ev) (pending (sched s))) as RM.
    { intros id h [(t & -> & IT & _)|(-> & _)] ev; cbn [o_evs]; [intros [<-|[]]; exact IT|intros []]. }
    destruct x as [pid id tp|pid id tp|now|id|id|id c| |]; cbn [spec_step] in SP; eauto.
    1,2: destruct SP as [[-> _]|[-> _]]; intros ev [].
    + destruct SP as [(t & -> & IT & _)|[(tp & -> & _)|(-> & _)]]; intros ev; cbn [o_evs];
        [intros [<-|[]]; exact IT|intros []|intros []].
    + destruct SP as (-> & _). intros ev. cbn [o_evs]. rewrite in_map_iff. intros (e & <- & IE). exact IE.
    + destruct SP as (-> & _). intros ev [].
  - destruct (DEAD eq_refl) as (_ & ->). intros ev [].
Qed.

Lemma fold_complete_other evs : forall f p, (forall ev, In ev evs -> e_p (fst ev) <> Some p) ->
  get (fold_left complete evs f) p = get f p.
Proof.
  induction evs as [|ev evs IH]; intros f p H; cbn [fold_left]; [reflexivity|].
  rewrite IH by (intros ev' I'; apply H; right; exact I').
  unfold complete. destruct (e_p (fst ev)) as [q|] eqn:EQ; [|reflexivity].
  apply get_put_other. intros ->. apply (H ev); [left; reflexivity|exact EQ].
Qed.

Lemma sched_accept_fresh s x s' o : step s x = Ok (s', o) -> o_st o = 0 ->
  forall e, In e (accepted x (mk_obs s s' o)) -> exists p, e_p e = Some p /\ get (futs s) p = None /\ get (futs s') p = Some FPending.
Proof.
  intros E OS e. unfold accepted. rewrite ob_out_mk_obs. rewrite OS. cbn [Z.eqb].
  unfold step in E. destruct (alive s); cbn [negb] in E; [|inversion E; subst; discriminate].
  destruct x as [pid id tp|pid id tp|now|id|id|id c| |]; try (intros []; fail).
  all: intros [<-|[]]; exists pid; cbn [e_p]; destruct (get (futs s) pid) eqn:G;
    inversion E; subst; [discriminate|cbn [futs]; rewrite get_put_same; auto].
Qed.

(* a future that is no longer pending is never touched again; a fresh one stays untouched until scheduled *)
Lemma step_stable s x s' o : inv s -> step s x = Ok (s', o) ->
  forall p v, get (futs s) p = Some v -> v <> FPending -> get (futs s') p = Some v.
Proof.
  intros I E p v G NP.
  destruct (step_ok s x I) as (s2 & o2 & E2 & I2 & FE & SP & DEAD).
  rewrite E in E2. inversion E2; subst s2 o2. clear E2.
  assert (get (fold_left complete (o_evs o) (futs s)) p = Some v) as GEN.
  { rewrite fold_complete_other; [exact G|].
    intros ev IE Q. pose proof (step_events_pending s x s' o I E ev IE) as IP.
    assert (In p (ppids (sched s))) as PP.
    { rewrite <- ppids_pending. apply In_ppids. eauto. }
    apply (inv_pend s I) in PP. congruence. }
  destruct x as [pid id tp|pid id tp|now|id|id|id c| |]; cbn [futs_effect] in FE; try (rewrite FE; exact GEN).
  all: destruct (o_st o =? 0) eqn:OS; [|rewrite FE; exact G].
  all: rewrite FE; rewrite get_put_other; [exact G|]; intros <-.
  all: match goal with |- False =>
         edestruct (sched_accept_fresh s _ s' o E ltac:(lia)) as (q & EQ & GN & _);
           [unfold accepted; rewrite ob_out_mk_obs, OS; left; reflexivity|]; cbn [e_p] in EQ; inversion EQ; subst; congruence end.
Qed.

Lemma step_used s x s' o : inv s -> step s x = Ok (s', o) ->
  forall p, get (futs s) p <> None -> get (futs s') p <> None.
Proof.
  intros I E p G.
  destruct (get (futs s) p) as [v|] eqn:GV; [|congruence].
  destruct v; try (erewrite step_stable; eauto; discriminate).
  (* pending: still in the array, or completed now *)
  destruct (step_ok s x I) as (s2 & o2 & E2 & I2 & FE & SP & DEAD).
  rewrite E in E2. inversion E2; subst s2 o2. clear E2.
  assert (forall evs f, get f p <> None -> get (fold_left complete evs f) p <> None) as GEN.
  { induction evs as [|ev evs IH]; intros f F; cbn [fold_left]; [exact F|]. apply IH.
    unfold complete. destruct (e_p (fst ev)) as [q|]; [|exact F].
    destruct (Nat.eq_dec q p) as [->|N]; [rewrite get_put_same; discriminate|rewrite get_put_other by exact N; exact F]. }
  assert (get (futs s) p <> None) as G0 by congruence.
  destruct x as [pid id tp|pid id tp|now|id|id|id c| |]; cbn [futs_effect] in FE; try (rewrite FE; apply GEN; exact G0).
  all: destruct (o_st o =? 0) eqn:OS; [|rewrite FE; exact G0].
  all: rewrite FE; destruct (Nat.eq_dec pid p) as [->|N]; [rewrite get_put_same; discriminate|rewrite get_put_other by exact N; exact G0].
Qed.

Lemma step_event_status s x s' o : inv s -> step s x = Ok (s', o) ->
  forall t h p, In (t, h) (o_evs o) -> e_p t = Some p -> get (futs s') p = Some (stat_of h).
Proof.
  intros I E t h p IE EP.
  destruct (step_ok s x I) as (s2 & o2 & E2 & I2 & FE & SP & DEAD).
  rewrite E in E2. inversion E2; subst s2 o2. clear E2.
  destruct (alive s) eqn:A.
  2:{ destruct (DEAD eq_refl) as (_ & ->). destruct IE. }
  specialize (SP eq_refl).
  assert (forall id h0, rm_spec (pending (sched s)) id h0 o (pending (sched s')) ->
          futs s' = fold_left complete (o_evs o) (futs s) -> get (futs s') p = Some (stat_of h)) as RM.
  { intros id h0 [(t0 & -> & _)|(-> & _)] F; cbn [o_evs] in *; [|destruct IE].
    destruct IE as [Q|[]]. inversion Q; subst. rewrite F. cbn [fold_left].
    rewrite (complete_live _ _ _ _ EP). apply get_put_same. }
  destruct x as [pid id tp|pid id tp|now|id|id|id c| |]; cbn [spec_step futs_effect] in SP, FE; eauto.
  1,2: destruct SP as [[-> _]|[-> _]]; destruct IE.
  - destruct SP as [(t0 & -> & _)|[(tp & -> & _)|(-> & _)]]; cbn [o_evs] in *; try (destruct IE; fail).
    destruct IE as [Q|[]]. inversion Q; subst. rewrite FE. cbn [fold_left].
    rewrite (complete_live _ _ _ _ EP). apply get_put_same.
  - destruct SP as (-> & _). cbn [o_evs] in *. rewrite FE. rewrite fold_complete_destroy.
    apply in_map_iff in IE. destruct IE as (e & Q & IE). inversion Q; subst.
    destruct (in_dec Nat.eq_dec p (ppids (pending (sched s)))) as [J|J]; [reflexivity|].
    exfalso. apply J. apply In_ppids. eauto.
  - destruct SP as (-> & _). destruct IE.
Qed.

Lemma run_stable ops : forall s os s', inv s -> run_from s ops = (os, Some s') ->
  forall p v, get (futs s) p = Some v -> v <> FPending -> get (futs s') p = Some v.
Proof.
  induction ops as [|x t IH]; intros s os s' I E p v G NP; cbn [run_from] in E.
  - inversion E; subst. exact G.
  - destruct (step s x) as [[s1 o]| |] eqn:ES; try (inversion E; fail).
    cbn [fst snd] in E. destruct (run_from s1 t) as [os1 e] eqn:ER. inversion E; subst. clear E.
    assert (inv s1) as I1.
    { destruct (step_ok s x I) as (s2 & o2 & E2 & I2 & _). rewrite ES in E2. inversion E2; subst. exact I2. }
    apply (IH s1 os1 s' I1 ER p v); [|exact NP]. apply (step_stable s x s1 o I ES p v G NP).
Qed.

(* every completion event fixes the final state of its future: value for expiry / remove, the given exception
   for cancel, "no value" (await_canceled_exception on access) for destruction *)
Lemma run_event_status ops : forall s os s', inv s -> run_from s ops = (os, Some s') ->
  forall t h p, In (t, h) (events_run os) -> e_p t = Some p -> get (futs s') p = Some (stat_of h).
Proof.
  induction ops as [|x tl IH]; intros s os s' I E t h p IE EP; cbn [run_from] in E.
  - inversion E; subst. destruct IE.
  - destruct (step s x) as [[s1 o]| |] eqn:ES; try (inversion E; fail).
    cbn [fst snd] in E. destruct (run_from s1 tl) as [os1 e] eqn:ER. inversion E; subst. clear E.
    assert (inv s1) as I1.
    { destruct (step_ok s x I) as (s2 & o2 & E2 & I2 & _). rewrite ES in E2. inversion E2; subst. exact I2. }
    rewrite events_run_cons, ob_out_mk_obs in IE. apply in_app_or in IE. destruct IE as [IE|IE].
    + apply (run_stable tl s1 os1 s' I1 ER p (stat_of h)); [|apply stat_of_not_pending].
      apply (step_event_status s x s1 o I ES t h p IE EP).
    + apply (IH s1 os1 s' I1 ER t h p IE EP).
Qed.

(* promise ids accepted by a history are pairwise distinct *)
Lemma run_fresh ops : forall s os s', inv s -> run_from s ops = (os, Some s') ->
  NoDup (ppids (sched_run ops os)) /\
  (forall p, In p (ppids (sched_run ops os)) -> get (futs s) p = None) /\
  (forall p, get (futs s) p <> None -> get (futs s') p <> None).
Proof.
  induction ops as [|x t IH]; intros s os s' I E; cbn [run_from] in E.
  - inversion E; subst. cbn [sched_run ppids flat_map]. split; [constructor|]. split; [intros p []|auto].
  - destruct (step s x) as [[s1 o]| |] eqn:ES; try (inversion E; fail).
    cbn [fst snd] in E. destruct (run_from s1 t) as [os1 e] eqn:ER. inversion E; subst. clear E.
    assert (inv s1) as I1.
    { destruct (step_ok s x I) as (s2 & o2 & E2 & I2 & _). rewrite ES in E2. inversion E2; subst. exact I2. }
    destruct (IH s1 os1 s' I1 ER) as (ND & FR & MONO).
    pose proof (step_used s x s1 o I ES) as SU.
    cbn [sched_run]. unfold ppids. rewrite flat_map_app. fold (ppids (accepted x (mk_obs s s1 o))). fold (ppids (sched_run t os1)).
    assert (forall p, In p (ppids (accepted x (mk_obs s s1 o))) ->
                      ppids (accepted x (mk_obs s s1 o)) = [p] /\ get (futs s) p = None /\ get (futs s1) p = Some FPending) as ACC.
    { intros p IP. apply In_ppids in IP. destruct IP as (e0 & I0 & EP0).
      assert (o_st o = 0) as OS.
      { unfold accepted in I0. rewrite ob_out_mk_obs in I0.
        destruct x; try (destruct I0; fail); destruct (o_st o =? 0) eqn:Q; try (destruct I0; fail); lia. }
      destruct (sched_accept_fresh s x s1 o ES OS e0 I0) as (q & EQ & G0 & G1).
      assert (q = p) by congruence. subst q. split; [|auto].
      unfold accepted in *. rewrite ob_out_mk_obs in *. rewrite OS in *. cbn [Z.eqb] in *.
      destruct x; try (destruct I0; fail); destruct I0 as [<-|[]]; cbn [e_p] in EP0; inversion EP0; reflexivity. }
    split; [|split].
    + destruct (ppids (accepted x (mk_obs s s1 o))) as [|p l] eqn:EA; [exact ND|].
      destruct (ACC p (or_introl eq_refl)) as (EQ & G0 & G1). inversion EQ; subst l. cbn [app].
      constructor; [|exact ND]. intros Q. apply FR in Q. congruence.
    + intros p IP. apply in_app_or in IP. destruct IP as [IP|IP].
      * apply ACC. exact IP.
      * apply FR in IP. destruct (get (futs s) p) eqn:G; [|reflexivity].
        exfalso. apply (SU p); congruence.
    + intros p G. apply MONO. apply SU. exact G.
Qed.

(* ================================================================= *)
(* 6. the C12 theorems for the manual API                            *)
(* ================================================================= *)

(* every element of a history's trace is one call made in a state satisfying the invariant, and that state is
   itself reachable by the prefix *)
Lemma run_In ops : forall s os s', inv s -> run_from s ops = (os, Some s') ->
  forall x ob, In (x, ob) (combine ops os) ->
  exists pre os1 s1 s2, run_from s pre = (os1, Some s1) /\ inv s1 /\ step s1 x = Ok (s2, ob_out ob).
Proof.
  induction ops as [|y t IH]; intros s os s' I E x ob IN; cbn [run_from] in E.
  - destruct IN.
  - destruct (step s y) as [[s1 o]| |] eqn:ES; try (inversion E; fail).
    cbn [fst snd] in E. destruct (run_from s1 t) as [os1 e] eqn:ER. inversion E; subst. clear E.
    assert (inv s1) as I1.
    { destruct (step_ok s y I) as (s2 & o2 & E2 & I2 & _). rewrite ES in E2. inversion E2; subst. exact I2. }
    cbn [combine] in IN. destruct IN as [Q|IN].
    + inversion Q; subst. exists [], [], s, s1. rewrite ob_out_mk_obs. cbn [run_from]. auto.
    + destruct (IH s1 os1 s' I1 ER x ob IN) as (pre & osp & sa & sb & E1 & Ia & E2).
      exists (y :: pre), (mk_obs s s1 o :: osp), sa, sb. cbn [run_from]. rewrite ES. cbn [fst snd]. rewrite E1. auto.
Qed.

(* (heap) in every reachable state the array is a binary min-heap on the time point: _scheduled[0] is a minimum *)
Theorem heap_invariant s : reachable s ->
  heap_ok (sched s) /\ forall t rest e, sched s = t :: rest -> In e (sched s) -> e_tp t <= e_tp e.
Proof.
  intros R. pose proof (reachable_inv s R) as I. split; [apply I|].
  intros t rest e E IN. rewrite E in IN. apply (heap_top_min_in t rest e); [rewrite <- E; apply I|exact IN].
Qed.

(* (no crash) no history reaches an out-of-bounds access or runs out of fuel; one observation per call *)
Theorem no_crash ops : exists os s, run_from st0 ops = (os, Some s) /\ length os = length ops.
Proof. destruct (run_from_ok ops st0 inv_st0) as (os & s & E & _ & L). eauto. Qed.

(* (refinement) every call in a reachable state returns and is a transition of the multiset specification *)
Theorem refines_multiset s x : reachable s ->
  exists s' o, step s x = Ok (s', o) /\ reachable s' /\
               (alive s = true -> spec_step (pending (sched s)) x o (pending (sched s'))) /\
               (alive s = false -> s' = s /\ o = rejected).
Proof.
  intros R. pose proof (reachable_inv s R) as I.
  destruct (step_ok s x I) as (s' & o & E & I' & FE & SP & DEAD).
  exists s', o. split; [exact E|]. split; [|auto].
  destruct R as (ops & os & ER). exists (ops ++ [x]), (os ++ [mk_obs s s' o]).
  clear - ER E. revert os ER. generalize st0.
  induction ops as [|y t IH]; intros s0 os ER; cbn [run_from app] in *.
  - inversion ER; subst. rewrite E. reflexivity.
  - destruct (step s0 y) as [[s1 o1]| |]; try (inversion ER; fail). cbn [fst snd] in *.
    destruct (run_from s1 t) as [os1 e] eqn:E1. inversion ER; subst.
    rewrite (IH s1 os1 E1). reflexivity.
Qed.

(* an expiry event only comes from get_expired(now), is due, and is a minimum of the pending multiset *)
Lemma expiry_step s x s' o : inv s -> step s x = Ok (s', o) ->
  forall t now, In (t, ByExpiry now) (o_evs o) ->
  x = OExpired now /\ e_tp t <= now /\ o_evs o = [(t, ByExpiry now)] /\
  (forall u, In u (pending (sched s)) -> e_tp t <= e_tp u) /\
  Permutation (pending (sched s)) (t :: pending (sched s')).
Proof.
  intros I E t now IE.
  destruct (step_ok s x I) as (s2 & o2 & E2 & I2 & FE & SP & DEAD).
  rewrite E in E2. inversion E2; subst s2 o2. clear E2.
  destruct (alive s) eqn:A.
  2:{ destruct (DEAD eq_refl) as (_ & ->). destruct IE. }
  specialize (SP eq_refl).
  assert (forall id h, (forall n, h <> ByExpiry n) -> rm_spec (pending (sched s)) id h o (pending (sched s')) -> False) as RM.
  { intros id h NH [(t0 & -> & _)|(-> & _)]; cbn [o_evs] in IE; [|destruct IE].
    destruct IE as [Q|[]]. inversion Q; subst. apply (NH now). reflexivity. }
  destruct x as [pid id tp|pid id tp|n|id|id|id c| |]; cbn [spec_step] in SP.
  1,2: destruct SP as [[-> _]|[-> _]]; destruct IE.
  - destruct SP as [(t0 & -> & IT & DUE & MIN & P)|[(tp & -> & _)|(-> & _)]]; cbn [o_evs] in IE; try (destruct IE; fail).
    destruct IE as [Q|[]]. inversion Q; subst. auto.
  - exfalso. eapply RM; [|exact SP]. discriminate.
  - exfalso. eapply RM; [|exact SP]. discriminate.
  - exfalso. eapply RM; [|exact SP]. discriminate.
  - destruct SP as (-> & _). cbn [o_evs] in IE. apply in_map_iff in IE. destruct IE as (e & Q & _). discriminate.
  - destruct SP as (-> & _). destruct IE.
Qed.

(* (never early) whatever the history, a sleep completed by expiry was completed by a get_expired(now) call with
   now >= its time point *)
Theorem never_early ops os sf : run_from st0 ops = (os, Some sf) ->
  forall x ob t now, In (x, ob) (combine ops os) -> In (t, ByExpiry now) (o_evs (ob_out ob)) ->
  x = OExpired now /\ e_tp t <= now.
Proof.
  intros E x ob t now IN IE.
  destruct (run_In ops st0 os sf inv_st0 E x ob IN) as (pre & os1 & s1 & s2 & _ & I1 & ES).
  destruct (expiry_step s1 x s2 (ob_out ob) I1 ES t now IE) as (A & B & _). auto.
Qed.

(* (deadline order, pairwise) when `a` is completed by expiry, every sleep `b` that was scheduled before and is not
   yet completed has a time point >= a's: nobody is overtaken *)
Theorem deadline_order pre os1 s1 x s2 o a now b :
  run_from st0 pre = (os1, Some s1) -> step s1 x = Ok (s2, o) -> In (a, ByExpiry now) (o_evs o) ->
  In b (sched_run pre os1) -> ~ In b (completed_run os1) -> e_tp a <= e_tp b.
Proof.
  intros E ES IE IB NB.
  pose proof (run_inv pre st0 os1 s1 inv_st0 E) as I1.
  destruct (expiry_step s1 x s2 o I1 ES a now IE) as (_ & _ & _ & MIN & _).
  apply MIN.
  pose proof (run_conserves pre st0 os1 s1 inv_st0 E) as C. cbn [st0 sched pending filter] in C.
  rewrite app_nil_r in C. apply (Permutation_in _ C) in IB. apply in_app_or in IB. destruct IB; [contradiction|assumption].
Qed.

(* time points completed by expiry, in completion order *)
Definition expiry_tps (os : list obs) : list Z :=
  flat_map (fun ev => match snd ev with ByExpiry _ => [e_tp (fst ev)] | _ => [] end) (events_run os).

Definition is_sched (x : op) : bool := match x with OSchedule _ _ _ | OSleep _ _ _ => true | _ => false end.

Lemma nosched_sub s x s' o : inv s -> is_sched x = false -> step s x = Ok (s', o) ->
  forall u, In u (pending (sched s')) -> In u (pending (sched s)).
Proof.
  intros I NS E u IU.
  destruct (step_ok s x I) as (s2 & o2 & E2 & I2 & FE & SP & DEAD).
  rewrite E in E2. inversion E2; subst s2 o2. clear E2.
  destruct (alive s) eqn:A.
  2:{ destruct (DEAD eq_refl) as (-> & _). exact IU. }
  specialize (SP eq_refl).
  assert (forall id h, rm_spec (pending (sched s)) id h o (pending (sched s')) -> In u (pending (sched s))) as RM.
  { intros id h [(t0 & _ & _ & _ & P)|(_ & _ & P)]; apply (Permutation_in _ (Permutation_sym P)); [right|]; exact IU. }
  destruct x as [pid id tp|pid id tp|n|id|id|id c| |]; cbn [spec_step is_sched] in SP, NS; try discriminate; eauto.
  - destruct SP as [(t0 & _ & _ & _ & _ & P)|[(tp & _ & _ & _ & _ & P)|(_ & _ & E1)]].
    + apply (Permutation_in _ (Permutation_sym P)). right. exact IU.
    + apply (Permutation_in _ (Permutation_sym P)). exact IU.
    + rewrite E1 in IU. destruct IU.
  - destruct SP as (_ & E1). rewrite E1 in IU. destruct IU.
  - destruct SP as (_ & E1). rewrite E1 in IU. exact IU.
Qed.

Lemma nosched_run ops : forall s os s', inv s -> forallb (fun x => negb (is_sched x)) ops = true ->
  run_from s ops = (os, Some s') ->
  StronglySorted Z.le (expiry_tps os) /\
  (forall tp, In tp (expiry_tps os) -> exists u, In u (pending (sched s)) /\ e_tp u = tp).
Proof.
  induction ops as [|x t IH]; intros s os s' I NS E; cbn [run_from] in E.
  - inversion E; subst. split; [constructor|intros tp []].
  - destruct (step s x) as [[s1 o]| |] eqn:ES; try (inversion E; fail).
    cbn [fst snd] in E. destruct (run_from s1 t) as [os1 e] eqn:ER. inversion E; subst. clear E.
    cbn [forallb] in NS. apply andb_true_iff in NS. destruct NS as [NX NT]. apply negb_true_iff in NX.
    assert (inv s1) as I1.
    { destruct (step_ok s x I) as (s2 & o2 & E2 & I2 & _). rewrite ES in E2. inversion E2; subst. exact I2. }
    destruct (IH s1 os1 s' I1 NT ER) as (SS & FROM).
    pose proof (nosched_sub s x s1 o I NX ES) as SUB.
    unfold expiry_tps in *. rewrite events_run_cons, ob_out_mk_obs, flat_map_app.
    set (hd := flat_map (fun ev => match snd ev with ByExpiry _ => [e_tp (fst ev)] | _ => [] end) (o_evs o)).
    assert (hd = [] \/ exists a now, hd = [e_tp a] /\ In (a, ByExpiry now) (o_evs o)) as HD.
    { destruct (existsb (fun ev => match snd ev with ByExpiry _ => true | _ => false end) (o_evs o)) eqn:EX.
      - right. apply existsb_exists in EX. destruct EX as ([a h] & IE & Q). cbn [snd] in Q.
        destruct h as [now| | |]; try discriminate. exists a, now. split; [|exact IE].
        destruct (expiry_step s x s1 o I ES a now IE) as (_ & _ & EV & _). unfold hd. rewrite EV. reflexivity.
      - left. unfold hd. clear - EX. induction (o_evs o) as [|ev evs IHe]; [reflexivity|].
        cbn [existsb flat_map] in *. apply orb_false_iff in EX. destruct EX as [E1 E2]. rewrite (IHe E2).
        destruct (snd ev); try discriminate; reflexivity. }
    destruct HD as [->|(a & now & -> & IE)]; cbn [app].
    + split; [exact SS|]. intros tp IT. destruct (FROM tp IT) as (u & IU & EU). exists u. auto.
    + destruct (expiry_step s x s1 o I ES a now IE) as (_ & _ & _ & MIN & P).
      split.
      * constructor; [exact SS|]. apply Forall_forall. intros tp IT.
        destruct (FROM tp IT) as (u & IU & <-). apply MIN. apply SUB. exact IU.
      * intros tp [<-|IT].
        -- exists a. split; [|reflexivity]. apply (Permutation_in _ (Permutation_sym P)). left. reflexivity.
        -- destruct (FROM tp IT) as (u & IU & EU). exists u. auto.
Qed.

(* (deadline order, sequence) over any stretch of a history in which nothing new is scheduled — whatever
   get_expired / remove / cancel / destructor calls it contains, with any clock readings — the sleeps completed by
   expiry come out sorted by time point *)
Theorem deadline_sorted s ops os s' : reachable s -> forallb (fun x => negb (is_sched x)) ops = true ->
  run_from s ops = (os, Some s') -> StronglySorted Z.le (expiry_tps os).
Proof. intros R NS E. apply (nosched_run ops s os s' (reachable_inv s R) NS E). Qed.

(* (each once) promise ids are distinct; scheduled = completed ⊎ still pending; the final state of every completed
   future is the one its (single) completion event dictates; pending futures are pending *)
Theorem each_once ops os sf : run_from st0 ops = (os, Some sf) ->
  NoDup (ppids (sched_run ops os)) /\
  Permutation (sched_run ops os) (completed_run os ++ pending (sched sf)) /\
  (forall t h p, In (t, h) (events_run os) -> e_p t = Some p -> get (futs sf) p = Some (stat_of h)) /\
  (forall e p, In e (pending (sched sf)) -> e_p e = Some p -> get (futs sf) p = Some FPending) /\
  (alive sf = false -> Permutation (sched_run ops os) (completed_run os)).
Proof.
  intros E. pose proof (run_inv ops st0 os sf inv_st0 E) as IF.
  pose proof (run_conserves ops st0 os sf inv_st0 E) as C. cbn [st0 sched pending filter] in C. rewrite app_nil_r in C.
  split; [apply (run_fresh ops st0 os sf inv_st0 E)|]. split; [exact C|]. split; [|split].
  - apply (run_event_status ops st0 os sf inv_st0 E).
  - intros e p IE EP. apply (inv_pend sf IF). rewrite <- ppids_pending. apply In_ppids. eauto.
  - intros D. rewrite (inv_dead sf IF D) in C. cbn [pending filter] in C. rewrite app_nil_r in C. exact C.
Qed.

(* exactly once, spelled out on promise ids: after the destructor every accepted promise id occurs exactly once
   among the completion events *)
Corollary each_exactly_once ops os sf : run_from st0 ops = (os, Some sf) -> alive sf = false ->
  forall p, In p (ppids (sched_run ops os)) -> count_occ Nat.eq_dec (ppids (completed_run os)) p = 1%nat.
Proof.
  intros E D p IP. destruct (each_once ops os sf E) as (ND & _ & _ & _ & P). specialize (P D).
  apply ppids_perm in P.
  pose proof (proj1 (Permutation_count_occ Nat.eq_dec _ _) P p) as Q. rewrite <- Q.
  apply (proj1 (NoDup_count_occ' Nat.eq_dec _) ND p IP).
Qed.

(* (cancel exact) remove / cancel(id) / cancel(id, e) in a reachable live state *)
Definition cancel_exact_spec (s : st) (id : Z) (h : how) (s' : st) (o : out) : Prop :=
  (o_r1 o = 1 /\
   exists t p, o_evs o = [(t, h)] /\ In t (pending (sched s)) /\ e_id t = id /\ e_p t = Some p /\
               Permutation (pending (sched s)) (t :: pending (sched s')) /\
               get (futs s) p = Some FPending /\ get (futs s') p = Some (stat_of h) /\
               (forall q, q <> p -> get (futs s') q = get (futs s) q))
  \/
  (o_r1 o = 0 /\ o_evs o = [] /\ (forall u, In u (pending (sched s)) -> e_id u <> id) /\
   Permutation (pending (sched s)) (pending (sched s')) /\ futs s' = futs s).

Lemma cancel_exact_gen s id h : reachable s -> alive s = true ->
  exists s' o, do_remove s id h = Ok (s', o) /\ cancel_exact_spec s id h s' o /\
               (o_r1 o = 0 <-> forall u, In u (pending (sched s)) -> e_id u <> id).
Proof.
  intros R A. pose proof (reachable_inv s R) as I.
  destruct (do_remove_ok s id h I A) as (s' & o & E & I' & A' & SP & FE).
  exists s', o. split; [exact E|].
  destruct SP as [(t & -> & IT & EI & P)|(-> & NO & P)]; cbn [o_evs fold_left o_r1] in *.
  - assert (live t = true) as LT by (apply pending_In in IT; apply IT).
    destruct (proj1 (live_some t) LT) as [p EP].
    split.
    + left. split; [reflexivity|]. exists t, p. repeat split; auto.
      * apply (inv_pend s I). rewrite <- ppids_pending. apply In_ppids. eauto.
      * rewrite FE, (complete_live _ _ _ _ EP). apply get_put_same.
      * intros q Q. rewrite FE, (complete_live _ _ _ _ EP). apply get_put_other. congruence.
    + split; [discriminate|]. intros NO. exfalso. apply (NO t IT EI).
  - split.
    + right. auto.
    + split; auto.
Qed.

Theorem cancel_exact s id c : reachable s -> alive s = true ->
  exists s' o, step s (OCancelE id c) = Ok (s', o) /\ cancel_exact_spec s id (ByCancel c) s' o /\
               (o_r1 o = 0 <-> forall u, In u (pending (sched s)) -> e_id u <> id).
Proof. intros R A. unfold step. rewrite A. cbn [negb]. apply cancel_exact_gen; assumption. Qed.

Theorem cancel_default_exact s id : reachable s -> alive s = true ->
  exists s' o, step s (OCancel id) = Ok (s', o) /\ cancel_exact_spec s id (ByCancel 0) s' o /\
               (o_r1 o = 0 <-> forall u, In u (pending (sched s)) -> e_id u <> id).
Proof. intros R A. unfold step. rewrite A. cbn [negb]. apply cancel_exact_gen; assumption. Qed.

Theorem remove_exact s id : reachable s -> alive s = true ->
  exists s' o, step s (ORemove id) = Ok (s', o) /\ cancel_exact_spec s id ByRemove s' o /\
               (o_r1 o = 0 <-> forall u, In u (pending (sched s)) -> e_id u <> id).
Proof. intros R A. unfold step. rewrite A. cbn [negb]. apply cancel_exact_gen; assumption. Qed.

(* (destroy cancels) the destructor completes exactly the pending sleeps, each as "cancelled" (future ready without a
   value), touches no other future, and leaves nothing pending; the dead scheduler rejects every later call *)
Theorem destroy_cancels s : reachable s -> alive s = true ->
  exists s' o, step s ODestroy = Ok (s', o) /\
    sched s' = [] /\ alive s' = false /\
    o_evs o = map (fun e => (e, ByDestroy)) (pending (sched s)) /\
    (forall p, get (futs s) p = Some FPending -> get (futs s') p = Some FDropped) /\
    (forall p v, get (futs s) p = Some v -> v <> FPending -> get (futs s') p = Some v) /\
    (forall p, get (futs s') p <> Some FPending) /\
    (forall x, step s' x = Ok (s', rejected)).
Proof.
  intros R A. pose proof (reachable_inv s R) as I.
  destruct (step_ok s ODestroy I) as (s' & o & E & I' & FE & SP & _).
  specialize (SP A). cbn [spec_step futs_effect] in SP, FE. destruct SP as (-> & EP).
  exists s', (mkOut 0 0 0 (map (fun e => (e, ByDestroy)) (pending (sched s)))). split; [exact E|].
  assert (sched s' = [] /\ alive s' = false) as (S0 & A0).
  { unfold step in E. rewrite A in E. cbn [negb] in E. inversion E; subst. auto. }
  split; [exact S0|]. split; [exact A0|]. split; [reflexivity|].
  cbn [o_evs] in FE.
  split; [|split; [|split]].
  - intros p G. rewrite FE, fold_complete_destroy. rewrite ppids_pending.
    destruct (in_dec Nat.eq_dec p (ppids (sched s))) as [J|J]; [reflexivity|]. exfalso. apply J. apply (inv_pend s I). exact G.
  - intros p v G NP. apply (step_stable s ODestroy s' _ I E p v G NP).
  - intros p G. apply (inv_pend s' I') in G. rewrite S0 in G. destruct G.
  - intros x. unfold step. rewrite A0. reflexivity.
Qed.

(* ================================================================= *)
(* 7. the worker (worker_coro) under a virtual clock                 *)
(* ================================================================= *)

(* d is not later than ANY time point in the array (time_point::max only while the array is empty) *)
Definition bound_ok (l : list entry) (d : option Z) : Prop :=
  match d with
  | Some t => forall e, In e l -> t <= e_tp e
  | None => l = []
  end.

(* whenever the worker is blocked in (or about to enter) wait_until(d): a wake-up is pending, or d is such a bound *)
Definition wait_ok (w : wst) : Prop :=
  match w_mode w with
  | WWait d ntf => ntf = true \/ bound_ok (w_sched w) d
  | WDecided d => bound_ok (w_sched w) d
  | _ => True
  end.

(* with the stop-token-aware wait a requested stop never leaves the worker blocked *)
Definition stop_ok (aw : bool) (w : wst) : Prop :=
  aw = true -> w_stop w = true -> match w_mode w with WWait _ ntf => ntf = true | _ => True end.

Record winv (aw : bool) (w : wst) : Prop := mkWinv {
  wi_heap : heap_ok (w_sched w);
  wi_err : w_err w = false;
  wi_wait : wait_ok w;
  wi_done : forall t now, In (t, now) (w_done w) -> live t = true /\ e_tp t <= now /\ now <= w_now w;
  wi_cons : Permutation (w_in w) (map fst (w_done w) ++ w_rm w ++ pending (w_sched w));
  wi_stop : stop_ok aw w }.

Lemma winv0 aw : winv aw wst0.
Proof. split; cbn; auto using heap_ok_nil. - intros t now []. - intros _ H. discriminate. Qed.

Lemma perm_into_tail {A} (x : A) (l a b c : list A) :
  Permutation l (a ++ b ++ c) -> Permutation (x :: l) (a ++ b ++ x :: c).
Proof. intros P. rewrite app_assoc. apply Permutation_cons_app. rewrite <- app_assoc. exact P. Qed.

Lemma perm_tail_to_mid {A} (x : A) (l a b c c' : list A) :
  Permutation l (a ++ b ++ c) -> Permutation c (x :: c') -> Permutation l (a ++ (x :: b) ++ c').
Proof.
  intros P Q. rewrite P, Q. apply Permutation_app_head. cbn [app]. symmetry. apply Permutation_middle.
Qed.

Lemma perm_tail_to_head {A} (x : A) (l a b c c' : list A) :
  Permutation l (a ++ b ++ c) -> Permutation c (x :: c') -> Permutation l ((x :: a) ++ b ++ c').
Proof.
  intros P Q. rewrite P, Q. cbn [app]. rewrite app_assoc. rewrite <- Permutation_middle. rewrite <- app_assoc. reflexivity.
Qed.

Lemma wstep_inv aw w e : winv aw w -> winv aw (wstep aw w e).
Proof.
  intros I. pose proof I as [IH IE IW ID IC IS]. unfold wstep. rewrite IE.
  destruct e as [pid id tp|id|dt| | | |].
  - (* schedule from another thread *)
    destruct (lock_held w) eqn:LH; [exact I|].
    unfold schedule. set (en := mkE tp (Some pid) id).
    destruct (heap_push_ok (w_sched w) en IH) as (H1 & P1 & L1).
    set (l := heap_push (w_sched w) en) in *.
    remember (is_empty (w_sched w) || match w_sched w with t :: _ => e_tp en <? e_tp t | [] => true end)%bool as ntf eqn:NT.
    split; cbn [w_sched w_err w_mode w_done w_now w_in w_rm w_stop]; auto.
    + (* wait_ok *)
      unfold wait_ok in *. cbn [w_mode w_sched].
      destruct (w_mode w) as [|d|d n|] eqn:M; try (solve [destruct ntf; cbn [notify]; exact Logic.I]).
      * unfold lock_held in LH. rewrite M in LH. discriminate.
      * destruct ntf; cbn [notify].
        -- destruct n; [left; reflexivity|]. cbn [orb].
           destruct aw; [|left; reflexivity].
           destruct (wake_pred l d) eqn:WP; [left; reflexivity|right].
           destruct l as [|t' rest'] eqn:EL; [cbn [length] in L1; lia|].
           cbn [wake_pred] in WP. destruct d as [x|]; [|discriminate].
           intros u IU. pose proof (heap_top_min_in t' rest' u H1 IU). lia.
        -- destruct IW as [IW|IW]; [left; exact IW|right].
           symmetry in NT. destruct (w_sched w) as [|t rest] eqn:ES; [cbn in NT; discriminate|].
           cbn [is_empty orb] in NT.
           destruct d as [x|]; [|discriminate]. cbn [bound_ok] in *.
           intros u IU. apply (Permutation_in _ P1) in IU. destruct IU as [<-|IU]; [|apply IW; exact IU].
           specialize (IW t (or_introl eq_refl)). lia.
    + (* conservation *)
      apply perm_into_tail with (x := en) in IC.
      rewrite IC. apply Permutation_app_head. apply Permutation_app_head.
      rewrite <- (pending_cons_live en (w_sched w)) by reflexivity. symmetry. apply pending_perm. exact P1.
    + (* stop_ok *)
      intros AW ST. specialize (IS AW ST).
      destruct (w_mode w) as [|d|d n|]; destruct ntf; cbn [notify]; auto. subst n. reflexivity.
  - (* remove / cancel from another thread: never notifies, and does not need to *)
    destruct (lock_held w) eqn:LH; [exact I|].
    destruct (remove_ok (w_sched w) id IH) as (l' & r & E & H' & TS & EM & SP). rewrite E. cbn [fst snd].
    split; cbn [w_sched w_err w_mode w_done w_now w_in w_rm w_stop]; auto.
    + unfold wait_ok in *. cbn [w_mode w_sched].
      assert (forall d, bound_ok (w_sched w) d -> bound_ok l' d) as B.
      { intros [x|] Bd; cbn [bound_ok] in *; [|apply EM; exact Bd].
        intros u IU. destruct (TS u IU) as (u' & IU' & <-). apply Bd. exact IU'. }
      destruct (w_mode w) as [|d|d n|]; auto. destruct IW as [IW|IW]; [left; exact IW|right; apply B; exact IW].
    + destruct r as [t|]; cbn [remove_spec] in SP.
      * destruct SP as (_ & _ & P). apply (perm_tail_to_mid t _ _ _ _ _ IC P).
      * destruct SP as (P & _). rewrite IC. apply Permutation_app_head. apply Permutation_app_head. exact P.
  - (* clock *)
    split; cbn [w_sched w_err w_mode w_done w_now w_in w_rm w_stop]; auto.
    intros t now IT. destruct (ID t now IT) as (A & B & C). repeat split; auto. lia.
  - (* one worker iteration, up to its decision *)
    destruct (runnable w) eqn:RN; cbn [negb]; [|exact I].
    destruct (w_stop w) eqn:ST.
    { split; cbn [set_mode w_sched w_err w_mode w_done w_now w_in w_rm w_stop]; auto. constructor. intros _ _. constructor. }
    destruct (get_expired_ok (w_sched w) (w_now w) IH) as (l' & r & E & H' & SUB & SP). rewrite E.
    destruct r as [t|tp|]; cbn [expired_spec] in SP.
    + destruct SP as (LT & DUE & P & _). split; cbn [w_sched w_err w_mode w_done w_now w_in w_rm w_stop].
      * exact H'.
      * reflexivity.
      * exact Logic.I.
      * intros t0 now [Q|IT]; [inversion Q; subst; repeat split; auto; lia|apply ID; exact IT].
      * cbn [map fst]. apply (perm_tail_to_head t _ _ _ _ _ IC P).
      * intros _ Q. discriminate.
    + destruct SP as (_ & P & _ & MIN). split; cbn [w_sched w_err w_mode w_done w_now w_in w_rm w_stop].
      * exact H'.
      * reflexivity.
      * unfold wait_ok. cbn [w_mode w_sched bound_ok]. exact MIN.
      * exact ID.
      * rewrite IC. apply Permutation_app_head. apply Permutation_app_head. exact P.
      * intros _ Q. discriminate.
    + destruct SP as (-> & EP). split; cbn [w_sched w_err w_mode w_done w_now w_in w_rm w_stop].
      * exact H'.
      * reflexivity.
      * unfold wait_ok. cbn [w_mode w_sched bound_ok]. reflexivity.
      * exact ID.
      * rewrite IC, EP. reflexivity.
      * intros _ Q. discriminate.
  - (* entering the wait *)
    destruct (w_mode w) as [|d|d n|] eqn:M; try exact I.
    unfold wait_ok in IW. rewrite M in IW.
    destruct (aw && w_stop w)%bool eqn:AS.
    + split; cbn [set_mode w_sched w_err w_mode w_done w_now w_in w_rm w_stop]; auto. constructor. intros _ _. constructor.
    + split; cbn [set_mode w_sched w_err w_mode w_done w_now w_in w_rm w_stop]; auto.
      * unfold wait_ok. cbn [w_mode w_sched]. right. exact IW.
      * intros AW ST. cbn [set_mode w_stop] in ST. rewrite AW, ST in AS. discriminate.
  - (* spurious wake-up: the predicate is evaluated again *)
    split; cbn [set_mode w_sched w_err w_mode w_done w_now w_in w_rm w_stop]; auto.
    + unfold wait_ok in *. cbn [w_mode w_sched].
      destruct (w_mode w) as [|d|d n|]; cbn [notify]; auto.
      destruct IW as [->|IW]; [left; reflexivity|right; exact IW].
    + intros AW ST. specialize (IS AW ST). destruct (w_mode w) as [|d|d n|]; cbn [notify]; auto. subst n. reflexivity.
  - (* request_stop *)
    split; cbn [w_sched w_err w_mode w_done w_now w_in w_rm w_stop]; auto.
    + unfold wait_ok in *. cbn [w_mode w_sched]. destruct (w_mode w) as [|d|d n|]; auto.
    + intros _ _. destruct (w_mode w); cbn [w_mode]; auto.
Qed.

Lemma wrun_inv aw evs : forall w, winv aw w -> winv aw (wrun aw w evs).
Proof. induction evs as [|e t IH]; intros w I; cbn [wrun fold_left]; [exact I|]. apply IH. apply wstep_inv. exact I. Qed.

(* (idle wakes on time) for every interleaving of schedule / cancel calls from other threads, clock ticks, spurious
   wake-ups and stop requests, with either wait primitive: the worker never hits an out-of-bounds access; once the clock
   has reached the time point of any entry of the array, a worker that has not finished is runnable (after it has entered
   the wait it had decided on, if it was at that point); and what it completed was due when completed *)
Theorem idle_wakes_on_time aw evs : let w := wrun aw wst0 evs in
  w_err w = false /\
  (forall e, In e (w_sched w) -> e_tp e <= w_now w -> w_mode w <> WFin -> runnable (wstep aw w WBlock) = true) /\
  (forall t now, In (t, now) (w_done w) -> e_tp t <= now).
Proof.
  cbn zeta. pose proof (wrun_inv aw evs wst0 (winv0 aw)) as [IH IE IW ID IC IS].
  set (w := wrun aw wst0 evs) in *.
  split; [exact IE|]. split.
  - intros e IN DUE NF. unfold wstep. rewrite IE. unfold wait_ok in IW.
    destruct (w_mode w) as [|d|d n|] eqn:M.
    + unfold runnable. rewrite M. reflexivity.
    + destruct (aw && w_stop w)%bool; unfold runnable; cbn [set_mode w_mode w_now]; [reflexivity|].
      cbn [orb]. destruct d as [t|]; cbn [bound_ok] in IW; [specialize (IW e IN); lia|rewrite IW in IN; destruct IN].
    + unfold runnable. rewrite M. destruct IW as [->|IW]; [reflexivity|].
      apply orb_true_iff. right. destruct d as [t|]; cbn [bound_ok] in IW; [specialize (IW e IN); lia|rewrite IW in IN; destruct IN].
    + congruence.
  - intros t now IT. apply (ID t now IT).
Qed.

(* ... and when it runs with a due live entry in the array, that iteration completes a due entry with the least
   time point among the pending ones (it does not go back to sleep and does not pick a later one) *)
Theorem worker_resolves_due aw evs : let w := wrun aw wst0 evs in
  w_stop w = false -> runnable w = true ->
  (exists e, In e (pending (w_sched w)) /\ e_tp e <= w_now w) ->
  exists t, w_done (wstep aw w WIter) = (t, w_now w) :: w_done w /\ In t (pending (w_sched w)) /\
            (forall u, In u (pending (w_sched w)) -> e_tp t <= e_tp u) /\
            Permutation (pending (w_sched w)) (t :: pending (w_sched (wstep aw w WIter))).
Proof.
  cbn zeta. pose proof (wrun_inv aw evs wst0 (winv0 aw)) as [IH IE IW ID IC IS].
  set (w := wrun aw wst0 evs) in *. intros ST RN (e & IN & DUE).
  unfold wstep. rewrite IE, ST, RN. cbn [negb].
  destruct (get_expired_ok (w_sched w) (w_now w) IH) as (l' & r & E & H' & SUB & SP). rewrite E.
  destruct r as [t|tp|]; cbn [expired_spec] in SP.
  - destruct SP as (LT & DUE' & P & MIN). exists t. cbn [w_done w_sched]. repeat split; auto.
    apply (Permutation_in _ (Permutation_sym P)). left. reflexivity.
  - exfalso. destruct SP as (FUT & P & _ & MIN).
    apply (Permutation_in _ P) in IN. apply pending_In in IN. destruct IN as [IN _]. specialize (MIN e IN). lia.
  - exfalso. destruct SP as (_ & EP). rewrite EP in IN. destruct IN.
Qed.

(* (each once, worker) whatever the interleaving: every accepted sleep is, exactly once, either completed by the worker,
   or taken by a remove / cancel call, or still pending — nothing is lost, nothing is completed twice *)
Theorem worker_each_once aw evs : let w := wrun aw wst0 evs in
  Permutation (w_in w) (map fst (w_done w) ++ w_rm w ++ pending (w_sched w)).
Proof. cbn zeta. apply (wi_cons aw _ (wrun_inv aw evs wst0 (winv0 aw))). Qed.

(* (stop ends the worker) current code, any interleaving, the stop request landing in ANY window — also between the
   worker's decision to wait and the wait itself: once stop is requested the worker's own next steps leave the loop;
   ~scheduler, which waits for exactly that, returns *)
Theorem stop_ends_worker evs : let w := wrun true wst0 evs in
  w_stop w = true -> w_mode (wrun true w [WBlock; WIter]) = WFin.
Proof.
  cbn zeta. pose proof (wrun_inv true evs wst0 (winv0 true)) as [IH IE IW ID IC IS].
  set (w := wrun true wst0 evs) in *. intros ST. specialize (IS eq_refl ST).
  cbn [wrun fold_left]. clearbody w. clear - IE ST IS.
  destruct w as [l now m st dn er wi wr]. cbn [w_err w_stop w_mode] in *. subst er st.
  destruct m as [|d|d n|]; try subst n; reflexivity.
Qed.

(* (F-C12d as a theorem about the old wait primitive) with plain condition_variable::wait_until there is an
   interleaving — stop requested between the decision and the wait, on an empty heap — after which, however long the
   clock runs and however often the worker is given the processor, it never leaves the loop: ~scheduler hangs *)
Definition quiet (e : wev) : Prop := e = WIter \/ e = WBlock \/ exists dt, e = WTick dt.

Theorem lost_stop_old : let w := wrun false wst0 [WIter; WStop; WBlock] in
  w_stop w = true /\ forall evs, Forall quiet evs -> w_mode (wrun false w evs) = WWait None false.
Proof.
  cbn zeta. split; [reflexivity|].
  assert (forall evs w, w_err w = false -> w_mode w = WWait None false -> Forall quiet evs ->
                        w_mode (wrun false w evs) = WWait None false) as G.
  { induction evs as [|e t IHe]; intros w E M Q; cbn [wrun fold_left]; [exact M|].
    inversion Q as [|? ? QE QT]; subst.
    assert (w_err (wstep false w e) = false /\ w_mode (wstep false w e) = WWait None false) as (E' & M').
    { unfold wstep. rewrite E. destruct QE as [->|[->|(dt & ->)]].
      - unfold runnable. rewrite M. cbn [orb negb]. auto.
      - rewrite M. auto.
      - cbn [w_err w_mode]. auto. }
    apply (IHe _ E' M' QT). }
  intros evs Q. apply G; [reflexivity|reflexivity|exact Q].
Qed.

(* ================================================================= *)
(* 8. interval() generators + stop tokens on one scheduler           *)
(* ================================================================= *)

Definition iinv (s : ist) : Prop := i_owner s = false /\ heap_ok (i_sched s).

Lemma stop_callback_ok tg s g : iinv s ->
  exists s1, stop_callback false tg s g = IOk s1 [] /\ iinv s1 /\ i_stops s1 = i_stops s /\ i_clk s1 = i_clk s /\
    i_next s1 = i_next s /\
    exists l r, remove (i_sched s) (tg g) = Ok (l, r) /\ remove_spec (i_sched s) (tg g) l r /\ i_sched s1 = l /\
      i_gens s1 = match r with
                  | Some t => match e_p t with Some g' => set_nth (i_gens s) g' GDone | None => i_gens s end
                  | None => i_gens s
                  end.
Proof.
  intros [IO IH]. unfold stop_callback, acquire. rewrite IO. cbn [i_owner i_sched i_gens i_stops i_clk i_next].
  destruct (remove_ok (i_sched s) (tg g) IH) as (l & r & E & H' & _ & _ & SP). rewrite E.
  destruct r as [t|].
  - assert (live t = true) as LT by (cbn [remove_spec] in SP; apply SP).
    destruct (proj1 (live_some t) LT) as [g' EP]. rewrite EP.
    eexists. split; [reflexivity|]. cbn [i_owner i_sched i_gens i_stops i_clk i_next].
    split; [split; auto|]. repeat split; auto. exists l, (Some t). rewrite EP. auto.
  - eexists. split; [reflexivity|]. cbn [i_owner i_sched i_gens i_stops i_clk i_next].
    split; [split; auto|]. repeat split; auto. exists l, None. auto.
Qed.

Definition ob01 (ob : list Z) : Prop := exists t, ob = 0 :: t \/ ob = 1 :: t.

Lemma iobs01 s k : ob01 (iobs s k).
Proof. eexists. left. reflexivity. Qed.

Lemma one01 : ob01 [1].
Proof. eexists. right. reflexivity. Qed.

Lemma istep'_ok tg s x : iinv s -> exists s1 ob, istep' false tg s x = IOk s1 ob /\ iinv s1 /\ ob01 ob.
Proof.
  intros I. pose proof I as [IO IH].
  assert (forall g m, iinv (set_gen s g m)) as SG by (intros; split; assumption).
  assert (forall g tp n, iinv (mkI (fst (schedule (i_sched s) (mkE tp (Some g) (tg g)))) (set_nth (i_gens s) g GSleeping)
                                   (i_stops s) false n (i_next s)) /\
                         forall nx, iinv (mkI (fst (schedule (i_sched s) (mkE tp (Some g) (tg g)))) (set_nth (i_gens s) g GSleeping)
                                   (i_stops s) false n nx)) as SC.
  { intros. split; [|intros nx]; split; cbn [i_owner i_sched schedule fst]; auto; apply heap_push_ok; exact IH. }
  destruct x as [g|g|g| |]; cbn [istep'].
  - destruct (gen_of s g); eexists _, _; (split; [reflexivity|]); auto using iobs01, one01.
  - destruct (gen_of s g); try (eexists _, _; (split; [reflexivity|]); auto using iobs01, one01; fail).
    + destruct (stop_of s g).
      * destruct (stop_callback_ok tg s g I) as (s1 & E & I1 & _). rewrite E.
        eexists _, _. split; [reflexivity|]. split; [destruct I1; split; assumption|apply iobs01].
      * eexists _, _. split; [reflexivity|]. split; [apply SC|apply iobs01].
    + destruct (stop_of s g); eexists _, _; (split; [reflexivity|]); (split; [|apply iobs01]); [apply SG|apply SC].
  - destruct (stop_of s g); [eexists _, _; split; [reflexivity|]; auto using iobs01|].
    set (s0 := mkI (i_sched s) (i_gens s) (set_nth (i_stops s) g true) (i_owner s) (i_clk s) (i_next s)).
    assert (iinv s0) as I0 by (split; assumption).
    destruct (stop_callback_ok tg s0 g I0) as (s1 & E & I1 & _).
    destruct (gen_of s g); try (eexists _, _; (split; [reflexivity|]); auto using iobs01; fail).
    all: rewrite E; eexists _, _; (split; [reflexivity|]); auto using iobs01.
  - unfold acquire. rewrite IO. cbn [i_sched i_clk].
    destruct (get_expired_ok (i_sched s) (i_clk s) IH) as (l' & r & E & H' & _ & SP). rewrite E.
    destruct r as [t|tp|]; cbn [expired_spec] in SP.
    + destruct SP as (LT & _). destruct (proj1 (live_some t) LT) as [g' EP]. rewrite EP.
      eexists _, _. split; [reflexivity|]. split; [split; auto|apply iobs01].
    + eexists _, _. split; [reflexivity|]. split; [split; auto|apply iobs01].
    + eexists _, _. split; [reflexivity|]. split; [split; auto|apply iobs01].
  - eexists _, _. split; [reflexivity|]. auto using one01.
Qed.

(* (no hang, no crash through the stop tokens) whatever the sequence of generator calls, stop requests and get_expired
   calls on up to three generators — and whatever idents the generators use: every call returns (a stop callback never
   re-acquires a mutex its thread holds, remove never leaves the array) *)
Theorem interval_no_deadlock ops :
  length (interval_run ops) = length ops /\
  Forall (fun ob => exists t, ob = 0 :: t \/ ob = 1 :: t) (interval_run ops).
Proof.
  unfold interval_run. assert (iinv ist0) as I0 by (split; [reflexivity|apply heap_ok_nil]).
  revert I0. generalize ist0. induction ops as [|o t IH]; intros s I; cbn [irun_from].
  - split; [reflexivity|constructor].
  - unfold istep. destruct (istep'_ok tag s (decode_iop o) I) as (s1 & ob & E & I1 & SH). rewrite E.
    destruct (IH s1 I1) as (L & F). cbn [length]. split; [rewrite L; reflexivity|]. constructor; assumption.
Qed.

(* ---- a stop request cancels exactly the signalled generator's own pending sleep ---- *)

(* every pending sleep belongs to exactly one generator, which is asleep, and carries that generator's ident *)
Record ginv (tg : nat -> Z) (s : ist) : Prop := mkG {
  g_base : iinv s;
  g_own : forall t, In t (pending (i_sched s)) -> exists g, e_p t = Some g /\ e_id t = tg g /\ gen_of s g = GSleeping;
  g_nodup : NoDup (ppids (i_sched s));
  g_sleep : forall g, gen_of s g = GSleeping -> In g (ppids (i_sched s)) }.

Lemma gen_of_set s g x g' : gen_of (set_gen s g x) g' = if (Nat.eqb g g' && Nat.ltb g (length (i_gens s)))%bool then x else gen_of s g'.
Proof. unfold gen_of, set_gen. cbn [i_gens]. apply nth_set_nth. Qed.

Lemma nth_set_gens (l : list gstate) g x g' :
  nth g' (set_nth l g x) GNone = if (Nat.eqb g g' && Nat.ltb g (length l))%bool then x else nth g' l GNone.
Proof. apply nth_set_nth. Qed.

Lemma sleeping_lt s g : gen_of s g = GSleeping -> (g < length (i_gens s))%nat.
Proof.
  unfold gen_of. intros H. destruct (Nat.lt_ge_cases g (length (i_gens s))) as [L|L]; [exact L|].
  rewrite nth_overflow in H by exact L. discriminate.
Qed.

Lemma in_ppids_pending p l : In p (ppids l) -> exists t, In t (pending l) /\ e_p t = Some p.
Proof. rewrite <- ppids_pending. apply In_ppids. Qed.

(* removing the entry t (pid g0) from the pending set and moving generator g0 to a non-sleeping state x *)
Lemma ginv_take tg s l' t g0 x nx clk st :
  ginv tg s -> heap_ok l' -> e_p t = Some g0 -> Permutation (pending (i_sched s)) (t :: pending l') -> x <> GSleeping ->
  ginv tg (mkI l' (set_nth (i_gens s) g0 x) st false clk nx).
Proof.
  intros [[IO IH] OWN ND SL] H' EP P NX.
  pose proof (ppids_take _ _ _ _ EP P) as PP.
  assert (NoDup (g0 :: ppids l')) as ND' by (eapply Permutation_NoDup; eassumption).
  inversion ND' as [|? ? NI ND'']; subst.
  split; cbn [i_sched i_gens i_owner]; unfold gen_of; cbn [i_gens].
  - split; auto.
  - intros u IU.
    assert (In u (pending (i_sched s))) as IU' by (apply (Permutation_in _ (Permutation_sym P)); right; exact IU).
    destruct (OWN u IU') as (g & EG & EI & GS). exists g. split; [exact EG|]. split; [exact EI|].
    rewrite nth_set_gens. destruct (Nat.eqb_spec g0 g) as [->|N]; [|exact GS].
    exfalso. apply NI. rewrite <- ppids_pending. apply In_ppids. eauto.
  - exact ND''.
  - intros g GS. rewrite nth_set_gens in GS.
    destruct (Nat.eqb_spec g0 g) as [->|N]; cbn [andb] in GS.
    + destruct (Nat.ltb g (length (i_gens s))) eqn:L; [congruence|].
      apply Nat.ltb_ge in L. unfold gen_of in *. rewrite nth_overflow in GS by exact L. discriminate.
    + apply SL in GS. apply (Permutation_in _ PP) in GS. destruct GS as [Q|Q]; [congruence|exact Q].
Qed.

Lemma ginv_same tg s l' st clk nx :
  ginv tg s -> heap_ok l' -> Permutation (pending (i_sched s)) (pending l') ->
  ginv tg (mkI l' (i_gens s) st false clk nx).
Proof.
  intros [[IO IH] OWN ND SL] H' P.
  split; cbn [i_sched i_gens i_owner]; unfold gen_of; cbn [i_gens].
  - split; auto.
  - intros u IU. apply OWN. apply (Permutation_in _ (Permutation_sym P)). exact IU.
  - eapply Permutation_NoDup; [apply ppids_same; exact P|exact ND].
  - intros g GS. apply (Permutation_in _ (ppids_same _ _ P)). apply SL. exact GS.
Qed.

Lemma ginv_gen tg s g x : ginv tg s -> gen_of s g <> GSleeping -> x <> GSleeping -> ginv tg (set_gen s g x).
Proof.
  intros [[IO IH] OWN ND SL] NS NX.
  split; cbn [set_gen i_sched i_gens i_owner]; auto.
  - split; auto.
  - intros u IU. destruct (OWN u IU) as (g' & EG & EI & GS). exists g'. split; [exact EG|]. split; [exact EI|].
    rewrite gen_of_set. destruct (Nat.eqb_spec g g') as [->|N]; [congruence|exact GS].
  - intros g' GS. rewrite gen_of_set in GS. destruct (Nat.eqb_spec g g') as [->|N]; cbn [andb] in GS.
    + destruct (Nat.ltb g' (length (i_gens s))); [congruence|]. apply SL. exact GS.
    + apply SL. exact GS.
Qed.

Lemma ginv_stops tg s st : ginv tg s -> ginv tg (mkI (i_sched s) (i_gens s) st (i_owner s) (i_clk s) (i_next s)).
Proof. intros [[IO IH] OWN ND SL]. split; auto. split; auto. Qed.

Lemma ginv_sched tg s g tp clk nx : ginv tg s -> gen_of s g <> GSleeping -> (g < length (i_gens s))%nat ->
  ginv tg (mkI (fst (schedule (i_sched s) (mkE tp (Some g) (tg g)))) (set_nth (i_gens s) g GSleeping) (i_stops s) false clk nx).
Proof.
  intros [[IO IH] OWN ND SL] NS LT. cbn [schedule fst]. set (e := mkE tp (Some g) (tg g)).
  destruct (heap_push_ok (i_sched s) e IH) as (H1 & P1 & _).
  assert (Permutation (ppids (heap_push (i_sched s) e)) (g :: ppids (i_sched s))) as PP by (apply ppids_perm in P1; exact P1).
  assert (~ In g (ppids (i_sched s))) as NI.
  { intros Q. destruct (in_ppids_pending _ _ Q) as (u & IU & EU). destruct (OWN u IU) as (g' & EG & _ & GS). congruence. }
  apply Nat.ltb_lt in LT.
  split; cbn [i_sched i_gens i_owner]; unfold gen_of; cbn [i_gens].
  - split; auto.
  - intros u IU. apply (Permutation_in _ (pending_perm _ _ P1)) in IU.
    rewrite (pending_cons_live e) in IU by reflexivity. destruct IU as [<-|IU].
    + exists g. cbn [e_p e_id e]. split; [reflexivity|]. split; [reflexivity|].
      rewrite nth_set_gens, Nat.eqb_refl, LT. reflexivity.
    + destruct (OWN u IU) as (g' & EG & EI & GS). exists g'. split; [exact EG|]. split; [exact EI|].
      rewrite nth_set_gens. destruct (Nat.eqb_spec g g') as [->|N]; [rewrite LT; reflexivity|exact GS].
  - eapply Permutation_NoDup; [symmetry; exact PP|]. constructor; assumption.
  - intros g' GS. apply (Permutation_in _ (Permutation_sym PP)). rewrite nth_set_gens in GS.
    destruct (Nat.eqb_spec g g') as [->|N]; [left; reflexivity|right; apply SL; exact GS].
Qed.

(* what generator g's stop callback does when idents are pairwise distinct *)
Lemma stop_callback_own tg s g : (forall a b, tg a = tg b -> a = b) -> ginv tg s ->
  exists s1, stop_callback false tg s g = IOk s1 [] /\ ginv tg s1 /\ i_stops s1 = i_stops s /\
    (gen_of s g = GSleeping ->
       exists t, In t (pending (i_sched s)) /\ e_p t = Some g /\ e_id t = tg g /\
                 Permutation (pending (i_sched s)) (t :: pending (i_sched s1)) /\ gen_of s1 g = GDone) /\
    (gen_of s g <> GSleeping -> Permutation (pending (i_sched s)) (pending (i_sched s1)) /\ i_gens s1 = i_gens s) /\
    (forall g', g' <> g -> gen_of s1 g' = gen_of s g').
Proof.
  intros INJ G. pose proof G as [I OWN ND SL].
  destruct (stop_callback_ok tg s g I) as (s1 & E & I1 & ES & EC & EN & l & r & ER & SP & EL & EG).
  exists s1. split; [exact E|].
  assert (s1 = mkI l (i_gens s1) (i_stops s) false (i_clk s) (i_next s)) as SH.
  { destruct s1 as [a b c d e f]. cbn [i_sched i_stops i_clk i_next i_gens] in *. destruct I1 as [IO1 _]. cbn [i_owner] in IO1. subst. reflexivity. }
  destruct r as [t|]; cbn [remove_spec] in SP.
  - destruct SP as (LT & EI & P).
    assert (In t (pending (i_sched s))) as IT by (apply (Permutation_in _ (Permutation_sym P)); left; reflexivity).
    destruct (OWN t IT) as (g2 & EP & EI2 & GS2). assert (g2 = g) by (apply INJ; congruence). subst g2.
    rewrite EP in EG.
    assert (ginv tg s1) as G1.
    { rewrite SH, EG. apply (ginv_take tg s l t g GDone); auto. destruct I1 as [_ H1]. rewrite EL in H1. exact H1. discriminate. }
    split; [exact G1|]. split; [exact ES|]. split; [|split].
    + intros _. exists t. rewrite EL. repeat split; auto.
      unfold gen_of. rewrite EG, nth_set_gens, Nat.eqb_refl. pose proof (sleeping_lt s g GS2) as L. apply Nat.ltb_lt in L. rewrite L. reflexivity.
    + intros NS. congruence.
    + intros g' N. unfold gen_of. rewrite EG, nth_set_gens. destruct (Nat.eqb_spec g g'); [congruence|reflexivity].
  - destruct SP as (P & NO).
    assert (gen_of s g <> GSleeping) as NS.
    { intros GS. apply SL in GS. destruct (in_ppids_pending _ _ GS) as (u & IU & EU).
      destruct (OWN u IU) as (g2 & EP & EI2 & _). assert (g2 = g) by congruence. subst g2. apply (NO u IU EI2). }
    assert (ginv tg s1) as G1.
    { rewrite SH, EG. apply ginv_same; auto. destruct I1 as [_ H1]. rewrite EL in H1. exact H1. }
    split; [exact G1|]. split; [exact ES|]. split; [intros GS; contradiction|]. split.
    + intros _. rewrite EL. auto.
    + intros g' _. unfold gen_of. rewrite EG. reflexivity.
Qed.

Lemma istep'_ginv tg s x : (forall a b, tg a = tg b -> a = b) -> ginv tg s ->
  exists s1 ob, istep' false tg s x = IOk s1 ob /\ ginv tg s1.
Proof.
  intros INJ G. pose proof G as [I OWN ND SL]. pose proof I as [IO IH].
  destruct x as [g|g|g| |]; cbn [istep'].
  - destruct (gen_of s g) eqn:GG; try (eexists _, _; (split; [reflexivity|]); exact G).
    eexists _, _. split; [reflexivity|]. apply ginv_gen; [exact G|congruence|discriminate].
  - destruct (gen_of s g) eqn:GG; try (eexists _, _; (split; [reflexivity|]); exact G).
    + assert (g < length (i_gens s))%nat as LT.
      { unfold gen_of in GG. destruct (Nat.lt_ge_cases g (length (i_gens s))) as [L|L]; [exact L|]. rewrite nth_overflow in GG by exact L. discriminate. }
      destruct (stop_of s g).
      * destruct (stop_callback_own tg s g INJ G) as (s1 & E & G1 & _ & _ & NSL & OTH). rewrite E.
        eexists _, _. split; [reflexivity|]. apply ginv_gen; [exact G1| |discriminate].
        assert (gen_of s g <> GSleeping) as NS by congruence. destruct (NSL NS) as (_ & EG). unfold gen_of. rewrite EG. exact NS.
      * eexists _, _. split; [reflexivity|]. apply ginv_sched; [exact G|congruence|exact LT].
    + assert (g < length (i_gens s))%nat as LT.
      { unfold gen_of in GG. destruct (Nat.lt_ge_cases g (length (i_gens s))) as [L|L]; [exact L|]. rewrite nth_overflow in GG by exact L. discriminate. }
      destruct (stop_of s g); eexists _, _; (split; [reflexivity|]).
      * apply ginv_gen; [exact G|congruence|discriminate].
      * apply ginv_sched; [exact G|congruence|exact LT].
  - destruct (stop_of s g); [eexists _, _; split; [reflexivity|exact G]|].
    set (s0 := mkI (i_sched s) (i_gens s) (set_nth (i_stops s) g true) (i_owner s) (i_clk s) (i_next s)).
    assert (ginv tg s0) as G0 by (apply ginv_stops; exact G).
    destruct (stop_callback_own tg s0 g INJ G0) as (s1 & E & G1 & _).
    destruct (gen_of s g); try (eexists _, _; (split; [reflexivity|]); exact G0).
    all: rewrite E; eexists _, _; (split; [reflexivity|]); exact G1.
  - unfold acquire. rewrite IO. cbn [i_sched i_clk].
    destruct (get_expired_ok (i_sched s) (i_clk s) IH) as (l' & r & E & H' & _ & SP). rewrite E.
    destruct r as [t|tp|]; cbn [expired_spec] in SP.
    + destruct SP as (LT & _ & P & _). destruct (proj1 (live_some t) LT) as [g' EP]. rewrite EP.
      eexists _, _. split; [reflexivity|]. apply (ginv_take tg s l' t g' GYielded); auto. discriminate.
    + destruct SP as (_ & P & _). eexists _, _. split; [reflexivity|]. apply ginv_same; auto.
    + destruct SP as (-> & EP). eexists _, _. split; [reflexivity|]. apply ginv_same; auto using heap_ok_nil. rewrite EP. reflexivity.
  - eexists _, _. split; [reflexivity|exact G].
Qed.

(* the state the interval scenario is in after a list of operations *)
Fixpoint istate (tg : nat -> Z) (s : ist) (ops : list (list Z)) : ist :=
  match ops with
  | [] => s
  | o :: t => match istep false tg s o with IOk s1 _ => istate tg s1 t | _ => s end
  end.

Lemma ginv0 tg : ginv tg ist0.
Proof.
  split; cbn; auto.
  - split; [reflexivity|apply heap_ok_nil].
  - intros t [].
  - constructor.
  - intros g GS. unfold gen_of in GS. destruct g as [|[|[|[|g]]]]; cbn in GS; discriminate.
Qed.

Lemma istate_ginv tg ops : (forall a b, tg a = tg b -> a = b) -> forall s, ginv tg s -> ginv tg (istate tg s ops).
Proof.
  intros INJ. induction ops as [|o t IH]; intros s G; cbn [istate]; [exact G|].
  unfold istep. destruct (istep'_ginv tg s (decode_iop o) INJ G) as (s1 & ob & E & G1). rewrite E. apply IH. exact G1.
Qed.

(* (cancellation through a stop token, N generators) distinct idents => after ANY sequence of operations on up to three
   generators, request_stop() on generator g's source returns and
     - if g is asleep: exactly ITS pending sleep (the entry whose promise belongs to g) is cancelled and g finishes;
     - otherwise the pending set is unchanged and g keeps its state;
     - every other generator keeps its state and its stop flag, and every other pending sleep stays pending. *)
Theorem interval_stop_hits_own tg ops g : (forall a b, tg a = tg b -> a = b) ->
  let s := istate tg ist0 ops in
  stop_of s g = false ->
  exists s1 ob, istep' false tg s (IStop g) = IOk s1 ob /\
    (gen_of s g = GSleeping ->
       exists t, In t (pending (i_sched s)) /\ e_p t = Some g /\ e_id t = tg g /\
                 Permutation (pending (i_sched s)) (t :: pending (i_sched s1)) /\ gen_of s1 g = GDone) /\
    (gen_of s g <> GSleeping -> Permutation (pending (i_sched s)) (pending (i_sched s1)) /\ gen_of s1 g = gen_of s g) /\
    (forall g', g' <> g -> gen_of s1 g' = gen_of s g' /\ stop_of s1 g' = stop_of s g').
Proof.
  intros INJ. cbn zeta. pose proof (istate_ginv tg ops INJ ist0 (ginv0 tg)) as G.
  set (s := istate tg ist0 ops) in *. intros ST. cbn [istep']. rewrite ST.
  set (s0 := mkI (i_sched s) (i_gens s) (set_nth (i_stops s) g true) (i_owner s) (i_clk s) (i_next s)).
  assert (ginv tg s0) as G0 by (apply ginv_stops; exact G).
  assert (forall g', g' <> g -> nth g' (set_nth (i_stops s) g true) false = stop_of s g') as STO.
  { intros g' N. unfold stop_of. rewrite nth_set_nth. destruct (Nat.eqb_spec g g'); [congruence|reflexivity]. }
  destruct (stop_callback_own tg s0 g INJ G0) as (s1 & E & G1 & ES & SLP & NSL & OTH).
  change (gen_of s0 g) with (gen_of s g) in *. change (i_sched s0) with (i_sched s) in *.
  destruct (gen_of s g) eqn:GG.
  1,2,5: eexists _, _; (split; [reflexivity|]); (split; [discriminate|]);
    (split; [intros _; cbn [i_sched]; split; [reflexivity|unfold gen_of; cbn [i_gens]; exact GG]|]);
    intros g' N; split; [reflexivity|unfold stop_of at 1; cbn [i_stops]; apply STO; exact N].
  - rewrite E. eexists _, _. split; [reflexivity|]. split; [intros _; apply SLP; reflexivity|].
    split; [intros Q; congruence|].
    intros g' N. split; [apply (OTH g' N)|]. unfold stop_of at 1. rewrite ES. cbn [i_stops s0]. apply STO. exact N.
  - rewrite E. eexists _, _. split; [reflexivity|]. split; [discriminate|].
    assert (GYielded <> GSleeping) as NS by discriminate.
    destruct (NSL NS) as (P & EG).
    split; [intros _; split; [exact P|unfold gen_of; rewrite EG; exact GG]|].
    intros g' N. split; [apply (OTH g' N)|]. unfold stop_of at 1. rewrite ES. cbn [i_stops s0]. apply STO. exact N.
Qed.

Lemma tag_inj a b : tag a = tag b -> a = b.
Proof. unfold tag. lia. Qed.

(* the code's idents (&tag of each generator's own frame) are distinct *)
Corollary interval_stop_cancels ops g : let s := istate tag ist0 ops in
  stop_of s g = false ->
  exists s1 ob, istep' false tag s (IStop g) = IOk s1 ob /\
    (gen_of s g = GSleeping ->
       exists t, In t (pending (i_sched s)) /\ e_p t = Some g /\ e_id t = tag g /\
                 Permutation (pending (i_sched s)) (t :: pending (i_sched s1)) /\ gen_of s1 g = GDone) /\
    (gen_of s g <> GSleeping -> Permutation (pending (i_sched s)) (pending (i_sched s1)) /\ gen_of s1 g = gen_of s g) /\
    (forall g', g' <> g -> gen_of s1 g' = gen_of s g' /\ stop_of s1 g' = stop_of s g').
Proof. apply interval_stop_hits_own. exact tag_inj. Qed.
