(* Regress_C10.v — regression witness for the defect repaired by /repo commit fa14f83 ("limited_queue::push stored a
   blocked item twice").  The push below is the transcription of the code BEFORE the fix: the item was emplaced into the
   queue first and, if the size then reached the limit, stored a second time with the blocked promise.  With everything
   else unchanged, conservation (Properties_C10.c10_conservation_order) and "immediate iff fewer than limit items are
   waiting" are refuted by computation.  Not part of the property obligations; kept so that the old behaviour stays
   documented and the theorem statements are seen to exclude it. *)
From Cocls Require Import Base BaseProofs QueueDefs QueueProofs.
Local Open Scope Z_scope.

Definition lq_push_old (q : lqueue) (v : Z) : lqueue * nat :=
  let f := length (l_pfuts q) in
  match l_waiters q with
  | p :: w =>
      (mkLQ (l_items q) w (l_blocked q) (l_limit q) (set_nth (l_futs q) p (FValue v))
            (l_pfuts q ++ [FValue 0]) (l_alive q), f)
  | [] =>
      let items1 := l_items q ++ [v] in                                  (* old line 283: emplace first *)
      if zlen items1 >=? l_limit q                                      (* old line 284 *)
      then (mkLQ items1 [] (l_blocked q ++ [(v, f)]) (l_limit q) (l_futs q) (l_pfuts q ++ [FPending]) (l_alive q), f)
      else (mkLQ items1 [] (l_blocked q) (l_limit q) (l_futs q) (l_pfuts q ++ [FValue 0]) (l_alive q), f)
  end.

Definition lq_step_old (q : lqueue) (x : lop) : lqueue :=
  match x with
  | LPush v => fst (lq_push_old q v)
  | _ => fst (lq_step_on q x)
  end.
Definition lq_exec_old (q : lqueue) (l : list lop) : lqueue := fold_left lq_step_old l q.

(* limit 2: push 1, push 2, pop, pop, pop delivers 1, 2, 2 — item 2 twice *)
Theorem old_push_duplicates :
  let ops := [LPush 1; LPush 2; LPop; LPop; LPop] in
  let q := lq_exec_old (lq_new 2) ops in
  delivered (l_futs q) = [1; 2; 2] /\
  kept (l_pushed_vals ops) (l_pfuts q) <> delivered (l_futs q) ++ l_items q ++ map fst (l_blocked q).
Proof. vm_compute. split; [reflexivity|discriminate]. Qed.
Print Assumptions old_push_duplicates.

(* limit 2: the second push is left pending although only one item was waiting *)
Theorem old_push_blocks_early :
  let q := lq_exec_old (lq_new 2) [LPush 1; LPush 2] in
  fget (l_pfuts q) 1 = FPending /\ zlen (l_items (lq_exec_old (lq_new 2) [LPush 1])) = 1.
Proof. vm_compute. split; reflexivity. Qed.
Print Assumptions old_push_blocks_early.

(* the repaired transcription on the same histories *)
Example repaired_same_history :
  let ops := [LPush 1; LPush 2; LPop; LPop; LPop] in
  let q := lq_reach 2 ops in
  delivered (l_futs q) = [1; 2] /\ fget (l_pfuts (lq_reach 2 [LPush 1; LPush 2])) 1 = FValue 0.
Proof. vm_compute. split; reflexivity. Qed.
