(* CellDefs.v — interleaving model of one future/promise cell (future.h, awaiter.h):
   promise::claim / set / resolve / ~promise against waiters of every kind.
   One model step = the code between two COCLS_VERIF_POINT hooks (one atomic operation on
   shared state plus the thread-private code that follows it).  Model only, no proofs. *)
From Cocls Require Import Base.
Local Open Scope Z_scope.

Inductive outcome := ONone | OVal (v : Z) | OExc (e : Z).
(* the awaiter slot: a LIFO chain of waiter ids (head first) or the `disabled` (= ready) marker *)
Inductive slotv := SChain (l : list nat) | SReady.

(* resolver kinds: promise(v) / promise(exception) / promise(drop) / move-then-destroy / ~promise of the shared object /
   completion of an async<T> coroutine started with async::start(promise&): `co_return v` resp. a thrown exception
   (async.h:142-150 start_promise claims, :240-245 return_value/unhandled_exception set the payload,
   :217-230 final_awaiter resolves, destroys the frame, then transfers to the collected coroutines) *)
Inductive rkind := KVal (v : Z) | KExc (e : Z) | KDrop | KMove | KDtor | KAsyncV (v : Z) | KAsyncE (e : Z)
                  | KCoVal (v : Z).   (* a coroutine doing `co_await promise(v)`: suspend_point::await_suspend pops one handle
                                         for symmetric transfer and queues the rest (suspend_point.h:110-133) *)
(* waiter kinds: coroutine `co_await f` / thread in f.sync()+value() (= wait()) / callback awaiter (await_suspend(fn,ctx)) /
   thread in `bool(f.has_value())` / coroutine `co_await f.has_value()` (future.h:470-480 awaitable_bool) *)
Inductive wkind := WCoro | WBlock | WCallback | WHasValue | WCoroHas.

(* ghost access log of the awaiter nodes (C02): the walker reads / clears a node's _next and calls its resume();
   EFree w = the storage of w's awaiter is released (stack sync_awaiter leaves scope, coroutine temporary dies,
   the callback context deletes itself); EFrame r = the async resolver's coroutine frame is destroyed, r = the
   future was ready at that moment *)
Inductive ev := ENext (w : nat) | EClear (w : nat) | EResume (w : nat) | EFree (w : nat) | EFrame (rdy : bool).

Inductive rpc :=
| RClaim                       (* at "claim": exchange of promise::_owner *)
| RXWait                       (* destructor of the shared promise: runs after every call on it returned *)
| RDtor (priv : option bool)   (* at "dtor": ~promise loads _owner (Some b: a private moved-to copy) *)
| RResolve                     (* at "resolve": exchange of the slot with the ready marker *)
| RWalk                        (* at "walk": next node of the detached chain *)
| RDone (res : bool).

Inductive wpc :=
| WPre                         (* has_value(): first ready() test *)
| WReady                       (* at "ready": await_ready *)
| WSub (retry : bool) (exp : option nat)   (* at "sub"/"sub_retry": CAS attempt with expected head exp *)
| WParked                      (* subscribed coroutine / callback: its thread has returned *)
| WFlag                        (* subscribed blocking thread: waits for sync_awaiter::flag *)
| WDone (seen : outcome)
| WStart.                      (* harness point "wstart": the waiter has not begun its operation yet *)

Inductive thr := TR (k : rkind) (pc : rpc) | TW (k : wkind) (pc : wpc) (flag : bool).

Record st := mkSt {
  owner : bool;            (* promise::_owner != nullptr *)
  slot : slotv;
  payload : outcome;       (* future::_state + union *)
  walk : list nat;         (* winner-private: rest of the detached chain *)
  acc : list nat;          (* winner-private: coroutine handles collected in the suspend point *)
  thrs : list thr;
  (* ghost history, not read by any step *)
  winner : option nat;
  sublog : list nat;                 (* successful subscriptions *)
  wlog : list (nat * outcome);       (* releases: waiter, payload visible at that moment *)
  elog : list ev                     (* node accesses / releases / frees in program order of the steps *)
}.

Definition set_thr (s : st) (i : nat) (t : thr) : st :=
  mkSt (owner s) (slot s) (payload s) (walk s) (acc s) (set_nth (thrs s) i t) (winner s) (sublog s) (wlog s) (elog s).

Definition is_coro (k : wkind) : bool := match k with WCoro | WCoroHas => true | _ => false end.
Definition is_async (k : rkind) : bool := match k with KAsyncV _ | KAsyncE _ => true | _ => false end.
(* resolvers that take one collected handle by suspend_point::pop() *)
Definition pops (k : rkind) : bool := match k with KAsyncV _ | KAsyncE _ | KCoVal _ => true | _ => false end.
Definition slot_ready (s : st) : bool := match slot s with SReady => true | _ => false end.

Definition head (l : list nat) : option nat := match l with [] => None | x :: _ => Some x end.
Definition onat_eqb (a b : option nat) : bool :=
  match a, b with None, None => true | Some x, Some y => Nat.eqb x y | _, _ => false end.

Definition is_rdone (t : thr) : bool := match t with TR _ (RDone _) => true | TW _ _ _ => true | _ => false end.
(* all resolvers except index i have returned *)
Fixpoint others_done (l : list thr) (i : nat) (n : nat) : bool :=
  match l with
  | [] => true
  | t :: r => (Nat.eqb n i || is_rdone t) && others_done r i (S n)
  end.

Definition enabled (s : st) (i : nat) : bool :=
  match nth_error (thrs s) i with
  | Some (TR _ (RDone _)) => false
  | Some (TR _ RXWait) => others_done (thrs s) i 0
  | Some (TR _ _) => true
  | Some (TW _ WParked _) => false
  | Some (TW _ (WDone _) _) => false
  | Some (TW _ WFlag f) => f
  | Some (TW _ _ _) => true
  | None => false
  end.

Definition payload_of (k : rkind) (old : outcome) : outcome :=
  match k with KVal v => OVal v | KExc e => OExc e | KAsyncV v => OVal v | KAsyncE e => OExc e | KCoVal v => OVal v | _ => old end.

(* release one parked waiter w (resolver side), awaiter.h:104-110: y = chain; chain = y->_next; y->_next = nullptr;
   ret << y->resume().  Coroutine handles are collected in the suspend point, the others run now:
   the callback runs (and, in the harness scenario, deletes its own context incl. the awaiter),
   sync_awaiter::wakeup sets the flag (awaiter.h:276-279) *)
Definition release_node (s : st) (w : nat) : st :=
  let lg := elog s ++ [ENext w; EClear w; EResume w] in
  match nth_error (thrs s) w with
  | Some (TW WCoro pc f) =>
      mkSt (owner s) (slot s) (payload s) (walk s) (acc s ++ [w]) (thrs s) (winner s) (sublog s) (wlog s) lg
  | Some (TW WCoroHas pc f) =>
      mkSt (owner s) (slot s) (payload s) (walk s) (acc s ++ [w]) (thrs s) (winner s) (sublog s) (wlog s) lg
  | Some (TW WCallback pc f) =>
      mkSt (owner s) (slot s) (payload s) (walk s) (acc s) (set_nth (thrs s) w (TW WCallback (WDone (payload s)) f))
           (winner s) (sublog s) (wlog s ++ [(w, payload s)]) (lg ++ [EFree w])
  | Some (TW k pc f) =>   (* sync_awaiter: set the flag *)
      mkSt (owner s) (slot s) (payload s) (walk s) (acc s) (set_nth (thrs s) w (TW k pc true))
           (winner s) (sublog s) (wlog s ++ [(w, payload s)]) lg
  | _ => s
  end.

(* the collected coroutines run, in the given order; each reads the result (await_resume) and its awaiter dies *)
Fixpoint resume_all (s : st) (l : list nat) : st :=
  match l with
  | [] => s
  | c :: t =>
      let s1 := match nth_error (thrs s) c with
                | Some (TW k pc f) =>
                    mkSt (owner s) (slot s) (payload s) (walk s) (acc s)
                         (set_nth (thrs s) c (TW k (WDone (payload s)) f)) (winner s) (sublog s)
                         (wlog s ++ [(c, payload s)]) (elog s ++ [EFree c])
                | _ => s
                end in
      resume_all s1 t
  end.

(* order in which the collected handles h1..hn run.  A plain resolver discards the suspend point: suspend_now
   resumes h1..hn in order (suspend_point.h:80-95).  The async final_awaiter does `return sp.pop()` (async.h:229):
   hn is resumed by symmetric transfer, ~suspend_point queues h1..h(n-1) which run afterwards. *)
Definition rot_last (l : list nat) : list nat := match rev l with [] => [] | x :: r => x :: rev r end.

Definition finish (s : st) (i : nat) (k : rkind) : st :=
  let s0 := if is_async k
            then mkSt (owner s) (slot s) (payload s) (walk s) (acc s) (thrs s) (winner s) (sublog s) (wlog s)
                      (elog s ++ [EFrame (slot_ready s)])     (* me.destroy(), async.h:227 *)
            else s in
  let s1 := resume_all s0 (if pops k then rot_last (acc s) else acc s) in
  set_thr (mkSt (owner s1) (slot s1) (payload s1) (walk s1) [] (thrs s1) (winner s1) (sublog s1) (wlog s1) (elog s1))
          i (TR k (RDone true)).

(* one step of thread i; returns the new state and the code of the point the thread was pending at *)
Definition tstep (s : st) (i : nat) : st * Z :=
  match nth_error (thrs s) i with
  | Some (TR k RClaim) =>
      if owner s then
        (set_thr (mkSt false (slot s) (payload_of k (payload s)) (walk s) (acc s) (thrs s) (Some i) (sublog s) (wlog s) (elog s))
                 i (TR k (match k with KMove => RDtor (Some true) | _ => RResolve end)), 1)
      else (set_thr s i (TR k (match k with KMove => RDtor (Some false) | _ => RDone false end)), 1)
  | Some (TR k RXWait) => (set_thr s i (TR k (RDtor None)), 9)
  | Some (TR k (RDtor (Some b))) => (set_thr s i (TR k (if b then RResolve else RDone false)), 2)
  | Some (TR k (RDtor None)) =>
      if owner s then
        (* only a KDtor thread ever reaches this pc, and payload_of KDtor is the identity *)
        (set_thr (mkSt false (slot s) (payload_of k (payload s)) (walk s) (acc s) (thrs s) (Some i) (sublog s) (wlog s) (elog s)) i (TR k RResolve), 2)
      else (set_thr s i (TR k (RDone false)), 2)
  | Some (TR k RResolve) =>
      let l := match slot s with SChain l => l | SReady => [] end in
      let s1 := mkSt (owner s) SReady (payload s) l (acc s) (thrs s) (winner s) (sublog s) (wlog s) (elog s) in
      (match l with [] => finish s1 i k | _ => set_thr s1 i (TR k RWalk) end, 3)
  | Some (TR k RWalk) =>
      match walk s with
      | [] => (finish s i k, 4)
      | w :: t =>
          let s1 := release_node (mkSt (owner s) (slot s) (payload s) t (acc s) (thrs s) (winner s) (sublog s) (wlog s) (elog s)) w in
          (match t with [] => finish s1 i k | _ => s1 end, 4)
      end
  | Some (TR k (RDone _)) => (s, 0)
  | Some (TW k WStart f) =>
      (set_thr s i (TW k (match k with WHasValue => WPre | _ => WReady end) f), 13)
  | Some (TW k WPre f) =>
      (match slot s with
       | SReady => set_thr s i (TW k (WDone (payload s)) f)
       | _ => set_thr s i (TW k WReady f)
       end, 5)
  | Some (TW k WReady f) =>
      (match slot s with
       | SReady => set_thr s i (TW k (WDone (payload s)) f)
       | _ => set_thr s i (TW k (WSub false None) f)
       end, 5)
  | Some (TW k (WSub r e) f) =>
      (match slot s with
       | SReady => set_thr s i (TW k (WDone (payload s)) f)
       | SChain l =>
           if onat_eqb (head l) e then
             set_thr (mkSt (owner s) (SChain (i :: l)) (payload s) (walk s) (acc s) (thrs s) (winner s)
                           (sublog s ++ [i]) (wlog s) (elog s))
                     i (TW k (match k with WCoro | WCallback | WCoroHas => WParked | _ => WFlag end) f)
           else set_thr s i (TW k (WSub true (head l)) f)
       end, if r then 7 else 6)
  | Some (TW k WFlag f) =>   (* flag.wait returned; sync() returns and the stack sync_awaiter dies (awaiter.h:320-325) *)
      (set_thr (mkSt (owner s) (slot s) (payload s) (walk s) (acc s) (thrs s) (winner s) (sublog s) (wlog s) (elog s ++ [EFree i]))
               i (TW k (WDone (payload s)) f), 8)
  | Some (TW k WParked f) => (s, 0)
  | Some (TW k (WDone _) f) => (s, 0)
  | None => (s, 0)
  end.

Fixpoint enabled_list (s : st) (n : nat) (from : nat) : list nat :=
  match n with
  | O => []
  | S m => (if enabled s from then [from] else []) ++ enabled_list s m (S from)
  end.
Definition all_enabled (s : st) : list nat := enabled_list s (length (thrs s)) 0.

(* run a schedule: choice k picks the (k mod |enabled|)-th enabled thread; an exhausted schedule continues with 0 *)
Fixpoint run_sched (fuel : nat) (s : st) (sched : list Z) (tr : list (nat * Z)) : st * list (nat * Z) :=
  match fuel with
  | O => (s, tr)
  | S f =>
      match all_enabled s with
      | [] => (s, tr)
      | en =>
          let k := match sched with [] => 0 | x :: _ => Z.abs x end in
          let i := nth (Z.to_nat (k mod zlen en)) en 0%nat in
          let '(s1, p) := tstep s i in
          run_sched f s1 (tl sched) (tr ++ [(i, p)])
      end
  end.

(* ---------- wire ---------- *)
Definition decode_thr (l : list Z) : list thr :=
  match l with
  | [1; 0; v] => [TR (KVal v) RClaim]
  | [1; 1; e] => [TR (KExc e) RClaim]
  | [1; 2; _] => [TR KDrop RClaim]
  | [1; 3; _] => [TR KMove RClaim]
  | [1; 4; v] => [TR (KAsyncV v) RClaim]
  | [1; 5; e] => [TR (KAsyncE e) RClaim]
  | [1; 6; _] => [TR KMove RClaim]        (* move-then-destroy where the private copy dies by stack unwinding *)
  | [1; 7; v] => [TR (KCoVal v) RClaim]
  | [2; 0] => [TW WCoro WReady false]
  | [2; 1] => [TW WBlock WReady false]
  | [2; 2] => [TW WCallback WReady false]
  | [2; 3] => [TW WHasValue WStart false]
  | [2; 4] => [TW WCoroHas WStart false]
  | [2; 5] => [TW WCallback (WSub false None) false]   (* call_fn_future_awaiter::operator<<: subscribes without await_ready *)
  | _ => []
  end.
Definition decode_sched (l : list Z) : list Z := match l with 9 :: r => r | _ => [] end.

Definition init (ops : list (list Z)) : st :=
  mkSt true (SChain []) ONone [] [] (flat_map decode_thr ops ++ [TR KDtor RXWait]) None [] [] [].

Definition okind (isvoid : bool) (o : outcome) : list Z :=
  match o with ONone => [0; 0] | OVal v => [1; if isvoid then 0 else v] | OExc e => [2; e] end.
Definition has_val (o : outcome) : bool := match o with ONone => false | _ => true end.

(* waiter line: tid 2 done kind datum runs parked ready  (parked = the subscription succeeded, i.e. the waiter really
   suspended; ready = the future's slot held the ready marker when the waiter went on) *)
Definition thr_obs (isvoid : bool) (sub : list nat) (rdy : bool) (i : nat) (t : thr) : list Z :=
  let pk := b2z (existsb (Nat.eqb i) sub) in
  match t with
  | TR _ (RDone r) => [Z.of_nat i; 1; b2z r]
  | TR _ _ => [Z.of_nat i; 1; -1]
  | TW WHasValue (WDone o) _ => [Z.of_nat i; 2; 1; 4; b2z (has_val o); 1; pk; b2z rdy]
  | TW WCoroHas (WDone o) _ => [Z.of_nat i; 2; 1; 4; b2z (has_val o); 1; pk; b2z rdy]
  | TW _ (WDone o) _ => Z.of_nat i :: 2 :: 1 :: okind isvoid o ++ [1; pk; b2z rdy]
  | TW _ _ _ => [Z.of_nat i; 2; 0; 0; 0; 0; pk; 0]
  end.

Fixpoint thr_obs_all (isvoid : bool) (sub : list nat) (rdy : bool) (l : list thr) (i : nat) : list (list Z) :=
  match l with [] => [] | t :: r => thr_obs isvoid sub rdy i t :: thr_obs_all isvoid sub rdy r (S i) end.

(* one line per destroyed async frame: 11 tid ready-at-destruction 0 *)
Definition frame_obs (s : st) : list (list Z) :=
  flat_map (fun e => match e with
                     | EFrame b => [[11; Z.of_nat (match winner s with Some i => i | None => 0%nat end); b2z b; 0]]
                     | _ => [] end) (elog s).

Definition unfinished (t : thr) : bool :=
  match t with
  | TR _ (RDone _) => false | TR _ _ => true
  | TW _ (WDone _) _ => false | TW _ WParked _ => false | TW _ _ _ => true
  end.
Fixpoint stuck_list (l : list thr) (i : nat) : list Z :=
  match l with
  | [] => []
  | t :: r => (if unfinished t then [Z.of_nat i] else []) ++ stuck_list r (S i)
  end.

Definition final_obs (isvoid : bool) (s : st) : list Z :=
  match slot s with SReady => 9 :: 1 :: okind isvoid (payload s) | _ => [9; 0; 0; 0] end.

(* "losers leave no trace" on the caller's side (engines with a move-only / instance-counted payload, trc = true): one line
   `12 tid t 0` per direct value call promise(v): t = 1 iff the call consumed its rvalue argument / constructed an instance
   of T, which only the winning call does (future.h:644-651: claim first, construct in place only when claimed) *)
Fixpoint trace_obs (l : list thr) (i : nat) : list (list Z) :=
  match l with
  | [] => []
  | TR (KVal _) (RDone r) :: t => [12; Z.of_nat i; b2z r; 0] :: trace_obs t (S i)
  | _ :: t => trace_obs t (S i)
  end.

Definition cell_run2 (isvoid trc : bool) (ops : list (list Z)) : list (list Z) :=
  let s0 := init ops in
  let sched := flat_map decode_sched ops in
  let '(s, tr) := run_sched (length sched + 2000) s0 sched [] in
  map (fun p => [Z.of_nat (fst p); snd p]) tr
  ++ (match stuck_list (thrs s) 0 with [] => [] | l => [777 :: l] end)
  ++ thr_obs_all isvoid (sublog s) (slot_ready s) (thrs s) 0 ++ (if trc then trace_obs (thrs s) 0 else [])
  ++ frame_obs s ++ [final_obs isvoid s; [10; 0; 0]].
Definition cell_run (isvoid : bool) (ops : list (list Z)) : list (list Z) := cell_run2 isvoid false ops.

(* ---------- decidable form of C01 + C02 on an observed result block ---------- *)
(* expected final outcome given which declared resolver (by tid) reported success *)
Definition decl_outcome (isvoid : bool) (t : thr) : list Z :=
  match t with
  | TR (KVal v) _ => [1; if isvoid then 0 else v]
  | TR (KAsyncV v) _ => [1; if isvoid then 0 else v]
  | TR (KCoVal v) _ => [1; if isvoid then 0 else v]
  | TR (KExc e) _ => [2; e]
  | TR (KAsyncE e) _ => [2; e]
  | _ => [0; 0]
  end.
Definition decl_async (t : thr) : bool := match t with TR k _ => is_async k | _ => false end.

Definition is_trace_line (l : list Z) : bool := match l with [_; _] => true | _ => false end.

Fixpoint winners (decl : list thr) (res : list (list Z)) : list nat :=
  match res with
  | [i; 1; 1] :: r => Z.to_nat i :: winners decl r
  | _ :: r => winners decl r
  | [] => []
  end.

Definition list_eqb (a b : list Z) : bool :=
  Nat.eqb (length a) (length b) && forallb (fun p => Z.eqb (fst p) (snd p)) (combine a b).

(* C02 per waiter: it finished (done = 1), its continuation ran exactly once (runs = 1: released exactly once, or
   refused / found ready and went on by itself), and what it read is the value the winner wrote *)
Definition waiter_ok (exp : list Z) (l : list Z) : bool :=
  match l with
  | [_; 2; 1; 4; b; 1; _; r] => Z.eqb b (match exp with 0 :: _ => 0 | _ => 1 end) && Z.eqb r 1
  | [_; 2; 1; k; d; 1; _; r] => list_eqb [k; d] exp && Z.eqb r 1      (* released => the future was ready and complete *)
  | [_; 2; _; _; _; _; _; _] => false
  | _ => true
  end.
Definition is_frame_line (l : list Z) : bool := match l with [11; _; _; _] => true | _ => false end.

Definition cell_oracle (isvoid : bool) (ops obs : list (list Z)) : bool :=
  let decl := thrs (init ops) in
  let res := filter (fun l => negb (is_trace_line l)) obs in
  match winners decl res with
  | [w] =>
      let wt := nth_error decl w in
      let exp := match wt with Some t => decl_outcome isvoid t | None => [0; 0] end in
      let asy := match wt with Some t => decl_async t | None => false end in
      forallb (waiter_ok exp) res
      && existsb (fun l => list_eqb l (9 :: 1 :: exp)) res
      (* no deadlock line: no waiter (or resolver) is left suspended *)
      && negb (existsb (fun l => match l with 777 :: _ => true | _ => false end) res)
      && existsb (fun l => list_eqb l [10; 0; 0]) res
      && Nat.eqb (length (filter (fun l => match l with [_; 1; _] => true | [_; 2; _; _; _; _; _; _] => true | _ => false end) res))
                 (length decl)
      (* an async winner destroyed its frame exactly once, after the future became ready; nobody else did *)
      && list_eqb (concat (filter is_frame_line res)) (if asy then [11; Z.of_nat w; 1; 0] else [])
      (* losers leave no trace: only the winner's call consumed its argument / constructed a value *)
      && forallb (fun l => match l with [12; i; t; _] => Z.eqb t (if Z.eqb i (Z.of_nat w) then 1 else 0) | _ => true end) res
  | _ => false
  end.

(* ---------- exhaustive schedule enumeration (used by the generator of the thorough tier) ---------- *)
(* All maximal schedules of a configuration, as lists of choices (choice j = the j-th enabled thread).
   One reduction: once some resolver has taken the owner pointer, the two steps of the shared promise's destructor
   thread (index dl: "xwait", then "dtor" finding _owner == nullptr) change nothing but its own pc; such a step is
   taken only when no other thread is enabled.  Every other interleaving is enumerated. *)
Fixpoint enum_sched (fuel : nat) (s : st) (dl : nat) : list (list Z) :=
  match fuel with
  | O => [[]]
  | S f =>
      let en := all_enabled s in
      match en with
      | [] => [[]]
      | _ =>
          let ok := fun i => negb (Nat.eqb i dl && negb (owner s) && Nat.ltb 1 (length en)) in
          flat_map (fun j => let i := nth j en 0%nat in
                             if ok i then map (cons (Z.of_nat j)) (enum_sched f (fst (tstep s i)) dl) else [])
                   (seq 0 (length en))
      end
  end.

Definition cell_enum (ops : list (list Z)) : list (list Z) :=
  let s0 := init ops in
  map (cons 9) (enum_sched 200 s0 (length (thrs s0) - 1)).

(* ---------- real-thread stress engine (harness/stress_cell.cpp) ---------- *)
(* The harness runs op [30; trials; wkind1; wkind2; rkind; jitter] under uncontrolled threads and only counts
   [20; lost; dup; wrong; early].  By c02_no_lost_wakeup / c02_at_most_once / c02_not_early every schedule of the model
   ends with all four counters zero, so that is the model's prediction for every such op; the oracle is the
   property itself: no waiter lost, none released twice, none read a wrong or a not-ready result. *)
Definition stress_run (ops : list (list Z)) : list (list Z) :=
  flat_map (fun op => match op with [30; _; _; _; _; _] => [[20; 0; 0; 0; 0]] | _ => [] end) ops.
Definition stress_oracle (ops obs : list (list Z)) : bool :=
  Nat.eqb (length obs) (length (stress_run ops)) && forallb (fun l => list_eqb l [20; 0; 0; 0; 0]) obs.
