(* SharedInvR.v — the resolver's steps (walk, tracer callback, end of walk) preserve the invariant *)
From Cocls Require Import Base BaseProofs SharedDefs SharedInv.
Require Import ZifyBool.
Ltac Zify.zify_post_hook ::= Z.div_mod_to_equations.
Local Open Scope nat_scope.

Lemma resume_all_inv l : forall s, InvA s ->
  (forall w, cnt (NU w) (chain s) + cnt (NU w) (walk s) + cntn w l = inl (users s) w) ->
  InvA (resume_all s l) /\
  (forall w, cnt (NU w) (chain s) + cnt (NU w) (walk s) = inl (users (resume_all s l)) w) /\
  slot (resume_all s l) = slot s /\ walk (resume_all s l) = walk s /\ acc (resume_all s l) = acc s /\
  rpcf (resume_all s l) = rpcf s /\ cpcf (resume_all s l) = cpcf s /\ mode (resume_all s l) = mode s /\
  rk (resume_all s l) = rk s /\ payload (resume_all s l) = payload s /\ pavail (resume_all s l) = pavail s.
Proof.
  induction l as [|c t IH]; intros s IA OC; cbn [resume_all].
  - split; [exact IA|]. split; [intros w; specialize (OC w); rewrite cntn_nil in OC; lia|]. repeat split; reflexivity.
  - assert (1 <= inl (users s) c) as P by (specialize (OC c); rewrite cntn_cons, Nat.eqb_refl in OC; lia).
    destruct (inl_pos _ _ P) as (u & Hc & IL).
    destruct (fu_inv s c u IA Hc (inlist_handles u IL)) as (IA' & US & SL & WK & AC & RP & CP & MD & RK & PL & PA).
    destruct (IH (finish_user s c) IA') as (J1 & J2 & J3 & J4 & J5 & J6 & J7 & J8 & J9 & J10 & J11).
    + intros w. specialize (OC w). unfold chain in *. rewrite SL, WK, US. rewrite cntn_cons in OC.
      rewrite (inl_set_nth _ c u _ w Hc). destruct (Nat.eqb_spec c w) as [->|N].
      * rewrite Nat.eqb_refl in OC. unfold inl in OC. rewrite Hc, IL in OC. cbn. lia.
      * rewrite (proj2 (Nat.eqb_neq w c)) in OC by auto. exact OC.
    + split; [exact J1|]. unfold chain in *. rewrite SL, WK in J2.
      split; [exact J2|]. repeat split; congruence.
Qed.

Lemma inv_finish s : Inv s -> rpcf s = RWalk -> walk s = [] -> Inv (finish s).
Proof.
  intros [IA OC] RP WK. unfold finish.
  destruct (resume_all_inv (acc s) s IA OC) as (J1 & J2 & J3 & J4 & J5 & J6 & J7 & J8 & J9 & J10 & J11).
  set (s1 := resume_all s (acc s)) in *. clearbody s1. open_invA J1. open_invA IA.
  pre; mk_inv; go.
Qed.

Lemma inv_mf s : Inv s -> rpcf s = RWalk -> Inv (maybe_finish s).
Proof.
  intros I RP. unfold maybe_finish. destruct (walk s) eqn:W; [apply inv_finish; assumption|exact I].
Qed.

(* the resolver's step before the end-of-walk test: (state, whether maybe_finish follows) *)
Definition rstep_in (s : st) : st * bool :=
  match rpcf s with
  | RXWait => (set_rpc s (match mode s with MCoro => RG1 | _ => RClaim end), false)
  | RG1 => (set_rpc s RG2, false)
  | RG2 => (set_rpc s RG3, false)
  | RG3 => (let s1 := touch s in set_rpc (set_payload s1 (payload_of (rk s1)) (has_payload (rk s1))) RResolve, false)
  | RClaim => (let s1 := touch s in set_rpc (set_payload s1 (payload_of (rk s1)) (has_payload (rk s1))) RResolve, false)
  | RResolve =>
      (let s1 := touch s in
       let l := match slot s1 with SChain l => l | SReady => [] end in
       set_rpc (set_walk (set_slot s1 SReady) l) RWalk, true)
  | RWalk =>
      match walk s with
      | [] => (s, true)
      | NT :: t => (set_rpc (set_walk (touch s) t) RClr, false)
      | NU w :: t => (release_node (set_walk s t) w, true)
      end
  | RClr => (set_rpc (drop_ref (set_selfref (touch s) false)) RWalk, true)
  | RDone _ => (s, false)
  end.

Lemma rstep_in_eq s :
  fst (rstep s) = if snd (rstep_in s) then maybe_finish (fst (rstep_in s)) else fst (rstep_in s).
Proof.
  unfold rstep, rstep_in. destruct (rpcf s); try reflexivity. destruct (walk s) as [|[|w] t]; reflexivity.
Qed.

Lemma inv_rstep_in s : Inv s -> enabled s 1 = true ->
  Inv (fst (rstep_in s)) /\ (snd (rstep_in s) = true -> rpcf (fst (rstep_in s)) = RWalk).
Proof.
  intros I E. cbn [enabled] in E. unfold rstep_in. destruct (rpcf s) eqn:RP; try discriminate; cbn [fst snd].
  - (* RXWait *)
    split; [|discriminate]. open_inv I. destruct (mode s) eqn:M; pre; mk_inv; go.
  - (* RClaim *)
    destruct (alive_pending s (proj1 I)) as (A & B). { pose proof (rs_ok s (proj1 I)) as Q. rewrite RP in Q. tauto. }
    rewrite touch_alive by exact A. split; [|discriminate]. open_inv I. specialize (Irc A).
    pre; mk_inv; go.
  - (* RResolve *)
    destruct (alive_pending s (proj1 I)) as (A & B). { pose proof (rs_ok s (proj1 I)) as Q. rewrite RP in Q. tauto. }
    rewrite touch_alive by exact A. split; [|reflexivity].
    open_inv I. specialize (Irc A). destruct (slot s) as [l|] eqn:SL.
    + pre; mk_inv; go.
    + exfalso. unf. rew_hyps. destruct Irs. discriminate.
  - (* RWalk *)
    destruct (walk s) as [|[|w] t] eqn:WK.
    + cbn [fst snd]. split; [exact I|intros _; exact RP].
    + destruct (alive_tracer s (proj1 I)) as (A & B). { unfold tcount. rewrite WK. autorewrite with cntdb. lia. }
      rewrite touch_alive by exact A. cbn [fst snd]. split; [|discriminate]. open_inv I. specialize (Irc A).
      pre; mk_inv; go.
    + (* a user node *)
      cbn [fst snd].
      destruct I as [IA OC].
      assert (IA0 : InvA (set_walk s t)). { open_invA IA. pre; constructor; go. }
      assert (P : 1 <= inl (users s) w).
      { specialize (OC w). unfold occ in OC. rewrite WK in OC. autorewrite with cntdb in OC. rewrite Nat.eqb_refl in OC. lia. }
      destruct (inl_pos _ _ P) as (u & Hw & IL).
      unfold release_node. simp_st. rewrite Hw.
      assert (OC0 : forall w0, cnt (NU w0) (chain s) + ((if Nat.eqb w0 w then 1 else 0) + cnt (NU w0) t) + cntn w0 (acc s) = inl (users s) w0).
      { intros w0. specialize (OC w0). unfold occ in OC. rewrite WK in OC. autorewrite with cntdb in OC. exact OC. }
      clear OC.
      pose proof (kd_ok s IA w u Hw) as K. unfold kind_ok, kind_pc in K.
      unfold inlist in IL.
      destruct (ukd u) as [| |[| |]] eqn:KD.
      * (* not an await kind: cannot be linked *)
        exfalso. destruct (upcf u); try discriminate; tauto.
      * exfalso. destruct (upcf u); try discriminate; tauto.
      * (* coroutine: collected in the suspend point *)
        split; [|intros _; exact RP]. open_invA IA. pre; split; [constructor|]; go.
      * (* blocking: flag *)
        split; [|intros _; exact RP].
        destruct (upcf u) eqn:PC; try discriminate; try tauto.
        destruct (uflag u) eqn:FL; [discriminate|].
        open_invA IA.
        match goal with |- Inv (set_user _ _ ?u') => upd Hw u' end. pre; split; [constructor|]; go.
      * (* callback: runs now *)
        assert (HU : upc_handles (upcf u) = 1) by (destruct (upcf u); try discriminate; reflexivity).
        destruct (fu_inv (set_walk s t) w u IA0 Hw HU) as (IA' & US & SL & WK' & AC & RP' & _).
        split; [|intros _; rewrite RP'; exact RP].
        split; [exact IA'|]. intros w0. specialize (OC0 w0). unfold occ, chain in *. rewrite SL, WK', AC, US. simp_st.
        rewrite (inl_set_nth _ w u _ w0 Hw). destruct (Nat.eqb_spec w w0) as [->|N].
        -- rewrite Nat.eqb_refl in OC0. unfold inl in OC0. rewrite Hw in OC0. unfold inlist in OC0.
           cbn [done_user inlist upcf]. destruct (upcf u); try discriminate; try lia.
        -- rewrite (proj2 (Nat.eqb_neq w0 w)) in OC0 by auto. exact OC0.
  - (* RClr *)
    destruct (alive_tracer s (proj1 I)) as (A & B). { unfold tcount. rewrite RP. lia. }
    rewrite touch_alive by exact A. rewrite drop_ref_alive by (simp_st; assumption).
    split.
    2: { intros _. simp_st. reflexivity. }
    open_inv I. specialize (Irc A).
    use_dropped (set_selfref s false) B; pre; mk_inv; go.
  - (* RG1 *)
    split; [|discriminate]. open_inv I. pre; mk_inv; go.
  - (* RG2 *)
    split; [|discriminate]. open_inv I. pre; mk_inv; go.
  - (* RG3 *)
    destruct (alive_pending s (proj1 I)) as (A & B). { pose proof (rs_ok s (proj1 I)) as Q. rewrite RP in Q. tauto. }
    rewrite touch_alive by exact A. split; [|discriminate]. open_inv I. specialize (Irc A).
    pre; mk_inv; go.
Qed.

Lemma inv_rstep s : Inv s -> enabled s 1 = true -> Inv (fst (rstep s)).
Proof.
  intros I E. rewrite rstep_in_eq. destruct (inv_rstep_in s I E) as (A & B).
  destruct (snd (rstep_in s)); [apply inv_mf; auto|exact A].
Qed.

