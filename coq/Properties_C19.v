(* Properties_C19.v — C19: coroutine storage policies give every frame exclusive, correctly freed memory.
   Only statements; every proof is `exact <lemma of StorageProofs>`.
   Quantification: every policy, every history of Init/Create/Finish/Destroy (any length, any frame sizes, any
   parameters); for reusable_storage_mtsafe additionally every number of threads, every program per thread and every
   schedule (mt_reach = closure of the initial state under steps of arbitrary threads).
   `contract_ok pol l` is the documented usage contract of the single-block policies (reusable_storage,
   placement_alloc, reusable_buffer_storage: one live frame at a time, placement memory large enough); it holds
   for every history of default / mtsafe / stack storage (c19_contract_free). *)
From Cocls Require Import Base BaseProofs StorageDefs StorageProofs StorageMtProofs StorageOracleProofs StorageObjDefs StorageObjProofs.
Local Open Scope Z_scope.

Theorem c19_contract_free : forall pol l, contract_free pol = true -> contract_ok pol l = true.
Proof. exact contract_free_ok0. Qed.
Print Assumptions c19_contract_free.

(* exclusive: two simultaneously live frames never sit in the same block *)
Theorem c19_exclusive : forall pol l i j fi fj, contract_ok pol l = true ->
  fget (frs (final_u pol l)) i = Some fi -> fget (frs (final_u pol l)) j = Some fj -> i <> j ->
  f_blk fi <> f_blk fj.
Proof. exact exclusive. Qed.
Print Assumptions c19_exclusive.

(* size + lifetime: the block under a live frame is still allocated (or is the caller's area) and offers
   request + extra object + the policy's trailer bytes *)
Theorem c19_size_valid : forall pol l i f, contract_ok pol l = true -> fget (frs (final_u pol l)) i = Some f ->
  0 < f_n f /\ f_n f + trailer pol <= f_room f /\
  match f_blk f with
  | BHeap b => In (b, f_room f) (h_live (hp (final_u pol l)))
  | BOwn _ => pol = PStk \/ pol = PPlc
  | BNull => False
  end.
Proof. exact valid_sized. Qed.
Print Assumptions c19_size_valid.

(* fallback freed exactly once: no delete of a non-live block ever, live heap blocks = the storage's block + one per
   live frame that owns a heap block, and after the storage is destroyed every allocation has been released *)
Theorem c19_fallback_freed_once : forall pol l, contract_ok pol l = true ->
  let c := final_u pol l in
  h_bad (hp c) = 0 /\ h_allocs (hp c) - h_frees (hp c) = zlen (h_live (hp c)) /\
  (c_up c = true -> zlen (h_live (hp c)) = nsown pol (st c) + sumw (owns pol) (frs c)) /\
  (c_up c = false -> h_live (hp c) = [] /\ h_allocs (hp c) = h_frees (hp c)).
Proof. exact freed_once. Qed.
Print Assumptions c19_fallback_freed_once.

(* warm-up: after a frame of size s was served from the policy's block (c_max records it, c19_learned; it never decreases
   while the storage lives, c19_learned_monotone), a frame of size <= s created while that block is free leaves the heap
   untouched: 0 allocations (and 0 frees).  reusable / mtsafe (block not busy) / stack (second call) / placement / buffer *)
Theorem c19_warm_no_alloc : forall pol l slot sz, contract_ok pol l = true ->
  let c := final_u pol l in let p := final_p pol l in
  wf_op c (OCreate slot sz) = true -> contract p c (OCreate slot sz) = true -> pol <> PDef ->
  nreq p sz <= c_max c -> (pol = PMts -> s_busy (st c) = false) ->
  hp (fst (create p c slot sz)) = hp c.
Proof. exact warm_no_alloc. Qed.
Print Assumptions c19_warm_no_alloc.

Theorem c19_learned : forall pol l slot sz,
  let c := final_u pol l in let p := final_p pol l in
  p_pol p = pol -> (pol = PMts -> s_busy (st c) = false) -> nreq p sz <= c_max (fst (create p c slot sz)).
Proof. exact learned. Qed.
Print Assumptions c19_learned.

Theorem c19_learned_monotone : forall p c o, c_up c = true -> c_max c <= c_max (fst (gstep p c o)).
Proof. exact cmax_mono. Qed.
Print Assumptions c19_learned_monotone.

(* extra object / life cycle: per frame id the logged events are exactly alloc, ctor, promise (while live) followed by
   promise-dtor, dtor, dealloc (once finished): constructed exactly once inside alloc before the coroutine object exists,
   destroyed exactly once, after the coroutine object and before the memory is handed back *)
Theorem c19_extra_object : forall pol l fid, contract_ok pol l = true ->
  let c := final_u pol l in
  evs_of fid (c_log c) = lifecycle (p_x (final_p pol l)) (c_nfid c) (frs c) fid.
Proof. exact extra_object. Qed.
Print Assumptions c19_extra_object.

(* bytes inside the block: frame [0,sz), extra object at the next multiple of its alignment behind the frame, the base
   policy is asked for a multiple of 8 that covers both, and its trailer still fits *)
Theorem c19_extra_placed : forall pol l i f, contract_ok pol l = true -> fget (frs (final_u pol l)) i = Some f ->
  let p := final_p pol l in
  let sz := f_sz f in let n := f_n f in
  0 < sz /\ sz <= xoff p sz /\ n + trailer pol <= f_room f /\
  (0 < p_x p -> xoff p sz mod p_xal p = 0 /\ xoff p sz + p_x p <= n /\ n mod 8 = 0) /\
  (p_x p = 0 -> xoff p sz = sz /\ n = sz).
Proof. exact extra_placed. Qed.
Print Assumptions c19_extra_placed.

(* the decidable trace oracle that is run on the implementation's output accepts the model's own trace of every history
   that ends with the storage destroyed: an oracle failure on the implementation is a deviation from all of the above *)
Theorem c19_oracle_sound : forall pol ops,
  c_up (snd (snd (run_g pol (map decode ops)))) = false -> st_oracle pol ops (st_run pol ops) = true.
Proof. exact oracle_sound. Qed.
Print Assumptions c19_oracle_sound.

(* storage objects as values (StorageObjDefs.v): any number of reusable_storage objects that are move-assigned, move-constructed,
   reused after having been moved from and destroyed (stk = false), or of stack_storage objects sharing one learned-size state,
   each reserved once and used for several calls (stk = true); one live frame per object (the policies' contract, enforced by
   ok2). For every history: a live frame's memory is still allocated (or is the area reserved for its own object), it has room
   for the frame plus the trailer, and no delete ever hit something that was not a live block. *)
Theorem c19_obj_valid : forall stk l slot f, aget (o2_frs (snd (run2 stk s2_0 l))) slot = Some f ->
  frame_valid stk (snd (run2 stk s2_0 l)) f /\ h_bad (o2_hp (snd (run2 stk s2_0 l))) = 0.
Proof. exact obj_valid. Qed.
Print Assumptions c19_obj_valid.

(* thread-safe variant, every interleaving *)
Theorem c19_mt_exclusive : forall ops s i j fi fj, mt_reach ops s ->
  fget (frs (c_core s)) i = Some fi -> fget (frs (c_core s)) j = Some fj -> i <> j -> f_blk fi <> f_blk fj.
Proof. exact mt_exclusive. Qed.
Print Assumptions c19_mt_exclusive.

(* `ngrow` counts threads paused inside reusable_storage::alloc between `delete _ptr` and `_ptr = new` (busy_n), where _ptr dangles *)
Theorem c19_mt_one_holder : forall ops s, mt_reach ops s ->
  nwon (c_thr s) + sumw trw (frs (c_core s)) = b2z (s_busy (st (c_core s))) /\
  forall i f, In (i, f) (frs (c_core s)) ->
    if f_tr f then ngrow (c_thr s) = 0 /\ f_blk f = optblk (s_ptr (st (c_core s)))
    else exists b, f_blk f = BHeap b /\ (ngrow (c_thr s) = 0 -> s_ptr (st (c_core s)) <> Some b).
Proof. exact mt_one_holder. Qed.
Print Assumptions c19_mt_one_holder.

Theorem c19_mt_size_valid : forall ops s i f, mt_reach ops s -> In (i, f) (frs (c_core s)) ->
  0 < f_n f /\ f_n f + ptr_sz <= f_room f /\ exists b, f_blk f = BHeap b /\ In (b, f_room f) (h_live (hp (c_core s))).
Proof. exact mt_valid_sized. Qed.
Print Assumptions c19_mt_size_valid.

Theorem c19_mt_freed_once : forall ops s, mt_reach ops s ->
  let h := hp (c_core s) in
  h_bad h = 0 /\ h_allocs h - h_frees h = zlen (h_live h) /\
  zlen (h_live h) = nsown PMts (eff (c_thr s) (st (c_core s))) + sumw (owns PMts) (frs (c_core s)) /\
  (frs (c_core s) = [] -> nwon (c_thr s) = 0 ->
   let h1 := hp (destroy pm (c_core s)) in h_live h1 = [] /\ h_allocs h1 = h_frees h1 /\ h_bad h1 = 0).
Proof. exact mt_freed_once. Qed.
Print Assumptions c19_mt_freed_once.

(* liveness: under every schedule every thread completes its program: nobody waits for _busy, nobody stays inside alloc *)
Theorem c19_mt_all_done : forall ops,
  Forall (fun t => t_prog t = [] /\ t_won t = None) (c_thr (fst (mt_final ops))).
Proof. exact mt_all_done. Qed.
Print Assumptions c19_mt_all_done.

(* the state the wire-level runner ends in is one of those states, whatever the schedule *)
Theorem c19_mt_run_covered : forall ops, mt_reach ops (fst (mt_final ops)).
Proof. exact mt_final_reach. Qed.
Print Assumptions c19_mt_run_covered.

(* non-vacuity: a reachable mtsafe state with three live frames (one in the shared block, two fallbacks) *)
Example c19_nonvacuous :
  let l := [OInit 24 0 0 8; OCreate 0 120; OCreate 1 104; OFinish 0; OCreate 2 136; OCreate 3 96] in
  contract_ok PMts l = true /\ length (frs (final_u PMts l)) = 3%nat /\
  sumw trw (frs (final_u PMts l)) = 1 /\ h_allocs (hp (final_u PMts l)) = 4 /\ h_frees (hp (final_u PMts l)) = 1.
Proof. vm_compute. repeat split; reflexivity. Qed.

(* the contract is necessary: without it reusable_storage frees the block under a live frame *)
Example c19_contract_needed :
  let l := [OInit 0 0 0 8; OCreate 0 104; OCreate 1 296] in
  contract_ok PReu l = false /\
  exists f, fget (frs (final_u PReu l)) 0 = Some f /\ f_blk f = BHeap 0 /\ hmem 0 (h_live (hp (final_u PReu l))) = false.
Proof. vm_compute. split; [reflexivity|]. eexists. repeat split; reflexivity. Qed.

(* non-vacuity of the warm-up and life-cycle statements: frame 0 finished (6 events), frame 1 live (3 events), and a
   third creation of the learned size is admissible and free *)
Example c19_nonvacuous_warm :
  let l := [OInit 24 0 0 8; OCreate 0 296; OFinish 0; OCreate 1 104] in
  contract_ok PReu l = true /\ c_max (final_u PReu l) = 320 /\
  evs_of 0 (c_log (final_u PReu l)) = [1; 2; 3; 6; 4; 5] /\ evs_of 1 (c_log (final_u PReu l)) = [1; 2; 3] /\
  evs_of 2 (c_log (final_u PReu l)) = [] /\
  let l2 := l ++ [OFinish 1] in
  wf_op (final_u PReu l2) (OCreate 2 296) = true /\ contract (final_p PReu l2) (final_u PReu l2) (OCreate 2 296) = true.
Proof. vm_compute. repeat split; reflexivity. Qed.

(* the placement matters: with an extra object of alignment 16 behind a 104-byte frame the object goes to offset 112,
   not 104, and the base policy is asked for 144 bytes *)
Example c19_nonvacuous_placed :
  let l := [OInit 32 0 0 16; OCreate 0 104] in
  contract_ok PMts l = true /\
  exists f, fget (frs (final_u PMts l)) 0 = Some f /\ xoff (final_p PMts l) (f_sz f) = 112 /\ f_n f = 144 /\ f_room f = 152.
Proof. vm_compute. split; [reflexivity|]. eexists. repeat split; reflexivity. Qed.

(* non-vacuity of c19_obj_valid: target with a small block, source with a big one, `target = std::move(source)`, then the
   moved-from source serves a big frame again (it must allocate: its capacity is 0) *)
Example c19_nonvacuous_obj :
  let l := [PNew 0; PNew 1; PCreate 0 0 96; PFinish 0; PCreate 0 1 3096; PFinish 0; PMoveAssign 0 1; PCreate 1 1 3096] in
  exists f, aget (o2_frs (snd (run2 false s2_0 l))) 1 = Some f /\ of_blk f = BHeap 2 /\ of_room f = 3096
            /\ h_allocs (o2_hp (snd (run2 false s2_0 l))) = 3 /\ h_frees (o2_hp (snd (run2 false s2_0 l))) = 1.
Proof. vm_compute. eexists. repeat split; reflexivity. Qed.
