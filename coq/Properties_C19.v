From Cocls Require Import Base StorageDefs.
Theorem stub : True. Proof. exact I. Qed.
Print Assumptions stub.
