(* MutexSched.v — thread-level ("location") invariant of the coroutine-mutex model: where each contender is.
   Every runnable coroutine is in exactly one place (executing on exactly one OS thread, or exactly once in
   exactly one thread's ready queue); parked and finished coroutines are nowhere; plain threads execute their
   own code, or a nested queue while their own code is inside a release.  From it: a contender is never
   resumed concurrently with itself, and deadlock freedom (some OS thread is enabled while a contender is
   unfinished).  Part 1 is pure (lists of thread records), part 2 ties it to MutexDefs.tstep. *)
From Cocls Require Import Base BaseProofs MutexDefs MutexProofs.
Local Open Scope nat_scope.

(* ================================================================ part 1 *)
Definition kd (v : tview) : kind := fst (fst v).
Definition pf (v : tview) : pc := snd (fst v).
Definition live (p : pc) : bool := match p with PParked | PDone => false | _ => true end.

Definition wrun (c : nat) (r : trun) : nat := match r with TRun c' => if Nat.eqb c' c then 1 else 0 | _ => 0 end.
Definition wt (c : nat) (th : thr) : nat := wrun c (run th) + count_occ Nat.eq_dec (tq th) c.
Fixpoint occ (l : list thr) (c : nat) : nat := match l with [] => 0 | th :: r => wt c th + occ r c end.

Lemma occ_set l t x c : t < length l ->
  occ (set_nth l t x) c + wt c (nth t l dflt_thr) = occ l c + wt c x.
Proof.
  revert t. induction l as [|y l IH]; intros [|t] L; cbn [length] in L; try lia.
  - cbn [set_nth occ nth]. lia.
  - cbn [set_nth occ nth]. specialize (IH t ltac:(lia)). lia.
Qed.

Lemma occ_ge l t c : t < length l -> wt c (nth t l dflt_thr) <= occ l c.
Proof.
  revert t. induction l as [|y l IH]; intros [|t] L; cbn [length] in L; try lia.
  - cbn [occ nth]. lia.
  - cbn [occ nth]. specialize (IH t ltac:(lia)). lia.
Qed.

Lemma occ_two l t t' c : t < length l -> t' < length l -> t <> t' ->
  wt c (nth t l dflt_thr) + wt c (nth t' l dflt_thr) <= occ l c.
Proof.
  revert t t'. induction l as [|y l IH]; intros [|t] [|t'] L L' N; cbn [length] in L, L'; try lia.
  - cbn [occ nth]. pose proof (occ_ge l t' c ltac:(lia)) as Q. lia.
  - cbn [occ nth]. pose proof (occ_ge l t c ltac:(lia)) as Q. lia.
  - cbn [occ nth]. specialize (IH t t' ltac:(lia) ltac:(lia) ltac:(lia)). lia.
Qed.

Lemma set_nth_same_id {A} (l : list A) t d : set_nth l t (nth t l d) = l.
Proof. revert t; induction l as [|y l IH]; intros [|t]; cbn; auto. now rewrite IH. Qed.

Lemma set_nth_twice {A} (l : list A) t x y : set_nth (set_nth l t x) t y = set_nth l t y.
Proof. revert t; induction l as [|z l IH]; intros [|t]; cbn; auto. now rewrite IH. Qed.

Lemma count_occ_app_one (l : list nat) x c :
  count_occ Nat.eq_dec (l ++ [x]) c = count_occ Nat.eq_dec l c + (if Nat.eqb x c then 1 else 0).
Proof.
  rewrite count_occ_app. cbn [count_occ]. destruct (Nat.eq_dec x c) as [->|N].
  - rewrite Nat.eqb_refl. reflexivity.
  - apply Nat.eqb_neq in N. rewrite N. reflexivity.
Qed.

(* the thread-level invariant over: thread records, number of declared tasks, per task (kind, pc, flag) *)
Record LV (l : list thr) (n : nat) (f : nat -> tview) : Prop := {
  l_len : length l = n;
  l_occ : forall c, kd (f c) = KCoro -> occ l c = if live (pf (f c)) then 1 else 0;
  l_run : forall t c, run (nth t l dflt_thr) = TRun c -> kd (f c) = KCoro \/ c = t;
  l_q : forall t c, In c (tq (nth t l dflt_thr)) -> kd (f c) = KCoro /\ (pf (f c) = PCs \/ pf (f c) = PStep);
  l_plain : forall t, t < n -> kd (f t) = KPlain ->
      (run (nth t l dflt_thr) = TRun t /\ tq (nth t l dflt_thr) = [] /\ pf (f t) <> PDone) \/
      (exists c, run (nth t l dflt_thr) = TRun c /\ kd (f c) = KCoro /\ pf (f t) = PStep) \/
      (exists c, run (nth t l dflt_thr) = TSusp c /\ pf (f t) = PStep) \/
      (run (nth t l dflt_thr) = TIdle /\ pf (f t) = PDone);
  l_idle : forall t, run (nth t l dflt_thr) = TIdle -> tq (nth t l dflt_thr) = [];
  l_dom : forall c, n <= c -> kd (f c) = KPlain /\ pf (f c) = PDone
}.

Lemma lv_ext l n f f' : (forall x, kd (f' x) = kd (f x)) -> (forall x, pf (f' x) = pf (f x)) -> LV l n f -> LV l n f'.
Proof.
  intros E E2 [A B C D F G H]. constructor; auto.
  - intros c. rewrite E, E2. apply B.
  - intros t c. rewrite E. apply C.
  - intros t c. rewrite E, !E2. apply D.
  - intros t. rewrite E, !E2. intros Lt K. destruct (F t Lt K) as [Q|[(c & Q1 & Q2 & Q3)|[Q|Q]]]; auto.
    right. left. exists c. rewrite E. auto.
  - intros c. rewrite E, E2. apply H.
Qed.

(* a coroutine that is being executed is live, is executed by one thread only and is in no ready queue *)
Lemma lv_running l n f t c : LV l n f -> t < n -> run (nth t l dflt_thr) = TRun c -> kd (f c) = KCoro ->
  live (pf (f c)) = true /\ count_occ Nat.eq_dec (tq (nth t l dflt_thr)) c = 0 /\ occ l c = 1 /\
  forall t', t' < n -> t' <> t -> wt c (nth t' l dflt_thr) = 0.
Proof.
  intros I Lt R K. pose proof (l_occ _ _ _ I c K) as O. pose proof (l_len _ _ _ I) as Ln.
  pose proof (occ_ge l t c ltac:(lia)) as G. unfold wt in G. rewrite R in G. cbn [wrun] in G.
  rewrite Nat.eqb_refl in G. destruct (live (pf (f c))); [|lia].
  split; [reflexivity|]. split; [lia|]. split; [exact O|].
  intros t' Lt' N. pose proof (occ_two l t t' c ltac:(lia) ltac:(lia) ltac:(lia)) as Q.
  unfold wt in Q at 1. rewrite R in Q. cbn [wrun] in Q. rewrite Nat.eqb_refl in Q. lia.
Qed.

Lemma pc_eq_dec (a b : pc) : {a = b} + {a <> b}.
Proof. decide equality. Qed.

Definition plain_ok (t : nat) (th : thr) (f : nat -> tview) : Prop :=
  (run th = TRun t /\ tq th = [] /\ pf (f t) <> PDone) \/
  (exists c, run th = TRun c /\ kd (f c) = KCoro /\ pf (f t) = PStep) \/
  (exists c, run th = TSusp c /\ pf (f t) = PStep) \/
  (run th = TIdle /\ pf (f t) = PDone).

Definition lw (p : pc) : nat := if live p then 1 else 0.

(* master lemma: thread t is replaced by x and some tasks change pc (kinds are fixed) *)
Lemma lv_update l n f f' t x : LV l n f -> t < n ->
  (forall c, kd (f' c) = kd (f c)) ->
  (forall c, kd (f c) = KCoro -> lw (pf (f' c)) + wt c (nth t l dflt_thr) = lw (pf (f c)) + wt c x) ->
  (forall c, run x = TRun c -> kd (f c) = KCoro \/ c = t) ->
  (forall c, In c (tq x) -> kd (f c) = KCoro /\ (pf (f' c) = PCs \/ pf (f' c) = PStep)) ->
  (kd (f t) = KPlain -> plain_ok t x f') ->
  (run x = TIdle -> tq x = []) ->
  (forall c t', pf (f' c) <> pf (f c) -> t' <> t -> ~ In c (tq (nth t' l dflt_thr))) ->
  (forall t', t' <> t -> kd (f t') = KPlain -> pf (f' t') = pf (f t')) ->
  (forall c, n <= c -> kd (f' c) = KPlain /\ pf (f' c) = PDone) ->
  LV (set_nth l t x) n f'.
Proof.
  intros I Lt K Ho Hr Hq Hp Hi Hoq Hop Hd. pose proof (l_len _ _ _ I) as Ln.
  assert (NT : forall t', nth t' (set_nth l t x) dflt_thr = if Nat.eqb t' t then x else nth t' l dflt_thr).
  { intros t'. rewrite nth_set_nth_gen. assert (Q : Nat.ltb t (length l) = true) by (apply Nat.ltb_lt; lia).
    rewrite Q, andb_true_r. reflexivity. }
  constructor.
  - rewrite set_nth_len. exact Ln.
  - intros c Kc. rewrite K in Kc. pose proof (occ_set l t x c ltac:(lia)) as E.
    pose proof (l_occ _ _ _ I c Kc) as O. specialize (Ho c Kc). unfold lw in Ho.
    destruct (live (pf (f' c))), (live (pf (f c))); lia.
  - intros t' c. rewrite NT, K. destruct (Nat.eqb_spec t' t) as [->|N]; [apply Hr|apply (l_run _ _ _ I)].
  - intros t' c. rewrite NT, K. destruct (Nat.eqb_spec t' t) as [->|N]; [apply Hq|].
    intros Q. destruct (l_q _ _ _ I t' c Q) as [A B]. split; [exact A|].
    destruct (pc_eq_dec (pf (f' c)) (pf (f c))) as [E|E]; [rewrite E; exact B|].
    exfalso. eapply Hoq; eassumption.
  - intros t' Lt' Kt. rewrite K in Kt. rewrite NT. destruct (Nat.eqb_spec t' t) as [->|N]; [apply Hp; exact Kt|].
    specialize (Hop t' N Kt).
    destruct (l_plain _ _ _ I t' Lt' Kt) as [(A & B & C)|[(c & A & B & C)|[(c & A & B)|(A & B)]]].
    + left. rewrite Hop. auto.
    + right. left. exists c. rewrite K, Hop. auto.
    + right. right. left. exists c. rewrite Hop. auto.
    + right. right. right. rewrite Hop. auto.
  - intros t'. rewrite NT. destruct (Nat.eqb_spec t' t) as [->|N]; [apply Hi|apply (l_idle _ _ _ I)].
  - exact Hd.
Qed.

Lemma nth_dflt_thr l t : length l <= t -> nth t l dflt_thr = dflt_thr.
Proof. intros. apply nth_overflow. assumption. Qed.

Lemma count_zero_not_in (l : list nat) c : count_occ Nat.eq_dec l c = 0 -> ~ In c l.
Proof. intros E H. apply (count_occ_In Nat.eq_dec) in H. lia. Qed.

Lemma wt_zero_not_in c th : wt c th = 0 -> ~ In c (tq th).
Proof. unfold wt. intros E. apply count_zero_not_in. lia. Qed.

Lemma nowhere l n f w : LV l n f -> kd (f w) = KCoro -> live (pf (f w)) = false ->
  forall t', wt w (nth t' l dflt_thr) = 0.
Proof.
  intros I K Lv t'. pose proof (l_occ _ _ _ I w K) as O. rewrite Lv in O.
  destruct (le_lt_dec (length l) t') as [G|G]; [rewrite nth_dflt_thr by exact G; reflexivity|].
  pose proof (occ_ge l t' w G). lia.
Qed.

Lemma running_not_queued l n f t c : LV l n f -> t < n -> run (nth t l dflt_thr) = TRun c ->
  forall t', ~ In c (tq (nth t' l dflt_thr)).
Proof.
  intros I Lt R t' H. destruct (l_q _ _ _ I t' c H) as [K _].
  destruct (lv_running l n f t c I Lt R K) as (_ & Z & _ & Oth).
  destruct (Nat.eq_dec t' t) as [->|N]; [apply (count_zero_not_in _ _ Z); exact H|].
  destruct (le_lt_dec n t') as [G|G].
  - rewrite nth_dflt_thr in H by (rewrite (l_len _ _ _ I); exact G). contradiction.
  - apply (wt_zero_not_in c _ (Oth t' G N)). exact H.
Qed.

Lemma running_plain_self l n f t c : LV l n f -> run (nth t l dflt_thr) = TRun c -> kd (f c) = KPlain -> c = t.
Proof. intros I R K. destruct (l_run _ _ _ I t c R) as [Q|Q]; [congruence|exact Q]. Qed.

Lemma kd_upd f c v' x : kd v' = kd (f c) -> kd (upd f c v' x) = kd (f x).
Proof. intros E. unfold upd. destruct (Nat.eqb_spec x c); [subst; exact E|reflexivity]. Qed.

(* A: the running task moves between live pcs; threads unchanged *)
Lemma lv_pc l n f t c v' : LV l n f -> t < n -> run (nth t l dflt_thr) = TRun c ->
  live (pf (f c)) = true -> kd v' = kd (f c) -> live (pf v') = true -> LV l n (upd f c v').
Proof.
  intros I Lt R Lc Kv Lv. rewrite <- (set_nth_same_id l t dflt_thr).
  pose proof (running_not_queued l n f t c I Lt R) as NQ.
  apply lv_update with (f := f); try assumption.
  - intros x. apply kd_upd. exact Kv.
  - intros x Kx. upd_case x c; [|reflexivity]. unfold lw. rewrite Lc, Lv. reflexivity.
  - apply (l_run _ _ _ I).
  - intros x Hx. destruct (l_q _ _ _ I t x Hx) as [A B]. split; [exact A|].
    upd_case x c; [exfalso; eapply NQ; exact Hx|exact B].
  - intros Kt. destruct (l_plain _ _ _ I t Lt Kt) as [(A & B & C)|[(c' & A & B & C)|[(c' & A & B)|(A & B)]]];
      try congruence.
    + left. assert (c = t) by congruence. subst c. rewrite upd_same. repeat split; auto.
      intro Z. rewrite Z in Lv. discriminate.
    + right. left. exists c'. assert (c' = c) by congruence. subst c'.
      assert (t <> c) by (intro; subst; congruence).
      rewrite upd_same, upd_other by assumption. rewrite Kv. auto.
  - intros Z. congruence.
  - intros x t' Hx Nt. assert (x = c). { destruct (Nat.eq_dec x c); [assumption|]. rewrite upd_other in Hx by assumption. congruence. }
    subst x. apply NQ.
  - intros t' Nt Kt. rewrite upd_other; [reflexivity|]. intro; subst t'. apply Nt.
    eapply running_plain_self; eassumption.
  - intros x Lx. rewrite upd_other; [apply (l_dom _ _ _ I); exact Lx|]. intro; subst x.
    destruct (l_dom _ _ _ I c Lx) as [_ Z]. rewrite Z in Lc. discriminate.
Qed.

Lemma lw_live p : live p = true -> lw p = 1. Proof. unfold lw. intros ->. reflexivity. Qed.
Lemma lw_dead p : live p = false -> lw p = 0. Proof. unfold lw. intros ->. reflexivity. Qed.

Lemma wt_run_self c q : wt c (mkThr (TRun c) q) = 1 + count_occ Nat.eq_dec q c.
Proof. unfold wt. cbn [run tq wrun]. rewrite Nat.eqb_refl. reflexivity. Qed.
Lemma wt_run_other c c' q : c' <> c -> wt c (mkThr (TRun c') q) = count_occ Nat.eq_dec q c.
Proof. intros N. unfold wt. cbn [run tq wrun]. apply Nat.eqb_neq in N. rewrite N. reflexivity. Qed.
Lemma wt_eta c th : wt c th = wrun c (run th) + count_occ Nat.eq_dec (tq th) c.
Proof. reflexivity. Qed.

(* B: the running coroutine c parks or finishes; its thread is left in the tail of the suspension *)
Lemma lv_vacate l n f t c v' : LV l n f -> t < n -> run (nth t l dflt_thr) = TRun c ->
  kd (f c) = KCoro -> kd v' = KCoro -> live (pf v') = false ->
  LV (set_nth l t (mkThr (TSusp c) (tq (nth t l dflt_thr)))) n (upd f c v').
Proof.
  intros I Lt R Kc Kv Lv.
  pose proof (running_not_queued l n f t c I Lt R) as NQ.
  destruct (lv_running l n f t c I Lt R Kc) as (Lc & Z & _ & _).
  apply lv_update with (f := f); try assumption.
  - intros x. apply kd_upd. congruence.
  - intros x Kx. rewrite (wt_eta x (nth t l dflt_thr)), R. unfold wt at 1. cbn [run tq wrun].
    upd_case x c.
    + rewrite Nat.eqb_refl, (lw_live _ Lc), (lw_dead _ Lv). lia.
    + assert (Q : Nat.eqb c x = false) by (apply Nat.eqb_neq; auto). rewrite Q. lia.
  - cbn [run]. discriminate.
  - cbn [tq]. intros x Hx. destruct (l_q _ _ _ I t x Hx) as [A B]. split; [exact A|].
    upd_case x c; [exfalso; eapply NQ; exact Hx|exact B].
  - intros Kt. assert (t <> c) by (intro; subst; congruence).
    destruct (l_plain _ _ _ I t Lt Kt) as [(A & B & C)|[(c' & A & B & C)|[(c' & A & B)|(A & B)]]]; try congruence.
    right. right. left. exists c. cbn [run]. rewrite upd_other by assumption. auto.
  - cbn [run]. discriminate.
  - intros x t' Hx Nt. assert (x = c). { destruct (Nat.eq_dec x c); [assumption|]. rewrite upd_other in Hx by assumption. congruence. }
    subst x. apply NQ.
  - intros t' Nt Kt. rewrite upd_other; [reflexivity|]. intro; subst t'. congruence.
  - intros x Lx. rewrite upd_other; [apply (l_dom _ _ _ I); exact Lx|]. intro; subst x.
    destruct (l_dom _ _ _ I c Lx) as [Q _]. congruence.
Qed.

(* C: flush_queue resumes the next handle *)
Lemma lv_yield_cons l n f t c0 w r : LV l n f -> t < n -> run (nth t l dflt_thr) = TSusp c0 ->
  tq (nth t l dflt_thr) = w :: r -> LV (set_nth l t (mkThr (TRun w) r)) n f.
Proof.
  intros I Lt R Q.
  assert (Hw : In w (tq (nth t l dflt_thr))) by (rewrite Q; left; reflexivity).
  destruct (l_q _ _ _ I t w Hw) as [Kw Pw].
  apply lv_update with (f := f); try assumption; try (intros; reflexivity).
  - intros x Kx. rewrite (wt_eta x (nth t l dflt_thr)), R, Q. unfold wt. cbn [run tq wrun count_occ].
    destruct (Nat.eq_dec w x) as [->|N]; [rewrite Nat.eqb_refl; lia|].
    apply Nat.eqb_neq in N. rewrite N. lia.
  - cbn [run]. intros x E. inversion E; subst. auto.
  - cbn [tq]. intros x Hx. apply (l_q _ _ _ I t x). rewrite Q. right. exact Hx.
  - intros Kt. destruct (l_plain _ _ _ I t Lt Kt) as [(A & B & C)|[(c' & A & B & C)|[(c' & A & B)|(A & B)]]]; try congruence.
    right. left. exists w. cbn [run]. auto.
  - cbn [run]. discriminate.
  - intros x t' Hx. congruence.
  - apply (l_dom _ _ _ I).
Qed.

(* D: the ready queue is empty: the queue is uninstalled; a plain thread continues its own code *)
Lemma lv_yield_nil l n f t c0 : LV l n f -> t < n -> run (nth t l dflt_thr) = TSusp c0 ->
  tq (nth t l dflt_thr) = [] ->
  LV (set_nth l t (mkThr (match kd (f t), pf (f t) with
                          | KPlain, PDone => TIdle | KPlain, _ => TRun t | KCoro, _ => TIdle end) [])) n f.
Proof.
  intros I Lt R Q.
  apply lv_update with (f := f); try assumption; try (intros; reflexivity).
  - intros x Kx. rewrite (wt_eta x (nth t l dflt_thr)), R, Q. unfold wt. cbn [run tq wrun count_occ].
    destruct (kd (f t)) eqn:Kt; [reflexivity|]. destruct (pf (f t)); cbn [wrun]; try reflexivity;
      (assert (Z : Nat.eqb t x = false) by (apply Nat.eqb_neq; intro; subst; congruence)); rewrite Z; reflexivity.
  - cbn [run]. intros x. destruct (kd (f t)); [discriminate|]. destruct (pf (f t)); intros E; inversion E; auto.
  - cbn [tq]. contradiction.
  - intros Kt. rewrite Kt. destruct (l_plain _ _ _ I t Lt Kt) as [(A & B & C)|[(c' & A & B & C)|[(c' & A & B)|(A & B)]]]; try congruence.
    rewrite B. left. cbn [run tq]. repeat split. congruence.
  - intros x t' Hx. congruence.
  - apply (l_dom _ _ _ I).
Qed.

(* E: a plain thread finishes *)
Lemma lv_plain_done l n f t v' : LV l n f -> t < n -> run (nth t l dflt_thr) = TRun t ->
  kd (f t) = KPlain -> kd v' = KPlain -> pf v' = PDone ->
  LV (set_nth l t (mkThr TIdle (tq (nth t l dflt_thr)))) n (upd f t v').
Proof.
  intros I Lt R Kt Kv Pv.
  assert (Q : tq (nth t l dflt_thr) = []).
  { destruct (l_plain _ _ _ I t Lt Kt) as [(A & B & C)|[(c' & A & B & C)|[(c' & A & B)|(A & B)]]]; try congruence. }
  pose proof (running_not_queued l n f t t I Lt R) as NQ.
  apply lv_update with (f := f); try assumption.
  - intros x. apply kd_upd. congruence.
  - intros x Kx. assert (x <> t) by (intro; subst; congruence). rewrite upd_other by assumption.
    rewrite (wt_eta x (nth t l dflt_thr)), R, Q. unfold wt. cbn [run tq wrun count_occ].
    assert (Z : Nat.eqb t x = false) by (apply Nat.eqb_neq; auto). rewrite Z. reflexivity.
  - cbn [run]. discriminate.
  - rewrite Q. cbn [tq]. contradiction.
  - intros _. right. right. right. cbn [run]. rewrite upd_same. auto.
  - intros _. cbn [tq]. exact Q.
  - intros x t' Hx Nt. assert (x = t). { destruct (Nat.eq_dec x t); [assumption|]. rewrite upd_other in Hx by assumption. congruence. }
    subst x. apply NQ.
  - intros t' Nt Kt'. rewrite upd_other by exact Nt. reflexivity.
  - intros x Lx. rewrite upd_other by lia. apply (l_dom _ _ _ I). exact Lx.
Qed.

(* F: hand-over from the running task c to the parked coroutine w, in the three release flavours *)
Lemma lv_handover l n f t c w vc' vw' x : LV l n f -> t < n -> run (nth t l dflt_thr) = TRun c ->
  live (pf (f c)) = true -> kd (f w) = KCoro -> live (pf (f w)) = false -> w <> c ->
  kd vc' = kd (f c) -> pf vc' = PStep -> kd vw' = KCoro -> pf vw' = PCs ->
  (kd (f c) = KPlain /\ x = mkThr (TRun w) (tq (nth t l dflt_thr)) \/
   kd (f c) = KCoro /\ x = mkThr (TRun w) (tq (nth t l dflt_thr) ++ [c]) \/
   kd (f c) = KCoro /\ x = mkThr (TRun c) (tq (nth t l dflt_thr) ++ [w])) ->
  LV (set_nth l t x) n (upd (upd f c vc') w vw').
Proof.
  intros I Lt R Lc Kw Pw Nwc Kvc Pvc Kvw Pvw X.
  pose proof (running_not_queued l n f t c I Lt R) as NQ.
  pose proof (nowhere l n f w I Kw Pw) as NW.
  assert (NWq : forall t', ~ In w (tq (nth t' l dflt_thr))) by (intros t'; apply wt_zero_not_in; apply NW).
  assert (CW : count_occ Nat.eq_dec (tq (nth t l dflt_thr)) w = 0) by (pose proof (NW t) as Q; unfold wt in Q; lia).
  assert (F'c : upd (upd f c vc') w vw' c = vc') by (rewrite upd_other by auto; apply upd_same).
  assert (F'w : upd (upd f c vc') w vw' w = vw') by apply upd_same.
  assert (F'o : forall y, y <> c -> y <> w -> upd (upd f c vc') w vw' y = f y) by (intros; rewrite !upd_other by assumption; reflexivity).
  assert (Ecw : Nat.eqb c w = false) by (apply Nat.eqb_neq; auto).
  assert (Ewc : Nat.eqb w c = false) by (apply Nat.eqb_neq; auto).
  apply lv_update with (f := f); try assumption.
  - intros y. destruct (Nat.eq_dec y w) as [->|N1]; [rewrite F'w; congruence|].
    destruct (Nat.eq_dec y c) as [->|N2]; [rewrite F'c; congruence|]. rewrite F'o by assumption. reflexivity.
  - intros y Ky. rewrite (wt_eta y (nth t l dflt_thr)), R. cbn [wrun].
    destruct (Nat.eq_dec y w) as [->|N1].
    + rewrite F'w, Pvw, ?Ewc, ?Ecw, (lw_dead _ Pw). cbn [lw live]. rewrite ?CW.
      destruct X as [[Kc ->]|[[Kc ->]|[Kc ->]]]; unfold wt; cbn [run tq wrun]; rewrite ?Nat.eqb_refl, ?Ewc, ?Ecw, ?count_occ_app_one, ?CW, ?Nat.eqb_refl, ?Ecw; lia.
    + destruct (Nat.eq_dec y c) as [->|N2].
      * destruct (lv_running l n f t c I Lt R Ky) as (_ & Z & _ & _).
        rewrite F'c, Pvc, ?Nat.eqb_refl, (lw_live _ Lc), ?Z. cbn [lw live].
        destruct X as [[Kc ->]|[[Kc ->]|[Kc ->]]]; [congruence| |]; unfold wt; cbn [run tq wrun];
          rewrite ?Nat.eqb_refl, ?Ewc, ?Ecw, ?count_occ_app_one, ?Z, ?Nat.eqb_refl, ?Ewc; lia.
      * rewrite F'o by assumption.
        assert (E1 : Nat.eqb c y = false) by (apply Nat.eqb_neq; auto).
        assert (E2 : Nat.eqb w y = false) by (apply Nat.eqb_neq; auto). rewrite E1.
        destruct X as [[Kc ->]|[[Kc ->]|[Kc ->]]]; unfold wt; cbn [run tq wrun];
          rewrite ?E1, ?E2, ?count_occ_app_one, ?E1, ?E2; lia.
  - intros y. destruct X as [[Kc ->]|[[Kc ->]|[Kc ->]]]; cbn [run]; intros E; inversion E; subst; auto.
  - intros y Hy.
    assert (Old : In y (tq (nth t l dflt_thr)) -> kd (f y) = KCoro /\ (pf (upd (upd f c vc') w vw' y) = PCs \/ pf (upd (upd f c vc') w vw' y) = PStep)).
    { intros Q. destruct (l_q _ _ _ I t y Q) as [A B]. split; [exact A|].
      rewrite F'o; [exact B| |]; intro; subst y; [eapply NQ|eapply NWq]; exact Q. }
    destruct X as [[Kc ->]|[[Kc ->]|[Kc ->]]]; cbn [tq] in Hy.
    + apply Old. exact Hy.
    + apply in_app_or in Hy. destruct Hy as [Hy|[<-|[]]]; [apply Old; exact Hy|]. rewrite F'c, Pvc. auto.
    + apply in_app_or in Hy. destruct Hy as [Hy|[<-|[]]]; [apply Old; exact Hy|]. rewrite F'w, Pvw. auto.
  - intros Kt. assert (Ntw : t <> w) by (intro; subst; congruence).
    destruct (l_plain _ _ _ I t Lt Kt) as [(A & B & C)|[(c' & A & B & C)|[(c' & A & B)|(A & B)]]]; try congruence.
    + assert (c = t) by congruence. subst c.
      destruct X as [[Kc ->]|[[Kc ->]|[Kc ->]]]; try congruence.
      right. left. exists w. cbn [run]. rewrite F'w, F'c. auto.
    + assert (c' = c) by congruence. subst c'. assert (Ntc : t <> c) by (intro; subst; congruence).
      right. left. destruct X as [[Kc ->]|[[Kc ->]|[Kc ->]]]; try congruence.
      * exists w. cbn [run]. rewrite F'w, F'o by assumption. auto.
      * exists c. cbn [run]. rewrite F'c, F'o by assumption. split; [reflexivity|]. split; [congruence|exact C].
  - destruct X as [[Kc ->]|[[Kc ->]|[Kc ->]]]; cbn [run]; discriminate.
  - intros y t' Hy Nt. destruct (Nat.eq_dec y w) as [->|N1]; [apply NWq|].
    destruct (Nat.eq_dec y c) as [->|N2]; [apply NQ|]. rewrite F'o in Hy by assumption. congruence.
  - intros t' Nt Kt'. apply f_equal. apply F'o.
    + intro; subst t'. apply Nt. eapply running_plain_self; eassumption.
    + intro; subst t'. congruence.
  - intros y Ly. destruct (l_dom _ _ _ I y Ly) as [A B]. rewrite F'o; [auto| |].
    + intro; subst y. rewrite B in Lc. discriminate.
    + intro; subst y. congruence.
Qed.

(* ================================================================ part 2: the model state *)
Definition LInv (s : st) : Prop := LV (thrs s) (length (tasks s)) (tvs s).

(* summary of a result state: its thread list, its task views; the number of tasks is unchanged *)
Definition eff (s s' : st) (l' : list thr) (f' : nat -> tview) : Prop :=
  thrs s' = l' /\ length (tasks s') = length (tasks s) /\ forall x, tvs s' x = f' x.

Lemma linv_eff s s' l' f' : eff s s' l' f' -> LV l' (length (tasks s)) f' -> LInv s'.
Proof.
  intros (A & B & C) I. unfold LInv. rewrite A, B.
  apply lv_ext with (f := f'); [intros x; rewrite C; reflexivity|intros x; rewrite C; reflexivity|exact I].
Qed.

Lemma eff_refl s : eff s s (thrs s) (tvs s).
Proof. repeat split. Qed.

Lemma eff_set_task s s1 l f c y : eff s s1 l f -> c < length (tasks s) ->
  eff s (set_task s1 c y) l (upd f c (tvw y)).
Proof.
  intros (A & B & C) L. split; [exact A|]. split; [rewrite set_task_len; exact B|].
  intros x. rewrite tvs_set_task by (rewrite B; exact L). unfold upd. destruct (Nat.eqb x c); [reflexivity|apply C].
Qed.

Lemma eff_enter s s1 l f w : eff s s1 l f -> eff s (enter s1 w) l f.
Proof.
  intros (A & B & C). destruct (same_enter s1 w) as (V & _ & T). split; [exact A|]. split; [congruence|].
  intros x. rewrite <- C. destruct V as (_ & _ & _ & _ & _ & _ & _ & _ & _ & _ & V). symmetry. apply (V x).
Qed.

Lemma eff_set_run s s1 l f t r : eff s s1 l f ->
  eff s (set_run s1 t r) (set_nth l t (mkThr r (tq (nth t l dflt_thr)))) f.
Proof. intros (A & B & C). unfold set_run, gthr. rewrite A. repeat split; assumption. Qed.

Lemma eff_set_tq s s1 l f t q : eff s s1 l f ->
  eff s (set_tq s1 t q) (set_nth l t (mkThr (run (nth t l dflt_thr)) q)) f.
Proof. intros (A & B & C). unfold set_tq, gthr. rewrite A. repeat split; assumption. Qed.

Definition yield_thr (l : list thr) (f : nat -> tview) (t : nat) : thr :=
  match tq (nth t l dflt_thr) with
  | w :: r => mkThr (TRun w) r
  | [] => mkThr (match kd (f t), pf (f t) with KPlain, PDone => TIdle | KPlain, _ => TRun t | KCoro, _ => TIdle end) []
  end.

Lemma nth_set_nth_eq {A} (l : list A) t x d : t < length l -> nth t (set_nth l t x) d = x.
Proof. intros L. apply nth_set_nth_same. exact L. Qed.

Lemma eff_yield s s1 l f t : eff s s1 l f -> t < length l -> eff s (yield s1 t) (set_nth l t (yield_thr l f t)) f.
Proof.
  intros E L. pose proof E as (A & B & C). unfold yield, yield_thr, gthr. rewrite A.
  destruct (tq (nth t l dflt_thr)) as [|w r] eqn:Q.
  - assert (K : tk (gtask s1 t) = kd (f t)) by (rewrite <- C; reflexivity).
    assert (P : tpc (gtask s1 t) = pf (f t)) by (rewrite <- C; reflexivity).
    rewrite K, P.
    assert (G : forall r0, eff s (set_run s1 t r0) (set_nth l t (mkThr r0 [])) f).
    { intros r0. pose proof (eff_set_run s s1 l f t r0 E) as G. rewrite Q in G. exact G. }
    destruct (kd (f t)); [apply G|]. destruct (pf (f t)); apply G.
  - assert (G : eff s (set_run (set_tq s1 t r) t (TRun w)) (set_nth l t (mkThr (TRun w) r)) f).
    { pose proof (eff_set_run s _ _ f t (TRun w) (eff_set_tq s s1 l f t r E)) as G.
      rewrite set_nth_twice, nth_set_nth_eq in G by exact L. exact G. }
    match goal with |- eff s (match ?p with _ => _ end) _ _ => destruct p end; try exact G.
    apply eff_enter. exact G.
Qed.

Lemma yield_thr_vac l f t c : t < length l ->
  set_nth (set_nth l t (mkThr (TSusp c) (tq (nth t l dflt_thr)))) t
          (yield_thr (set_nth l t (mkThr (TSusp c) (tq (nth t l dflt_thr)))) f t) = set_nth l t (yield_thr l f t).
Proof.
  intros L. rewrite set_nth_twice. unfold yield_thr. rewrite nth_set_nth_eq by exact L. reflexivity.
Qed.

Lemma lv_yield l n f t c0 : LV l n f -> t < n -> run (nth t l dflt_thr) = TSusp c0 ->
  LV (set_nth l t (yield_thr l f t)) n f.
Proof.
  intros I Lt R. unfold yield_thr. destruct (tq (nth t l dflt_thr)) as [|w r] eqn:Q.
  - eapply lv_yield_nil; eassumption.
  - eapply lv_yield_cons; eassumption.
Qed.

(* the running coroutine c parks / finishes and the thread goes on with its ready queue *)
Lemma lv_vacate_yield l n f t c v' : LV l n f -> t < n -> run (nth t l dflt_thr) = TRun c ->
  kd (f c) = KCoro -> kd v' = KCoro -> live (pf v') = false ->
  LV (set_nth l t (yield_thr l (upd f c v') t)) n (upd f c v').
Proof.
  intros I Lt R K Kv Lv. pose proof (l_len _ _ _ I) as Ln.
  rewrite <- (yield_thr_vac l (upd f c v') t c) by lia.
  eapply lv_yield; [eapply lv_vacate; eassumption|exact Lt|].
  rewrite nth_set_nth_eq by lia. reflexivity.
Qed.

Lemma cwait_coro k p fl : cls (k, p, fl) = CWait -> k = KCoro -> p = PParked.
Proof. intros C ->. destruct p; cbn in C; try discriminate; reflexivity. Qed.

Lemma handover_linv s t c vh : LInv s -> length (next s) = length (tasks s) -> t < length (tasks s) ->
  run (gthr s t) = TRun c -> live (tpc (gtask s c)) = true -> c < length (tasks s) ->
  Inv (mkV (requests s) (queue s) (next s) (dnext s) (err s) (owner s) (gstack s) (gqueue s) (alog s) (glog s)
           (upd (tvs s) c vh)) ->
  cls vh = CHold -> queue s <> PNull -> LInv (handover s t c).
Proof.
  intros LI L Lt R Lc Lcn I Hh Q. unfold gthr in R.
  destruct (queue s) as [| |w] eqn:EQ; [contradiction| |].
  - exfalso. pose proof (i_queue _ I) as RQ. cbn [v_next v_q v_gq] in RQ.
    destruct (repr_nil_inv _ _ _ _ RQ); [discriminate|discriminate].
  - set (yc := t_endround (gtask s c) false).
    destruct (inv_handover _ c w (tvw yc) (KCoro, PCs, false) I) as (Ww & Nwc & _ & _);
      [cbn [v_tv]; rewrite upd_same; exact Hh|reflexivity|reflexivity|reflexivity|].
    cbn [v_tv] in Ww. rewrite upd_other in Ww by exact Nwc.
    assert (Lw : w < length (tasks s)).
    { apply task_lt. intro Z. unfold tvs, tvw in Ww. rewrite Z in Ww. cbn in Ww. discriminate. }
    unfold handover. rewrite EQ. cbv zeta.
    set (s1 := s_mem s (requests s) (gnext s w) (set_nth (next s) w PNull) (dnext s)).
    set (s2 := s_ghost s1 (Some w) (gstack s1) (tl (gqueue s1)) (alog s1) (glog s1 ++ [w])).
    set (s3 := set_task s2 c (t_endround (gtask s2 c) false)).
    assert (E3 : eff s s3 (thrs s) (upd (tvs s) c (tvw yc))).
    { exact (eff_set_task s2 s2 (thrs s) (tvs s) c _ (eff_refl s2) Lcn). }
    assert (G3 : gtask s3 w = gtask s w) by (unfold s3; rewrite gtask_set_task_other by exact Nwc; reflexivity).
    assert (G3c : gtask s3 c = yc) by (unfold s3; rewrite gtask_set_task by exact Lcn; rewrite Nat.eqb_refl; reflexivity).
    rewrite G3.
    assert (Kc' : kd (tvw yc) = kd (tvs s c)) by reflexivity.
    assert (Pc' : pf (tvw yc) = PStep) by reflexivity.
    destruct (tk (gtask s w)) eqn:Kw.
    + (* coroutine waiter *)
      assert (Pw : tpc (gtask s w) = PParked) by (eapply cwait_coro; [exact Ww|exact Kw]).
      assert (E4 : eff s (set_pc s3 w PCs) (thrs s) (upd (upd (tvs s) c (tvw yc)) w (tvw (t_pc (gtask s3 w) PCs)))).
      { unfold set_pc. apply eff_set_task; assumption. }
      assert (G4c : gtask (set_pc s3 w PCs) c = yc).
      { unfold set_pc. rewrite gtask_set_task_other by auto. exact G3c. }
      assert (T4 : gthr (set_pc s3 w PCs) t = nth t (thrs s) dflt_thr) by reflexivity.
      rewrite G4c, T4. unfold yc at 1 2. cbn [t_endround tk crel].
      assert (Hand : forall x,
        (tk (gtask s c) = KPlain /\ x = mkThr (TRun w) (tq (nth t (thrs s) dflt_thr)) \/
         tk (gtask s c) = KCoro /\ x = mkThr (TRun w) (tq (nth t (thrs s) dflt_thr) ++ [c]) \/
         tk (gtask s c) = KCoro /\ x = mkThr (TRun c) (tq (nth t (thrs s) dflt_thr) ++ [w])) ->
        LV (set_nth (thrs s) t x) (length (tasks s)) (upd (upd (tvs s) c (tvw yc)) w (tvw (t_pc (gtask s3 w) PCs)))).
      { intros x X. apply (lv_handover (thrs s) _ (tvs s) t c w (tvw yc) _ x LI Lt R Lc Kw); try reflexivity; try assumption.
        - unfold tvs, tvw, pf. cbn [fst snd]. rewrite Pw. reflexivity.
        - unfold tvw, kd, t_pc. cbn [fst snd tk]. rewrite G3. exact Kw. }
      pose proof (l_len _ _ _ LI) as Ln.
      destruct (tk (gtask s c)) eqn:Kc; [destruct (crel (gtask s c)) eqn:Rl|].
      * eapply linv_eff; [apply eff_set_tq; exact E4|]. rewrite R. apply Hand. right. right. auto.
      * eapply linv_eff; [apply eff_set_tq; exact E4|]. rewrite R. apply Hand. right. right. auto.
      * eapply linv_eff; [apply eff_enter; apply eff_set_run; apply eff_set_tq; exact E4|].
        rewrite set_nth_twice, nth_set_nth_eq by lia. cbn [tq]. apply Hand. right. left. auto.
      * eapply linv_eff; [apply eff_enter; apply eff_set_run; exact E4|]. apply Hand. left. auto.
    + (* blocking waiter: flag only *)
      eapply linv_eff; [apply eff_set_task; [exact E3|exact Lw]|].
      apply lv_ext with (f := upd (tvs s) c (tvw yc)).
      * intros x. unfold upd at 1. destruct (Nat.eqb_spec x w) as [->|N]; [|reflexivity].
        rewrite upd_other by exact Nwc. reflexivity.
      * intros x. unfold upd at 1. destruct (Nat.eqb_spec x w) as [->|N]; [|reflexivity].
        rewrite upd_other by exact Nwc. reflexivity.
      * apply (lv_pc (thrs s) _ (tvs s) t c (tvw yc) LI Lt R Lc); reflexivity.
Qed.

Lemma eff_conv s s1 : thrs s1 = thrs s -> tasks s1 = tasks s -> eff s s1 (thrs s) (tvs s).
Proof. intros A B. unfold eff, tvs, gtask. rewrite A, B. repeat split. Qed.

Lemma enabled_lt s t : enabled s t = true -> t < length (thrs s).
Proof.
  unfold enabled. intros E. apply andb_true_iff in E. destruct E as [_ E].
  destruct (nth_error (thrs s) t) eqn:N; [|discriminate]. apply nth_error_Some. congruence.
Qed.

Lemma build_queue_frame s stop : thrs (build_queue s stop) = thrs s /\ tasks (build_queue s stop) = tasks s.
Proof. unfold build_queue. destruct (bq_walk _ _ _ _ _ _) as [[nx dn] q]. split; reflexivity. Qed.

Ltac pc_case LI Lt R P Lc :=
  eapply linv_eff;
  [ first [ apply eff_enter; apply eff_set_task; [apply eff_conv; first [reflexivity|apply build_queue_frame] | exact Lc]
          | apply eff_set_task; [apply eff_conv; first [reflexivity|apply build_queue_frame] | exact Lc] ]
  | apply (lv_pc _ _ _ _ _ _ LI Lt R);
    [unfold tvs, tvw, pf; cbn [fst snd]; rewrite P; reflexivity | reflexivity | reflexivity] ].

Lemma step_linv s t : SInv s -> LInv s -> enabled s t = true -> LInv (fst (fst (tstep s t))).
Proof.
  intros SI LI En. pose proof SI as [L I]. pose proof (l_len _ _ _ LI) as Ln.
  assert (Lt : t < length (tasks s)) by (rewrite <- Ln; apply enabled_lt; exact En).
  unfold tstep. destruct (run (gthr s t)) as [|c|c] eqn:R; cbn [fst].
  - exact LI.
  - unfold gthr in R.
    destruct (tpc (gtask s c)) eqn:P; cbn [fst];
      try (assert (Lc : c < length (tasks s)) by (apply task_lt; rewrite P; discriminate)).
    + (* PStep *)
      destruct (prog (gtask s c)) as [|[a r] p]; cbn [fst].
      * destruct (tk (gtask s c)) eqn:K.
        -- eapply linv_eff; [apply eff_yield; [unfold set_pc; apply eff_set_task; [apply eff_refl|exact Lc]|lia]|].
           apply lv_vacate_yield; try assumption; reflexivity.
        -- assert (c = t) by (eapply running_plain_self; eassumption). subst c.
           eapply linv_eff; [apply eff_set_run; unfold set_pc; apply eff_set_task; [apply eff_refl|exact Lc]|].
           apply lv_plain_done; try assumption; reflexivity.
      * pc_case LI Lt R P Lc.
    + (* PTry *)
      destruct (requests s) eqn:Rq; cbn [fst].
      * unfold set_pc. pc_case LI Lt R P Lc.
      * destruct (cacq (gtask s c)); [unfold set_pc|]; pc_case LI Lt R P Lc.
      * destruct (cacq (gtask s c)); [unfold set_pc|]; pc_case LI Lt R P Lc.
    + (* PSub *)
      cbv zeta.
      assert (Park : forall s1, thrs s1 = thrs s -> tasks s1 = tasks s -> tk (gtask s c) = KCoro ->
                LInv (set_run (set_pc s1 c PParked) t (TSusp c))).
      { intros s1 A B K. eapply (linv_eff s); [apply eff_set_run; unfold set_pc; apply eff_set_task; [apply eff_conv; assumption|exact Lc]|].
        apply lv_vacate; try assumption; try reflexivity. unfold tvw, kd, t_pc. cbn [fst snd tk].
        unfold gtask. rewrite B. exact K. }
      destruct (requests s) eqn:Rq; cbn [fst].
      * unfold set_pc. pc_case LI Lt R P Lc.
      * destruct (tk (gtask s c)) eqn:K; cbn [fst]; [apply Park; auto|pc_case LI Lt R P Lc].
      * destruct (tk (gtask s c)) eqn:K; cbn [fst]; [apply Park; auto|pc_case LI Lt R P Lc].
    + unfold set_pc. pc_case LI Lt R P Lc.
    + unfold set_pc. pc_case LI Lt R P Lc.
    + unfold set_pc, build_queue. destruct (bq_walk _ _ _ _ _ _) as [[nx dn] q]. pc_case LI Lt R P Lc.
    + exact LI.
    + pc_case LI Lt R P Lc.
    + pc_case LI Lt R P Lc.
    + (* PUnlock *)
      assert (Hc : cls (v_tv (vw s) c) = CHold) by (cbn [vw v_tv]; unfold tvs, tvw; rewrite P; reflexivity).
      assert (Hand : queue s <> PNull -> LInv (handover s t c)).
      { intros Q. apply handover_linv with (vh := tvs s c); try assumption.
        - rewrite P. reflexivity.
        - eapply inv_veq; [|exact I]. veq_fields. intros x. symmetry. apply upd_id. }
      destruct (queue s) eqn:Q; cbn [fst].
      * destruct (requests s) eqn:Rq; cbn [fst]; [unfold set_pc| |unfold set_pc]; pc_case LI Lt R P Lc.
      * apply Hand. discriminate.
      * apply Hand. discriminate.
    + (* PBqU *)
      assert (Cc : cls (v_tv (vw s) c) = CBqU) by (cbn [vw v_tv]; unfold tvs, tvw; rewrite P; reflexivity).
      destruct (inv_bq (vw s) c PDoor (length (tasks s) + 2) (tk (gtask s c), PUnlock, flag (gtask s c)) I)
        as (nx & q' & E & I2 & NE & Lnx).
      { right. split; [exact Cc|reflexivity]. }
      { reflexivity. }
      { cbn [vw v_next]. lia. }
      cbn [vw v_req v_q v_next v_dn v_err v_own v_gs v_gq v_al v_gl v_tv] in E, I2, NE, Lnx.
      rewrite (build_queue_eq s PDoor nx q' E).
      apply handover_linv with (vh := (tk (gtask s c), PUnlock, flag (gtask s c))).
      * exact LI.
      * cbn. congruence.
      * exact Lt.
      * exact R.
      * change (live (tpc (gtask s c)) = true). rewrite P. reflexivity.
      * exact Lc.
      * exact I2.
      * reflexivity.
      * cbn. destruct NE as (w & ->); [|discriminate]. apply (i_bqu _ I c Cc).
    + exact LI.
  - (* tail of await_suspend *)
    unfold gthr in R.
    eapply linv_eff; [apply eff_yield; [apply eff_refl|lia]|]. eapply lv_yield; eassumption.
Qed.

(* ================================================================ part 3: initial state, reachability, theorems *)
Lemma init_thrs_len n from : length (init_thrs n from) = n.
Proof. revert from; induction n as [|n IH]; intros from; cbn; auto. Qed.

Lemma nth_init_thrs n : forall from t, t < n -> nth t (init_thrs n from) dflt_thr = mkThr (TRun (from + t)) [].
Proof.
  induction n as [|n IH]; intros from [|t] L; cbn [init_thrs nth]; try lia.
  - rewrite Nat.add_0_r. reflexivity.
  - rewrite IH by lia. f_equal. f_equal. lia.
Qed.

Lemma occ_init n : forall from c, occ (init_thrs n from) c = if Nat.leb from c && Nat.ltb c (from + n) then 1 else 0.
Proof.
  induction n as [|n IH]; intros from c; cbn [init_thrs occ].
  - destruct (Nat.leb_spec from c), (Nat.ltb_spec c (from + 0)); cbn; try reflexivity; lia.
  - rewrite IH. unfold wt. cbn [run tq wrun count_occ].
    destruct (Nat.eqb_spec from c), (Nat.leb_spec (S from) c), (Nat.ltb_spec c (S from + n)),
      (Nat.leb_spec from c), (Nat.ltb_spec c (from + S n)); cbn; try reflexivity; lia.
Qed.

Lemma init_pc_lt ops c : c < length (tasks (init ops)) -> tpc (gtask (init ops) c) = PStep.
Proof.
  intros L. unfold gtask. unfold init in *. cbn [tasks] in *.
  pose proof (nth_In _ dflt_task L) as H. apply in_flat_map in H. destruct H as (l & _ & H).
  eapply decode_task_pc. exact H.
Qed.

Lemma init_linv ops : LInv (init ops).
Proof.
  unfold LInv. set (n := length (tasks (init ops))).
  assert (TH : thrs (init ops) = init_thrs n 0) by reflexivity. rewrite TH.
  assert (NT : forall t, nth t (init_thrs n 0) dflt_thr = if Nat.ltb t n then mkThr (TRun t) [] else dflt_thr).
  { intros t. destruct (Nat.ltb_spec t n); [rewrite nth_init_thrs by assumption; reflexivity|].
    apply nth_overflow. rewrite init_thrs_len. assumption. }
  assert (DM : forall c, n <= c -> tvs (init ops) c = dflt_tv).
  { intros c Lc. unfold tvs, gtask. rewrite nth_overflow by exact Lc. reflexivity. }
  constructor.
  - apply init_thrs_len.
  - intros c K. rewrite occ_init. cbn [Nat.leb andb Nat.add].
    destruct (Nat.ltb_spec c n) as [Lc|Lc].
    + unfold tvs, tvw, pf. cbn [fst snd]. rewrite init_pc_lt by exact Lc. reflexivity.
    + rewrite DM in K by exact Lc. discriminate.
  - intros t c. rewrite NT. destruct (Nat.ltb t n); cbn [run dflt_thr]; [|discriminate]. intros E. inversion E. auto.
  - intros t c. rewrite NT. destruct (Nat.ltb t n); cbn [tq dflt_thr]; contradiction.
  - intros t Lt K. left. rewrite NT. assert (Q : Nat.ltb t n = true) by (apply Nat.ltb_lt; exact Lt). rewrite Q.
    cbn [run tq]. repeat split. unfold tvs, tvw, pf. cbn [fst snd]. rewrite init_pc_lt by exact Lt. discriminate.
  - intros t. rewrite NT. destruct (Nat.ltb t n); cbn [run tq dflt_thr]; [discriminate|reflexivity].
  - intros c Lc. rewrite DM by exact Lc. split; reflexivity.
Qed.

Lemma reachable_linv ops s : reachable ops s -> LInv s.
Proof.
  induction 1 as [|s t R IH En]; [apply init_linv|].
  apply step_linv; [eapply reachable_inv; exact R|exact IH|exact En].
Qed.

(* ---------- a coroutine is in at most one place ---------- *)
Lemma gthr_out s t : length (thrs s) <= t -> gthr s t = dflt_thr.
Proof. intros. unfold gthr. apply nth_overflow. assumption. Qed.

Lemma one_place ops s c : reachable ops s -> tk (gtask s c) = KCoro ->
  occ (thrs s) c = (if live (tpc (gtask s c)) then 1 else 0) /\
  (forall t t', run (gthr s t) = TRun c -> run (gthr s t') = TRun c -> t = t') /\
  (forall t t', run (gthr s t) = TRun c -> ~ In c (tq (gthr s t'))) /\
  (forall t t', In c (tq (gthr s t)) -> In c (tq (gthr s t')) -> t = t') /\
  (forall t, count_occ Nat.eq_dec (tq (gthr s t)) c <= 1) /\
  (live (tpc (gtask s c)) = false -> forall t, run (gthr s t) <> TRun c /\ ~ In c (tq (gthr s t))).
Proof.
  intros R K. pose proof (reachable_linv _ _ R) as LI. pose proof (l_occ _ _ _ LI c K) as O.
  pose proof (l_len _ _ _ LI) as Ln. unfold tvs, tvw, pf in O. cbn [fst snd] in O.
  assert (OUT : forall t, length (thrs s) <= t -> run (gthr s t) = TIdle /\ tq (gthr s t) = [])
    by (intros t G; rewrite gthr_out by exact G; split; reflexivity).
  assert (W1 : forall t, run (gthr s t) = TRun c -> t < length (thrs s) /\ 1 <= wt c (gthr s t)).
  { intros t E. destruct (le_lt_dec (length (thrs s)) t) as [G|G]; [destruct (OUT t G); congruence|].
    split; [exact G|]. unfold wt. rewrite E. cbn [wrun]. rewrite Nat.eqb_refl. lia. }
  assert (W2 : forall t, In c (tq (gthr s t)) -> t < length (thrs s) /\ 1 <= wt c (gthr s t)).
  { intros t E. destruct (le_lt_dec (length (thrs s)) t) as [G|G]; [destruct (OUT t G) as [_ Z]; rewrite Z in E; contradiction|].
    split; [exact G|]. unfold wt. apply (count_occ_In Nat.eq_dec) in E. lia. }
  assert (LE : occ (thrs s) c <= 1) by (rewrite O; destruct (live _); lia).
  assert (TWO : forall t t', t < length (thrs s) -> t' < length (thrs s) -> 1 <= wt c (gthr s t) -> 1 <= wt c (gthr s t') -> t = t').
  { intros t t' G G' A B. destruct (Nat.eq_dec t t') as [|N]; [assumption|].
    pose proof (occ_two (thrs s) t t' c G G' N). unfold gthr in *. lia. }
  split; [exact O|]. split; [|split; [|split; [|split]]].
  - intros t t' A B. destruct (W1 t A), (W1 t' B). apply TWO; assumption.
  - intros t t' A B. destruct (W1 t A) as [G1 X1], (W2 t' B) as [G2 X2].
    assert (t = t') by (apply TWO; assumption). subst t'.
    pose proof (occ_ge (thrs s) t c G1) as Q. unfold gthr in *. unfold wt in Q. rewrite A in Q. cbn [wrun] in Q.
    rewrite Nat.eqb_refl in Q. apply (count_occ_In Nat.eq_dec) in B. lia.
  - intros t t' A B. destruct (W2 t A), (W2 t' B). apply TWO; assumption.
  - intros t. destruct (le_lt_dec (length (thrs s)) t) as [G|G]; [destruct (OUT t G) as [_ Z]; rewrite Z; cbn; lia|].
    pose proof (occ_ge (thrs s) t c G) as Q. unfold gthr. unfold wt in Q. lia.
  - intros D t. rewrite D in O. split.
    + intros A. destruct (W1 t A) as [G X]. pose proof (occ_ge (thrs s) t c G). unfold gthr in *. lia.
    + intros A. destruct (W2 t A) as [G X]. pose proof (occ_ge (thrs s) t c G). unfold gthr in *. lia.
Qed.

(* ---------- deadlock freedom ---------- *)
Lemma occ_pos_ex l c : 0 < occ l c -> exists t, t < length l /\ 0 < wt c (nth t l dflt_thr).
Proof.
  induction l as [|th l IH]; cbn [occ]; [lia|]. intros H.
  destruct (Nat.eq_dec (wt c th) 0) as [Z|Z].
  - destruct IH as (t & A & B); [lia|]. exists (S t). cbn [length nth]. split; [lia|exact B].
  - exists 0. cbn [length nth]. split; lia.
Qed.

Lemma enabled_intro s t : err s = false -> t < length (thrs s) ->
  (exists c, run (gthr s t) = TSusp c) \/
  (exists c, run (gthr s t) = TRun c /\ live (tpc (gtask s c)) = true /\ (tpc (gtask s c) = PFlag -> flag (gtask s c) = true)) ->
  enabled s t = true.
Proof.
  intros E L H. unfold enabled. rewrite E. cbn [negb andb].
  destruct (nth_error (thrs s) t) as [th|] eqn:N; [|apply nth_error_None in N; lia].
  unfold gthr in H. rewrite (nth_error_nth _ _ dflt_thr N) in H. destruct th as [r q]. cbn [run] in H.
  destruct H as [(c & ->)|(c & -> & Lv & Fl)]; [reflexivity|].
  destruct (tpc (gtask s c)); try discriminate; try reflexivity. apply Fl. reflexivity.
Qed.

(* a task that could take a step if an OS thread executed it *)
Definition ready (s : st) (o : nat) : Prop :=
  live (tpc (gtask s o)) = true /\ (tpc (gtask s o) = PFlag -> flag (gtask s o) = true).

Lemma coro_ready ops s c : reachable ops s -> tk (gtask s c) = KCoro -> live (tpc (gtask s c)) = true -> ready s c.
Proof.
  intros R K Lv. split; [exact Lv|]. intros P. exfalso. destruct (reachable_inv _ _ R) as [_ I].
  apply (i_bad _ I c). cbn [vw v_tv]. unfold tvs, tvw. rewrite K, P. reflexivity.
Qed.

Lemma ready_enabled ops s o : reachable ops s -> o < length (tasks s) -> ready s o -> exists t, enabled s t = true.
Proof.
  intros R Lo [Lv Fl]. pose proof (reachable_linv _ _ R) as LI. destruct (reachable_inv _ _ R) as [_ I].
  pose proof (i_err _ I) as Er. cbn [vw v_err] in Er. pose proof (l_len _ _ _ LI) as Ln.
  assert (RunC : forall t c, t < length (tasks s) -> run (gthr s t) = TRun c -> tk (gtask s c) = KCoro -> enabled s t = true).
  { intros t c Lt Rn K. apply enabled_intro; [exact Er|lia|]. right. exists c.
    destruct (lv_running _ _ _ t c LI Lt Rn K) as (Lc & _). split; [exact Rn|].
    apply (coro_ready ops s c R K Lc). }
  destruct (tk (gtask s o)) eqn:K.
  - (* coroutine: it is somewhere *)
    pose proof (l_occ _ _ _ LI o K) as O. unfold tvs, tvw, pf in O. cbn [fst snd] in O. rewrite Lv in O.
    destruct (occ_pos_ex (thrs s) o ltac:(lia)) as (t & Lt & W). rewrite Ln in Lt.
    unfold wt in W. destruct (run (nth t (thrs s) dflt_thr)) as [|c'|c'] eqn:Rn.
    + exfalso. cbn [wrun] in W. pose proof (l_idle _ _ _ LI t Rn) as Z. rewrite Z in W. cbn in W. lia.
    + destruct (tk (gtask s c')) eqn:K'; [exists t; eapply RunC; eassumption|].
      exfalso. assert (c' = t) by (eapply running_plain_self; eassumption). subst c'.
      destruct (l_plain _ _ _ LI t Lt K') as [(A & B & C)|[(c2 & A & B & C)|[(c2 & A & B)|(A & B)]]]; try congruence.
      * rewrite B in W. cbn [wrun count_occ] in W. destruct (Nat.eqb_spec t o); [subst; congruence|lia].
      * assert (c2 = t) by congruence. subst c2. unfold tvs, tvw, kd in B. cbn [fst] in B. congruence.
    + exists t. apply enabled_intro; [exact Er|lia|]. left. exists c'. exact Rn.
  - (* plain thread: its own OS thread executes it, or a nested queue *)
    destruct (l_plain _ _ _ LI o Lo K) as [(A & B & C)|[(c2 & A & B & C)|[(c2 & A & B)|(A & B)]]].
    + exists o. apply enabled_intro; [exact Er|lia|]. right. exists o. auto.
    + exists o. eapply RunC; eassumption.
    + exists o. apply enabled_intro; [exact Er|lia|]. left. exists c2. exact A.
    + exfalso. unfold tvs, tvw, pf in B. cbn [fst snd] in B. rewrite B in Lv. discriminate.
Qed.

Lemma no_stuck_state ops s c : reachable ops s -> c < length (tasks s) -> tpc (gtask s c) <> PDone ->
  exists t, enabled s t = true.
Proof.
  intros R Lc ND. destruct (reachable_inv _ _ R) as [_ I].
  assert (Case : waiting s c \/ ready s c).
  { unfold waiting, ready. pose proof (i_bad _ I c) as B. cbn [vw v_tv] in B. unfold tvs, tvw in B.
    destruct (tpc (gtask s c)) eqn:P; try (right; split; [reflexivity|discriminate]); try (left; exact Logic.I); try congruence.
    destruct (flag (gtask s c)); [right; split; [reflexivity|reflexivity]|left; reflexivity]. }
  destruct Case as [W|Rd]; [|eapply ready_enabled; eassumption].
  destruct (direct_handoff _ _ _ R W) as (_ & o & Ho & _).
  assert (Lo : o < length (tasks s)).
  { apply task_lt. unfold holds in Ho. intro Z. rewrite Z in Ho. exact Ho. }
  eapply ready_enabled; [exact R|exact Lo|]. unfold holds in Ho. unfold ready.
  destruct (tpc (gtask s o)); try contradiction; split; try reflexivity; try discriminate; intros _; exact Ho.
Qed.

(* terminal states: no thread enabled  =>  every declared contender has finished, the mutex is free again *)
Lemma terminal_all_done ops s : reachable ops s -> (forall t, enabled s t = false) ->
  (forall c, tpc (gtask s c) = PDone) /\ requests s = PNull /\ queue s = PNull /\ alog s = glog s.
Proof.
  intros R T.
  assert (D : forall c, tpc (gtask s c) = PDone).
  { intros c. destruct (le_lt_dec (length (tasks s)) c) as [G|G].
    - unfold gtask. rewrite nth_overflow by exact G. reflexivity.
    - destruct (pc_eq_dec (tpc (gtask s c)) PDone) as [E|E]; [exact E|]. exfalso.
      destruct (no_stuck_state _ _ _ R G E) as (t & En). rewrite T in En. discriminate. }
  split; [exact D|].
  destruct (no_lost_request _ _ R) as (A & B & C & _); [|auto].
  intros c H. unfold holds in H. rewrite D in H. exact H.
Qed.

(* bounded waiting: the grants that precede the grant of a pending request w are exactly the requests pending
   ahead of it, all published before w *)
Lemma bounded_waiting ops s w : reachable ops s -> waiting s w ->
  exists a b, alog s = glog s ++ a ++ w :: b /\ ~ In w a /\ (forall x, In x a -> waiting s x).
Proof.
  intros R W. destruct (grant_once _ _ R) as (pend & E & ND & M & _).
  apply M in W. destruct (in_split _ _ W) as (a & b & ->).
  exists a, b. split; [exact E|]. split.
  - apply NoDup_remove_2 in ND. intro Q. apply ND. apply in_or_app. left. exact Q.
  - intros x Hx. apply M. apply in_or_app. left. exact Hx.
Qed.
