From Cocls Require Import Base BaseProofs QueueDefs QueueProofs.
Local Open Scope Z_scope.
