(* Properties_C10.v — C10: bounded queue, back-pressure without losing or duplicating items.
   Statements only; proofs are `exact <lemma of QueueProofs / QueueConcProofs>`.
   Histories are lists of lop of ANY length, the limit is ANY integer >= 1, any number of blocked producers and waiting
   consumers.  `lq_reach limit ops` is the state of the transcription of limited_queue<T> (as repaired by fa14f83) after
   the history; `lgood` is the invariant every destruction-free history establishes (c10_invariant_reachable). *)
From Cocls Require Import Base BaseProofs QueueDefs QueueProofs QueueConcProofs QueueOrderProofs QueueOracleProofs.
Local Open Scope Z_scope.

(* refinement: for every history whose constructor calls ask for limit >= 1 the model's observations are those of the
   bounded-FIFO specification (one FIFO of entries; a push is admitted at once iff fewer than `limit` entries are in it;
   a pop takes the head and admits the oldest pending entry; unblock_push removes the oldest pending entry) *)
Theorem c10_refines_bounded_fifo : forall ops, limits_ok (map lq_decode ops) -> lq_run ops = ls_run ops.
Proof. exact lq_refines_bounded_fifo. Qed.
Print Assumptions c10_refines_bounded_fifo.

Theorem c10_invariant_reachable : forall limit ops, 1 <= limit -> l_no_destroy ops ->
  exists done pdone pva, lgood (l_pushed_vals ops) (lq_reach limit ops) done pdone pva.
Proof. exact lgood_reach. Qed.
Print Assumptions c10_invariant_reachable.

(* conservation + order: pushed items minus withdrawn ones (push future failed), in push order =
   delivered (pop-arrival order) ++ queued ++ held by blocked pushes.  List equality: multiplicity 1, FIFO. *)
Theorem c10_conservation_order : forall limit ops, 1 <= limit -> l_no_destroy ops ->
  let q := lq_reach limit ops in
  kept (l_pushed_vals ops) (l_pfuts q) = delivered (l_futs q) ++ l_items q ++ map fst (l_blocked q).
Proof. exact lq_conservation_order. Qed.
Print Assumptions c10_conservation_order.

(* blocked pushes are exactly the pending push futures, in arrival order, each holding its own item; somebody is
   blocked only when the queue is full; it never exceeds the limit; consumers wait only when nothing is queued or blocked *)
Theorem c10_blocked_fifo : forall limit ops, 1 <= limit -> l_no_destroy ops ->
  let q := lq_reach limit ops in
  exists pdone, l_pfuts q = pdone ++ repeat FPending (length (l_blocked q)) /\ nopend pdone /\
    map snd (l_blocked q) = seq (length pdone) (length (l_blocked q)) /\
    map fst (l_blocked q) = skipn (length pdone) (l_pushed_vals ops) /\
    (l_blocked q <> [] -> zlen (l_items q) = limit) /\ zlen (l_items q) <= limit /\
    (l_waiters q <> [] -> l_items q = [] /\ l_blocked q = []).
Proof. exact lq_blocked_fifo. Qed.
Print Assumptions c10_blocked_fifo.

(* a push completes immediately iff fewer than `limit` items are waiting; otherwise it stays pending, holding its item *)
Theorem c10_push_immediate_iff : forall pv q done pdone pva v, lgood pv q done pdone pva ->
  let q' := fst (lq_push q v) in let f := snd (lq_push q v) in
  f = length (l_pfuts q) /\ l_pfuts q' = l_pfuts q ++ [if zlen (l_items q) <? l_limit q then FValue 0 else FPending] /\
  (zlen (l_items q) <? l_limit q = false -> l_blocked q' = l_blocked q ++ [(v, f)] /\ l_items q' = l_items q /\ l_futs q' = l_futs q).
Proof. exact lq_push_immediate_iff. Qed.
Print Assumptions c10_push_immediate_iff.

(* a push future changes only when it is the OLDEST pending one and a pop makes room (completed) or unblock_push fails it
   with e; or by destruction *)
Theorem c10_push_completes_only_by : forall pv q done pdone pva x j, lgood pv q done pdone pva ->
  fget (l_pfuts (fst (lq_step_on q x))) j <> fget (l_pfuts q) j -> (j < length (l_pfuts q))%nat ->
  (x = LPop /\ l_items q <> [] /\ oldest_pending (l_pfuts q) j /\ fget (l_pfuts (fst (lq_step_on q x))) j = FValue 0) \/
  (exists e, x = LUnblockPush e /\ oldest_pending (l_pfuts q) j /\ fget (l_pfuts (fst (lq_step_on q x))) j = FExc e) \/
  (x = LDestroy /\ fget (l_pfuts q) j = FPending /\ fget (l_pfuts (fst (lq_step_on q x))) j = FCanceled).
Proof. exact lq_push_completes_only_by. Qed.
Print Assumptions c10_push_completes_only_by.

(* one per pop *)
Theorem c10_one_per_pop : forall pv q done pdone pva j k, lgood pv q done pdone pva ->
  (j < length (l_pfuts q))%nat -> (k < length (l_pfuts q))%nat ->
  fget (l_pfuts (fst (lq_step_on q LPop))) j <> fget (l_pfuts q) j ->
  fget (l_pfuts (fst (lq_step_on q LPop))) k <> fget (l_pfuts q) k -> j = k.
Proof. exact lq_one_per_pop. Qed.
Print Assumptions c10_one_per_pop.

(* unblock_push: fails exactly the oldest blocked push with e, withdraws exactly its own item (the j-th pushed value),
   every other field is unchanged; with nobody blocked it changes nothing *)
Theorem c10_unblock_push_exact : forall pv q done pdone pva e, lgood pv q done pdone pva ->
  let q' := fst (lq_step_on q (LUnblockPush e)) in
  match l_blocked q with
  | [] => q' = q
  | (y, j) :: b =>
      oldest_pending (l_pfuts q) j /\ y = nth j pv 0 /\
      l_pfuts q' = set_nth (l_pfuts q) j (FExc e) /\ l_blocked q' = b /\
      l_items q' = l_items q /\ l_futs q' = l_futs q /\ l_waiters q' = l_waiters q /\ l_limit q' = l_limit q /\ l_alive q' = true
  end.
Proof. exact lq_unblock_push_exact. Qed.
Print Assumptions c10_unblock_push_exact.

(* the consumer side behaves as in queue<T> *)
Theorem c10_pop_completes_only_by : forall pv q done pdone pva x i, lgood pv q done pdone pva ->
  fget (l_futs q) i = FPending -> fget (l_futs (fst (lq_step_on q x))) i <> FPending ->
  (exists v, x = LPush v /\ oldest_pending (l_futs q) i /\ fget (l_futs (fst (lq_step_on q x))) i = FValue v) \/
  (exists e, x = LUnblockPop e /\ oldest_pending (l_futs q) i /\ fget (l_futs (fst (lq_step_on q x))) i = FExc e) \/
  (x = LDestroy /\ fget (l_futs (fst (lq_step_on q x))) i = FCanceled).
Proof. exact lq_pop_completes_only_by. Qed.
Print Assumptions c10_pop_completes_only_by.

Theorem c10_oracle_accepts_model : forall ops, limits_ok (map lq_decode ops) -> lq_oracle ops (lq_run ops) = true.
Proof. exact lq_oracle_accepts_model. Qed.
Print Assumptions c10_oracle_accepts_model.

(* ---- interleaving model (limited_queue<T>, any limit >= 1): ANY number of producer / consumer / unblock_pop / unblock_push / size threads and a destroyer thread, ANY schedule of ANY length.
   A push or pop is a critical section followed, after the unlock, by a separate step that resolves the promise taken
   inside (QueueDefs.tstep).  In every reachable state the items pushed so far (every producer's first k values, tagged
   with producer and index, hence pairwise distinct: NoDup) are exactly, as a multiset, the items received by pops + the
   items in flight between a critical section and its resolution + the queued items + the items held by blocked pushes +
   the items withdrawn by unblock_push + the items destroyed with the queue;
   and items / waiting consumers are never both non-empty. ---- *)
Theorem c10_conc_conservation : forall limit thrs s, 1 <= limit -> Forall t_fresh thrs -> t_reachable (Some limit) thrs s ->
  NoDup (t_plog s) /\
  Permutation (t_plog s)
    (map snd (ritems (t_rlog s)) ++ map snd (iitems (t_infl s)) ++ t_items s ++ map fst (t_blocked s) ++ t_wlog s ++ t_dlog s) /\
  (forall p, filter (of_p p) (t_plog s) = expected_plog p (nth_error (t_thr s) p)) /\
  (t_items s = [] \/ t_waiters s = []).
Proof. intros limit thrs s L. exact (tq_conservation (Some limit) thrs s L). Qed.
Print Assumptions c10_conc_conservation.

(* per-producer order at every consumer, for every schedule: among the items consumer c has received (got c s, in the
   order it received them), those pushed by producer p carry strictly increasing push indices *)
Theorem c10_conc_per_producer_order : forall limit thrs s c p, (1 <= limit)%Z -> Forall t_fresh thrs -> t_reachable (Some limit) thrs s ->
  Sorted.StronglySorted lt (map it_k (filter (of_p p) (got c s))).
Proof. intros limit thrs s c p L. exact (tq_per_producer_order (Some limit) thrs s c p L). Qed.
Print Assumptions c10_conc_per_producer_order.

(* items are matched to pops in critical-section order; matched ++ queued ++ held-by-blocked is, producer by producer, in
   push order (nothing overtakes, also not while producers are blocked); what a consumer has received plus what is in
   flight for it is exactly its share of the matching, in order (single consumer: FIFO) *)
Theorem c10_conc_assignment_in_push_order : forall limit thrs s, (1 <= limit)%Z -> Forall t_fresh thrs -> t_reachable (Some limit) thrs s ->
  (forall p, Sorted.StronglySorted lt (map it_k (filter (of_p p) (map snd (t_alog s) ++ t_items s ++ map fst (t_blocked s))))) /\
  forall c, map snd (filter (is_c c) (t_alog s)) = got c s ++ map snd (filter (is_c c) (iitems (t_infl s))).
Proof. intros limit thrs s L. exact (tq_assignment_in_push_order (Some limit) thrs s L). Qed.
Print Assumptions c10_conc_assignment_in_push_order.

(* the oracle that is run on the implementation's controlled-thread traces (replay of the critical sections on the atomic
   thread-level FIFO, QueueDefs.tq_oracle) accepts every trace the model itself produces: every case file, any threads
   (fewer than 777, the marker of the deadlock line), any schedule *)
Theorem c10_thread_oracle_accepts_model : forall ops,
  (length (flat_map (t_decode_thr true) ops) < 777)%nat -> tq_oracle true ops (tq_run true ops) = true.
Proof. exact (tq_oracle_accepts_model true). Qed.
Print Assumptions c10_thread_oracle_accepts_model.

Example c10_conc_nonvacuous :
  let thrs := flat_map (t_decode_thr true) [[1; 101; 102; 103]; [2; 3]]%Z in
  let s := fst (t_run_sched 5 (t_init (Some 1%Z) thrs) [0; 0; 0; 0; 0]%Z []) in
  Forall t_fresh thrs /\ t_reachable (Some 1%Z) thrs s /\
  map it_v (t_items s) = [101]%Z /\ map (fun b => it_v (fst b)) (t_blocked s) = [102]%Z.
Proof. split; [apply t_decode_fresh|]. split; [eexists; eexists; eexists; reflexivity|]. vm_compute. repeat split. Qed.

(* non-vacuity: limit 2, four pushes (two blocked), unblock_push withdraws 13, a pop delivers 11 and admits 14 *)
Example c10_nonvacuous :
  let ops := [LPush 11; LPush 12; LPush 13; LPush 14; LUnblockPush 5; LPop] in
  let q := lq_reach 2 ops in
  l_no_destroy ops /\ l_items q = [12; 14] /\ l_blocked q = [] /\ l_futs q = [FValue 11] /\
  l_pfuts q = [FValue 0; FValue 0; FExc 5; FValue 0] /\
  kept (l_pushed_vals ops) (l_pfuts q) = [11; 12; 14].
Proof. split; [repeat constructor|]. vm_compute. repeat split. Qed.
