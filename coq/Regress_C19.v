(* Regress_C19.v — regression witness for the defect repaired by /repo commit 1b5a79f.
   The OLD reusable_storage_mtsafe stored `this` in every trailer and dealloc decided with `ptr == me->_ptr`.
   That needs two things the main model (StorageDefs.v) abstracts away because the repaired code does not depend on
   them: (1) a step boundary inside reusable_storage::alloc between `::operator delete(_ptr)` (:50) and
   `_ptr = ::operator new(sz)` (:51), where _ptr dangles, and (2) an allocator that hands a freed address out again.
   This file is a small separate transcription with exactly these two features, parameterised by `fixed`
   (false: the old code, true: the repaired code), and one concrete schedule on which the old code gives the shared
   block to two simultaneously live frames while the repaired code does not.  Everything by vm_compute. *)
From Cocls Require Import Base.
Local Open Scope Z_scope.

Record rst := mkR {
  r_free : list nat;            (* freed addresses, most recent first: malloc reuses them LIFO *)
  r_next : nat;                 (* next never used address *)
  r_ptr : option nat;           (* reusable_storage::_ptr (may dangle between :50 and :51) *)
  r_cap : Z;
  r_busy : bool;
  r_frames : list (nat * nat * bool)   (* live frames: (frame id, address, trailer names the storage) *)
}.

Definition malloc (s : rst) : rst * nat :=
  match r_free s with
  | a :: t => (mkR t (r_next s) (r_ptr s) (r_cap s) (r_busy s) (r_frames s), a)
  | [] => (mkR [] (S (r_next s)) (r_ptr s) (r_cap s) (r_busy s) (r_frames s), r_next s)
  end.
Definition mfree (s : rst) (a : nat) : rst :=
  mkR (a :: r_free s) (r_next s) (r_ptr s) (r_cap s) (r_busy s) (r_frames s).

Inductive rstep :=
| SExchangeLose (fid : nat)        (* _busy.exchange(true) returned true: heap block, trailer written *)
| SExchangeWin                      (* _busy.exchange(true) returned false *)
| SGrowDelete                       (* holder, reusable_storage::alloc :50 *)
| SGrowNew (fid : nat) (sz : Z)     (* holder, :51-52 and the trailer *)
| SReuse (fid : nat)                (* holder, sz <= _capacity: :54 *)
| SDealloc (fid : nat).

Definition oeqb (a : option nat) (b : nat) : bool := match a with Some x => Nat.eqb x b | None => false end.

Definition rdo (fixed : bool) (s : rst) (x : rstep) : rst :=
  match x with
  | SExchangeLose fid =>
      let '(s1, a) := malloc s in
      mkR (r_free s1) (r_next s1) (r_ptr s1) (r_cap s1) (r_busy s1) ((fid, a, negb fixed) :: r_frames s1)
  | SExchangeWin => mkR (r_free s) (r_next s) (r_ptr s) (r_cap s) true (r_frames s)
  | SGrowDelete => match r_ptr s with Some a => mfree s a | None => s end
  | SGrowNew fid sz =>
      let '(s1, a) := malloc s in
      mkR (r_free s1) (r_next s1) (Some a) sz (r_busy s1) ((fid, a, true) :: r_frames s1)
  | SReuse fid =>
      match r_ptr s with
      | Some a => mkR (r_free s) (r_next s) (r_ptr s) (r_cap s) (r_busy s) ((fid, a, true) :: r_frames s)
      | None => s
      end
  | SDealloc fid =>
      match filter (fun q => Nat.eqb (fst (fst q)) fid) (r_frames s) with
      | (_, a, me) :: _ =>
          let rest := filter (fun q => negb (Nat.eqb (fst (fst q)) fid)) (r_frames s) in
          let shared := if fixed then me                    (* repaired: if (me) *)
                        else oeqb (r_ptr s) a in            (* old: if (ptr == me->_ptr) *)
          if shared then mkR (r_free s) (r_next s) (r_ptr s) (r_cap s) false rest
          else mkR (a :: r_free s) (r_next s) (r_ptr s) (r_cap s) (r_busy s) rest
      | [] => s
      end
  end.

(* storage warmed up: block at address 0 of capacity 10, free.
   A wins and starts to grow (block 0 deleted, _ptr dangles); C loses, its heap block reuses address 0; C finishes at
   once: old code sees ptr == _ptr and clears _busy (held by A) without freeing; A completes the growth (frame 1 in the
   new block); D now wins the exchange and is served from the same block. *)
Definition warm : rst := mkR [] 1 (Some 0%nat) 10 false [].
Definition sched_AC : list rstep := [SExchangeWin; SGrowDelete; SExchangeLose 2; SDealloc 2; SGrowNew 1 100].

Definition busy_after (fixed : bool) : bool := r_busy (fold_left (rdo fixed) sched_AC warm).
(* thread D: exchange, then (if it won) reuse of the block (50 <= 100), else heap fallback *)
Definition final (fixed : bool) : rst :=
  let s := fold_left (rdo fixed) sched_AC warm in
  if r_busy s then rdo fixed s (SExchangeLose 3) else rdo fixed (rdo fixed s SExchangeWin) (SReuse 3).

Example old_code_shares_the_block :
  busy_after false = false /\ map (fun q => (fst (fst q), snd (fst q))) (r_frames (final false)) = [(3, 1); (1, 1)]%nat.
Proof. vm_compute. split; reflexivity. Qed.

Example repaired_code_does_not :
  busy_after true = true /\ map (fun q => (fst (fst q), snd (fst q))) (r_frames (final true)) = [(3, 1); (1, 0)]%nat.
Proof. vm_compute. split; reflexivity. Qed.
