// ctl_queue.cpp — controlled-schedule scenarios for cocls::queue<int> (engine tq, C09) and limited_queue<int> (engine tlq, C10).
// Real threads, one runnable at a time (ctl.h).  Yield points: the guarded hooks COCLS_VERIF_POINT("q_lock") before every lock
// acquisition in queue.h and COCLS_VERIF_POINT("q_res") between unlock and promise resolution, plus the scenario's own
// ctl::block_until("q_wait") where a thread waits for the future it was given.  Hook points that belong to the promise/future
// cell (claim, resolve, dtor, ready ... — the subject of C01/C02) are not yield points here: the filter below lets only q_* through,
// so a critical section of the queue is one step, exactly as in the Coq model (QueueDefs.tstep).
// case:  [0 limit] (tlq)   1 v1 v2 ..  producer thread   2 n  consumer thread (n pops, one after the other)
//        3 n e  thread calling unblock_pop(e) n times      9 c1 c2 ..  schedule
// output: trace lines "tid point", "777 stuck.." on deadlock, one result line per thread, "9 size drained.." (what is left, popped at the end)
// The harness contains no expected values.
#define VH_DEFINE_NEW
#include "ctl.h"
#include <cocls/queue.h>

using namespace cocls;

struct test_exc {
    long code;
};

static void q_point(const char *id) {
    if (id[0] == 'q' && id[1] == '_') ctl::Controller::hook_point(id);
}
static void only_queue_points() { cocls::verif::get_hooks().point = &q_point; }

struct lq_open : limited_queue<int> {
    using limited_queue<int>::limited_queue;
    using queue<int>::unblock_pop;   // protected base of limited_queue
};

template <typename F>
static long outcome(F &f) {
    try {
        if constexpr (std::is_void_v<typename F::value_type>) {
            f.value();
            return 0;
        } else {
            return (long)f.value();
        }
    } catch (const await_canceled_exception &) {
        return -1000000;
    } catch (const value_not_ready_exception &) {
        return -2000000;
    } catch (const test_exc &e) {
        return -e.code;
    }
}

template <bool Lim>
static void run_case(const vh::Case &cs) {
    using Q = std::conditional_t<Lim, lq_open, queue<int>>;
    struct Decl {
        int role;
        std::vector<long> a;
    };
    std::vector<Decl> decl;
    std::vector<long> sched;
    long limit = -1;
    for (auto &op : cs.ops) {
        if (op.empty()) continue;
        if (op[0] == 0 && op.size() == 2 && limit < 0) limit = op[1];
        else if (op[0] == 1) decl.push_back({1, std::vector<long>(op.begin() + 1, op.end())});
        else if (op[0] == 2 && op.size() == 2 && op[1] >= 0) decl.push_back({2, {op[1]}});
        else if (op[0] == 3 && op.size() == 3 && op[1] >= 0) decl.push_back({3, {op[1], op[2]}});
        else if (op[0] == 9) sched.insert(sched.end(), op.begin() + 1, op.end());
    }
    if (Lim && limit < 1) {
        vh::print_obs({1});
        return;
    }
    int n = (int)decl.size();
    Q *q;
    if constexpr (Lim) q = new lq_open((std::size_t)limit);
    else q = new Q();
    std::vector<std::vector<long>> res(n);
    std::vector<std::function<void()>> fns;
    for (int i = 0; i < n; i++) {
        Decl d = decl[i];
        if (d.role == 1) {
            fns.push_back([&, i, d] {
                only_queue_points();
                for (long v : d.a) {
                    if constexpr (Lim) {
                        auto *f = new future<void>(q->push((int)v));
                        bool imm = f->ready();
                        ctl::block_until("q_wait", [&] { return f->ready(); });
                        long o = outcome(*f);
                        res[i].push_back(imm ? 0 : (o == 0 ? 2 : o));
                        delete f;
                    } else {
                        bool r;
                        {
                            auto sp = q->push((int)v);
                            r = (bool)sp;
                        }
                        ctl::block_until("q_wait", [] { return true; });
                        res[i].push_back(r);
                    }
                }
            });
        } else if (d.role == 2) {
            fns.push_back([&, i, d] {
                only_queue_points();
                for (long k = 0; k < d.a[0]; k++) {
                    auto *f = new future<int>(q->pop());
                    ctl::block_until("q_wait", [&] { return f->ready(); });
                    res[i].push_back(outcome(*f));
                    delete f;
                }
            });
        } else {
            fns.push_back([&, i, d] {
                only_queue_points();
                for (long k = 0; k < d.a[0]; k++) {
                    auto sp = q->unblock_pop(std::make_exception_ptr(test_exc{d.a[1]}));
                    res[i].push_back((bool)sp);
                }
            });
        }
    }
    ctl::Controller c;
    c.run(std::move(fns), sched);
    c.print_trace();
    for (int i = 0; i < n; i++) {
        std::vector<long> o{(long)i, (long)decl[i].role};
        o.insert(o.end(), res[i].begin(), res[i].end());
        vh::print_obs(o);
    }
    // what is left in the queue (items, then the items of blocked pushes as pops make room), popped from this thread
    std::vector<long> fin{9, (long)q->size()};
    if (!c.deadlock || true) {
        std::vector<std::unique_ptr<future<int>>> keep;
        for (int guard = 0; guard < 1000 && q->size() > 0; guard++) {
            keep.emplace_back(new future<int>(q->pop()));
            fin.push_back(outcome(*keep.back()));
        }
        vh::print_obs(fin);
        ctl::finish_case_or_restart(c);
        keep.clear();
    }
    delete q;
}

int main(int argc, char **argv) {
    if (argc < 2) return 2;
    for (auto &cs : vh::read_cases(argv[1])) {
        std::printf("CASE %s\n", cs.name.c_str());
        std::fflush(stdout);
        if (cs.engine == "tq") run_case<false>(cs);
        else if (cs.engine == "tlq") run_case<true>(cs);
        std::printf("END\n");
        std::fflush(stdout);
    }
    return 0;
}
