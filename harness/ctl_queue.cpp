// ctl_queue.cpp — controlled-schedule scenarios for cocls::queue<int> (engine tq, C09) and limited_queue<int> (engine tlq, C10).
// Real threads, one runnable at a time (ctl.h).  The queue is instantiated with its own Lock template argument set to
// ctl_lock: EVERY acquisition of the queue lock is a scheduling point ("q_lock", 70; the thread is disabled while the lock
// is held by somebody else) and EVERY release is followed by one ("q_res", 71), wherever the library code takes or drops the
// lock — the critical sections the Coq model (QueueDefs.tstep) talks about are the lock()/unlock() pairs of the real code,
// not positions of hook macros.  The library's own COCLS_VERIF_POINT hooks (q_lock/q_res in queue.h, claim/resolve/dtor ...
// in the promise/future cell, the subject of C01/C02) are muted for these threads.  The scenario adds "q_wait" (72) where a
// thread waits for the future it was given and "q_destroy" (73) for the thread that destroys the queue.
// case:  [0 limit] (tlq)   1 v1 v2 ..  producer thread   2 n  consumer thread (n pops, one after the other)
//        3 n e  thread calling unblock_pop(e) n times      4 n  thread calling size() n times
//        5  thread that destroys the queue once nobody else can take a step     6 n e  unblock_push(e) n times (tlq)
//        9 c1 c2 ..  schedule
// output: trace lines "tid point", "777 stuck.." on deadlock, one result line per thread, "9 size drained.." (what is left, popped at the end)
// The harness contains no expected values.
#define VH_DEFINE_NEW
#include "ctl.h"
#include <cocls/queue.h>

using namespace cocls;

struct test_exc {
    long code;
};

// the Lock template argument of the queue under test
struct ctl_lock {
    bool held = false;
    void lock() {
        ctl::block_until("q_lock", [&] { return !held; });
        held = true;
    }
    bool try_lock() {
        if (held) return false;
        held = true;
        return true;
    }
    void unlock() {
        held = false;
        ctl::point("q_res");
    }
};

static void no_point(const char *) {}
static void only_queue_points() {
    cocls::verif::get_hooks().point = &no_point;
    cocls::verif::get_hooks().block = nullptr;
}

template <typename T>
using tq_t = queue<T, primitives::std_queue, primitives::std_queue, ctl_lock>;
template <typename T>
using tlq_base = limited_queue<T, primitives::std_queue, primitives::std_queue, primitives::std_queue, ctl_lock>;
template <typename T>
struct lq_open : tlq_base<T> {
    using tlq_base<T>::tlq_base;
    using tq_t<T>::unblock_pop;   // protected base of limited_queue
};

// item types: int; unique_ptr<int> (move-only); MoveZero (copyable, its move leaves the source observably empty, like std::string)
struct MoveZero {
    long v;
    explicit MoveZero(long x) : v(x) {}
    MoveZero(const MoveZero &o) : v(o.v) {}
    MoveZero(MoveZero &&o) noexcept : v(o.v) { o.v = -54321; }
    MoveZero &operator=(const MoveZero &o) { v = o.v; return *this; }
    MoveZero &operator=(MoveZero &&o) noexcept { v = o.v; o.v = -54321; return *this; }
};
static long to_long(int &x) { return x; }
static long to_long(std::unique_ptr<int> &x) { return x ? *x : -12345; }
static long to_long(MoveZero &x) { return x.v; }
template <typename T>
static T make_item(long v) {
    if constexpr (std::is_same_v<T, std::unique_ptr<int>>) return std::make_unique<int>((int)v);
    else if constexpr (std::is_same_v<T, MoveZero>) return MoveZero(v);
    else return (T)v;
}

template <typename F>
static long outcome(F &f) {
    try {
        if constexpr (std::is_void_v<typename F::value_type>) {
            f.value();
            return 0;
        } else {
            return to_long(f.value());
        }
    } catch (const await_canceled_exception &) {
        return -1000000;
    } catch (const value_not_ready_exception &) {
        return -2000000;
    } catch (const test_exc &e) {
        return -e.code;
    }
}

template <bool Lim, typename T>
static void run_case(const vh::Case &cs) {
    using Q = std::conditional_t<Lim, lq_open<T>, tq_t<T>>;
    struct Decl {
        int role;
        std::vector<long> a;
    };
    std::vector<Decl> decl;
    std::vector<long> sched;
    long limit = -1;
    for (auto &op : cs.ops) {
        if (op.empty()) continue;
        if (op[0] == 0 && op.size() == 2 && limit == -1) limit = op[1] < 1 ? -2 : op[1];
        else if (op[0] == 1) decl.push_back({1, std::vector<long>(op.begin() + 1, op.end())});
        else if (op[0] == 2 && op.size() == 2 && op[1] >= 0) decl.push_back({2, {op[1]}});
        else if (op[0] == 3 && op.size() == 3 && op[1] >= 0) decl.push_back({3, {op[1], op[2]}});
        else if (op[0] == 4 && op.size() == 2 && op[1] >= 0) decl.push_back({4, {op[1]}});
        else if (op[0] == 5 && op.size() == 1) decl.push_back({5, {}});
        else if (op[0] == 6 && op.size() == 3 && op[1] >= 0 && Lim) decl.push_back({6, {op[1], op[2]}});
        else if (op[0] == 9) sched.insert(sched.end(), op.begin() + 1, op.end());
    }
    if (Lim && limit < 1) {
        vh::print_obs({1});
        return;
    }
    int n = (int)decl.size();
    Q *q;
    if constexpr (Lim) q = new lq_open<T>((std::size_t)limit);
    else q = new Q();
    bool destroyed = false;
    std::vector<std::vector<long>> res(n);
    std::vector<std::function<void()>> fns;
    ctl::Controller c;
    // the destroyer may start only when no other thread can take a step: every other thread has finished or waits for a
    // future that is not ready (evaluated by the controller, which holds its lock while it looks at the thread table)
    auto quiescent = [&](int self) {
        if (destroyed) return false;
        for (int j = 0; j < n; j++) {
            if (j == self || decl[j].role == 5) continue;
            ctl::Thread &t = *c.ths[j];
            if (t.state == ctl::Finished) continue;
            if (t.state == ctl::Blocked && !t.pred(t.ctx)) continue;
            return false;
        }
        return true;
    };
    for (int i = 0; i < n; i++) {
        Decl d = decl[i];
        if (d.role == 1) {
            fns.push_back([&, i, d] {
                only_queue_points();
                for (long v : d.a) {
                    if (destroyed) break;
                    if constexpr (Lim) {
                        auto *f = new future<void>(q->push(make_item<T>(v)));
                        ctl::block_until("q_wait", [&] { return f->ready(); });
                        long o = outcome(*f);   // the caller cannot tell "admitted at once" from "was blocked for a while"
                        res[i].push_back(o == 0 ? 0 : (o == -1000000 ? 99 : 100 - o));
                        delete f;
                    } else {
                        bool r;
                        {
                            auto sp = q->push(make_item<T>(v));
                            r = (bool)sp;
                        }
                        ctl::block_until("q_wait", [] { return true; });
                        res[i].push_back(r);
                    }
                }
            });
        } else if (d.role == 2) {
            fns.push_back([&, i, d] {
                only_queue_points();
                for (long k = 0; k < d.a[0]; k++) {
                    if (destroyed) break;
                    auto *f = new future<T>(q->pop());
                    ctl::block_until("q_wait", [&] { return f->ready(); });
                    res[i].push_back(outcome(*f));
                    delete f;
                }
            });
        } else if (d.role == 3) {
            fns.push_back([&, i, d] {
                only_queue_points();
                for (long k = 0; k < d.a[0]; k++) {
                    if (destroyed) break;
                    auto sp = q->unblock_pop(std::make_exception_ptr(test_exc{d.a[1]}));
                    res[i].push_back((bool)sp);
                }
            });
        } else if (d.role == 4) {
            fns.push_back([&, i, d] {
                only_queue_points();
                for (long k = 0; k < d.a[0]; k++) {
                    if (destroyed) break;
                    res[i].push_back((long)q->size());
                }
            });
        } else if (d.role == 5) {
            res[i].push_back(0);
            fns.push_back([&, i] {
                only_queue_points();
                ctl::block_until("q_destroy", [&] { return quiescent(i); });
                delete q;
                q = nullptr;
                destroyed = true;
                res[i][0] = 1;
            });
        } else {
            fns.push_back([&, i, d] {
                only_queue_points();
                for (long k = 0; k < d.a[0]; k++) {
                    if (destroyed) break;
                    if constexpr (Lim) {
                        auto sp = q->unblock_push(std::make_exception_ptr(test_exc{d.a[1]}));
                        res[i].push_back((bool)sp);
                    }
                }
            });
        }
    }
    c.run(std::move(fns), sched);
    c.print_trace();
    for (int i = 0; i < n; i++) {
        std::vector<long> o{(long)i, (long)decl[i].role};
        o.insert(o.end(), res[i].begin(), res[i].end());
        vh::print_obs(o);
    }
    // what is left in the queue (items, then the items of blocked pushes as pops make room), popped from this thread
    std::vector<long> fin{9, q ? (long)q->size() : 0};
    std::vector<std::unique_ptr<future<T>>> keep;
    for (int guard = 0; q && guard < 1000 && q->size() > 0; guard++) {
        keep.emplace_back(new future<T>(q->pop()));
        fin.push_back(outcome(*keep.back()));
    }
    vh::print_obs(fin);
    ctl::finish_case_or_restart(c);
    keep.clear();
    delete q;
}

int main(int argc, char **argv) {
    if (argc < 2) return 2;
    for (auto &cs : vh::read_cases(argv[1])) {
        std::printf("CASE %s\n", cs.name.c_str());
        std::fflush(stdout);
        if (cs.engine == "tq") run_case<false, int>(cs);
        else if (cs.engine == "tlq") run_case<true, int>(cs);
        else if (cs.engine == "tqm") run_case<false, std::unique_ptr<int>>(cs);     // move-only items, pushed as rvalues
        else if (cs.engine == "tlqm") run_case<true, std::unique_ptr<int>>(cs);
        else if (cs.engine == "tlqs") run_case<true, MoveZero>(cs);                 // move leaves the source observably empty
        std::printf("END\n");
        std::fflush(stdout);
    }
    return 0;
}
