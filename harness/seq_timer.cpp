// seq_timer.cpp — differential driver for cocls::scheduler (C12).
// engines:
//   tm   manual mode (no thread, no start()): schedule / sleep_until / get_expired / remove / cancel / destructor with
//        synthetic time points; prints the call's result, the futures whose state changed and the _scheduled array
//   tiv  interval() + stop_token driven from the test thread, request_stop() under a watchdog
//   tst  scheduler::start(awaitable) in one thread with a few sleeping coroutines and short real durations;
//        only the ORDER of wake-ups (and "nobody woke before its time point") is observed
//   tth  scheduler running in its own thread: a sleep scheduled while the worker is idle must be woken (watchdog)
// The harness contains no expected values.
#define VH_DEFINE_NEW
#include "common.h"
#define protected public
#define private public
#include <cocls/scheduler.h>
#undef protected
#undef private
#include <unistd.h>
#include <cstring>
#include <atomic>

using namespace cocls;
using tp_t = std::chrono::system_clock::time_point;
using dur_t = std::chrono::system_clock::duration;

struct test_exception {
    long code;
};

static tp_t mk_tp(long n) { return tp_t(dur_t(n)); }
static scheduler::ident mk_id(long n) { return reinterpret_cast<scheduler::ident>(static_cast<uintptr_t>(n)); }

// 0 pending, 1 value, 2 ready without value (promise dropped; value() throws await_canceled_exception),
// 3 exception await_canceled_exception, 3+c test_exception{c}, -1 anything else
static long status_of(future<void> &f) {
    if (!f.ready()) return 0;
    bool hv = f._state != future_common::State::not_value;
    try {
        f.value();
        return hv ? 1 : -1;
    } catch (const await_canceled_exception &) {
        return hv ? 3 : 2;
    } catch (const test_exception &e) {
        return 3 + e.code;
    } catch (...) {
        return -1;
    }
}

// ------------------------------------------------------------------ tm
struct Manual {
    std::optional<scheduler> sch;
    std::map<long, std::unique_ptr<future<void>>> futs;
    std::map<long, long> last;

    Manual() { sch.emplace(); }

    long pid_of(const scheduler::promise &p) {
        const void *id = p.get_id();
        if (!id) return -1;
        for (auto &kv : futs)
            if (static_cast<const void *>(kv.second.get()) == id) return kv.first;
        return -2;
    }

    void emit(long st, long r1, long r2) {
        std::vector<long> v{st, r1, r2};
        std::vector<long> chg;
        for (auto &kv : futs) {
            long s = status_of(*kv.second);
            if (s != last[kv.first]) {
                chg.push_back(kv.first);
                chg.push_back(s);
                last[kv.first] = s;
            }
        }
        v.push_back((long)chg.size() / 2);
        v.insert(v.end(), chg.begin(), chg.end());
        if (sch) {
            v.push_back((long)sch->_scheduled.size());
            for (auto &it : sch->_scheduled) {
                v.push_back((long)it._tp.time_since_epoch().count());
                v.push_back(pid_of(it._p));
                v.push_back((long)reinterpret_cast<uintptr_t>(it._ident));
            }
        } else {
            v.push_back(0);
        }
        vh::print_obs(v);
    }
    void reject() { vh::print_obs({1, 0, 0, 0, 0}); }

    void exec(const std::vector<long> &op) {
        if (op.empty() || !sch) { reject(); return; }
        auto okpid = [](long p) { return p >= 0 && p < 200; };
        switch (op[0]) {
            case 1:    // schedule(id, promise, tp)
            case 2: {  // sleep_until(tp, id)
                if (op.size() != 4 || !okpid(op[1]) || op[2] < 0 || futs.count(op[1])) { reject(); return; }
                auto &f = futs[op[1]];
                last[op[1]] = 0;
                if (op[0] == 1) {
                    f = std::make_unique<future<void>>();
                    sch->schedule(mk_id(op[2]), f->get_promise(), mk_tp(op[3]));
                } else {
                    f.reset(new future<void>(sch->sleep_until(mk_tp(op[3]), mk_id(op[2]))));
                }
                emit(0, 0, 0);
                return;
            }
            case 3: {  // get_expired(now)
                if (op.size() != 2) { reject(); return; }
                scheduler::expired e = sch->get_expired(mk_tp(op[1]));
                if (std::holds_alternative<scheduler::promise>(e)) {
                    std::get<scheduler::promise>(e)();
                    emit(0, 1, 0);
                } else {
                    tp_t t = std::get<tp_t>(e);
                    if (t == tp_t::max()) emit(0, 2, 0);
                    else emit(0, 0, (long)t.time_since_epoch().count());
                }
                return;
            }
            case 4: {  // remove(id)
                if (op.size() != 2 || op[1] < 0) { reject(); return; }
                scheduler::promise p = sch->remove(mk_id(op[1]));
                if (p) {
                    p();
                    emit(0, 1, 0);
                } else {
                    emit(0, 0, 0);
                }
                return;
            }
            case 5: {  // cancel(id)
                if (op.size() != 2 || op[1] < 0) { reject(); return; }
                bool r = sch->cancel(mk_id(op[1]));
                emit(0, r ? 1 : 0, 0);
                return;
            }
            case 6: {  // cancel(id, e)
                if (op.size() != 3 || op[1] < 0 || op[2] < 1 || op[2] > 1000) { reject(); return; }
                bool r = sch->cancel(mk_id(op[1]), std::make_exception_ptr(test_exception{op[2]}));
                emit(0, r ? 1 : 0, 0);
                return;
            }
            case 7: {  // ~scheduler
                if (op.size() != 1) { reject(); return; }
                sch.reset();
                emit(0, 0, 0);
                return;
            }
            default:
                reject();
        }
    }
    ~Manual() { sch.reset(); }
};

// ------------------------------------------------------------------ tx
// manual mode with callback-style sleepers (make_promise(handler)) whose completion handler re-enters the scheduler, and
// sleep_for with durations that are not whole milliseconds.  Every call runs under the watchdog.
struct Extra {
    struct Act { long act, cid, sid, stp, spid; };
    // the scheduler is declared LAST: it is destroyed first, and the handlers of the promises it drops still find the maps
    std::map<long, std::unique_ptr<future<void>>> futs;    // future-backed sleeps
    std::map<long, long> cbstat;                            // callback sleeps: outcome recorded by the handler
    std::map<long, long> last;
    long seq = 1;
    scheduler sch;

    bool used(long p) { return futs.count(p) || cbstat.count(p); }
    long status(long p) {
        if (cbstat.count(p)) return cbstat[p];
        return status_of(*futs[p]);
    }
    void emit(long st, long r1, long r2) {
        std::vector<long> v{st, r1, r2};
        std::vector<long> chg;
        for (auto &kv : last) {
            long s = status(kv.first);
            if (s != kv.second) { chg.push_back(kv.first); chg.push_back(s); kv.second = s; }
        }
        v.push_back((long)chg.size() / 2);
        v.insert(v.end(), chg.begin(), chg.end());
        v.push_back((long)sch._scheduled.size());
        vh::print_obs(v);
    }
    void reject() { vh::print_obs({1, 0, 0, 0, 0}); }
    void plain(long p, long id, long tp) {
        auto &f = futs[p];
        last[p] = 0;
        f = std::make_unique<future<void>>();
        sch.schedule(mk_id(id), f->get_promise(), mk_tp(tp));
    }
    static long outcome(future<void> &f) {
        bool hv = f._state != future_common::State::not_value;
        try { f.value(); return hv ? 1 : -1; }
        catch (const await_canceled_exception &) { return hv ? 3 : 2; }
        catch (const test_exception &e) { return 3 + e.code; }
        catch (...) { return -1; }
    }
    template <typename D> void do_sleep_for(long p, long id, D dur, long &lo, long &hi) {
        auto before = std::chrono::system_clock::now();
        futs[p].reset(new future<void>(sch.sleep_for(dur, mk_id(id))));
        auto after = std::chrono::system_clock::now();
        last[p] = 0;
        lo = 0; hi = 0;
        const void *me = futs[p].get();
        for (auto &it : sch._scheduled)
            if (it._p.get_id() == me) {
                lo = it._tp >= before + dur ? 1 : 0;       // never earlier than asked for
                hi = it._tp <= after + dur ? 1 : 0;
            }
    }
    void exec(const std::vector<long> &op) {
        auto okpid = [](long p) { return p >= 0 && p < 200; };
        if (op.empty()) { reject(); return; }
        switch (op[0]) {
            case 1:
                if (op.size() != 4 || !okpid(op[1]) || used(op[1]) || op[2] < 0) { reject(); return; }
                plain(op[1], op[2], op[3]);
                emit(0, 0, 0);
                return;
            case 8: {
                if (op.size() != 9 || !okpid(op[1]) || used(op[1]) || op[2] < 0 || op[4] < 0 || op[4] > 3 || op[5] < 0 || op[6] < 0 ||
                    !okpid(op[8]) || op[8] == op[1]) { reject(); return; }
                long p = op[1];
                Act a{op[4], op[5], op[6], op[7], op[8]};
                cbstat[p] = 0; last[p] = 0;
                sch.schedule(mk_id(op[2]), make_promise<void>([this, p, a](future<void> &f) {
                    long o = outcome(f);
                    cbstat[p] = o;
                    if (o == 2) return;                                 // merely dropped: the scheduler may be gone
                    if (a.act == 1 || a.act == 3) { bool c = sch.cancel(mk_id(a.cid)); (void)c; }
                    if ((a.act == 2 || a.act == 3) && !used(a.spid)) plain(a.spid, a.sid, a.stp);
                }), mk_tp(op[3]));
                emit(0, 0, 0);
                return;
            }
            case 9: {
                if (op.size() != 5 || !okpid(op[1]) || used(op[1]) || op[2] < 0 || op[3] < 0 || op[3] > 3 || op[4] < 0 || op[4] >= 1000000) { reject(); return; }
                long lo = 0, hi = 0;
                auto whole = std::chrono::seconds(seq++);
                switch (op[3]) {
                    case 0: do_sleep_for(op[1], op[2], std::chrono::nanoseconds(whole) + std::chrono::nanoseconds(op[4]), lo, hi); break;
                    case 1: do_sleep_for(op[1], op[2], std::chrono::microseconds(whole) + std::chrono::microseconds(op[4]), lo, hi); break;
                    case 2: do_sleep_for(op[1], op[2], std::chrono::milliseconds(whole) + std::chrono::milliseconds(op[4]), lo, hi); break;
                    default: {
                        using quarter_ms = std::chrono::duration<long, std::ratio<1, 4000>>;
                        do_sleep_for(op[1], op[2], quarter_ms(whole) + quarter_ms(op[4]), lo, hi);
                    }
                }
                emit(0, lo, hi);
                return;
            }
            case 3: {
                if (op.size() != 2 || op[1] >= 1000000000000000L) { reject(); return; }
                scheduler::expired e = sch.get_expired(mk_tp(op[1]));
                if (std::holds_alternative<scheduler::promise>(e)) {
                    std::get<scheduler::promise>(e)();
                    emit(0, 1, 0);
                } else {
                    tp_t t = std::get<tp_t>(e);
                    if (t == tp_t::max()) emit(0, 2, 0);
                    else {
                        long c = (long)t.time_since_epoch().count();
                        emit(0, 0, c >= 1000000000000000L ? -1 : c);
                    }
                }
                return;
            }
            case 4: {
                if (op.size() != 2 || op[1] < 0) { reject(); return; }
                scheduler::promise p = sch.remove(mk_id(op[1]));
                if (p) { p(); emit(0, 1, 0); } else emit(0, 0, 0);
                return;
            }
            case 5: {
                if (op.size() != 2 || op[1] < 0) { reject(); return; }
                bool r = sch.cancel(mk_id(op[1]));
                emit(0, r ? 1 : 0, 0);
                return;
            }
            case 6: {
                if (op.size() != 3 || op[1] < 0 || op[2] < 1 || op[2] > 1000) { reject(); return; }
                bool r = sch.cancel(mk_id(op[1]), std::make_exception_ptr(test_exception{op[2]}));
                emit(0, r ? 1 : 0, 0);
                return;
            }
            default:
                reject();
        }
    }
};

// ------------------------------------------------------------------ tiv
static std::mutex wd_mx;
static std::condition_variable wd_cv;

// runs fn on the calling thread; if it does not return within 1.5 s the observation `hang_code` is printed
// and the process exits (the pipeline records the unterminated case)
template <typename Fn>
static void with_watchdog(long hang_code, Fn &&fn) {
    bool done = false;
    std::thread wd([&] {
        std::unique_lock lk(wd_mx);
        if (!wd_cv.wait_for(lk, std::chrono::milliseconds(1500), [&] { return done; })) {
            std::printf("%ld\n", hang_code);
            std::fflush(stdout);
            _exit(78);
        }
    });
    fn();
    {
        std::lock_guard lk(wd_mx);
        done = true;
    }
    wd_cv.notify_all();
    wd.join();
}

struct Interval {
    static constexpr int N = 3;                 // up to three interval generators with independent stop sources
    scheduler sch;
    std::stop_source src[N];
    std::optional<generator<std::size_t>> gen[N];
    std::unique_ptr<future<std::size_t>> tick[N];

    long tick_status(int g) {
        if (!tick[g]) return 0;
        if (!tick[g]->ready()) return 0;
        return tick[g]->_state == future_common::State::not_value ? 2 : 1;
    }
    // status, result of the call, array size, state of every generator's tick future
    void emit(long kind) {
        std::vector<long> v{0, kind, (long)sch._scheduled.size()};
        for (int g = 0; g < N; g++) v.push_back(tick_status(g));
        vh::print_obs(v);
    }

    void exec(const std::vector<long> &op) {
        if (op.empty() || op.size() > 2 || op[0] < 1 || op[0] > 4) { vh::print_obs({1}); return; }
        long gi = op.size() == 2 ? op[1] : 0;
        if (gi < 0 || gi >= N) { vh::print_obs({1}); return; }
        int g = (int)gi;
        switch (op[0]) {
            case 1:
                if (gen[g]) { vh::print_obs({1}); return; }
                gen[g].emplace(sch.interval(std::chrono::hours(1), src[g].get_token()));
                emit(0);
                return;
            case 2: {
                if (!gen[g] || tick_status(g) == 2 || (tick[g] && !tick[g]->ready())) { vh::print_obs({1}); return; }
                tick[g].reset();
                tick[g].reset(new future<std::size_t>((*gen[g])()));
                emit(tick_status(g));
                return;
            }
            case 3: {
                long before = tick_status(g);
                src[g].request_stop();
                long after = tick_status(g);
                emit(after != before ? after : 0);
                return;
            }
            case 4: {
                scheduler::expired e = sch.get_expired(std::chrono::system_clock::now() + std::chrono::hours(48));
                long r = 0;
                if (std::holds_alternative<scheduler::promise>(e)) {
                    std::get<scheduler::promise>(e)();
                    r = 1;
                }
                emit(r);
                return;
            }
        }
    }
    ~Interval() {
        // a generator still sleeping must be woken before it can be destroyed
        for (int g = 0; g < N; g++) {
            if (tick[g] && !tick[g]->ready())
                with_watchdog(-998, [&] { src[g].request_stop(); });   // a self-deadlock here must not stall the whole run
        }
        for (int i = 0; i < 4 * N; i++) {
            bool pending = false;
            for (int g = 0; g < N; g++) if (tick[g] && !tick[g]->ready()) pending = true;
            if (!pending) break;
            scheduler::expired e = sch.get_expired(tp_t::max());
            if (std::holds_alternative<scheduler::promise>(e)) std::get<scheduler::promise>(e)();
        }
        for (int g = 0; g < N; g++) { tick[g].reset(); gen[g].reset(); }
    }
};

// ------------------------------------------------------------------ tst
struct StartCtx {
    scheduler sch;
    tp_t base;
    std::vector<long> order;
    long early = 0;
    int running = 0;
    future<void> done;
    std::optional<promise<void>> done_p;
};

static async<void> sleeper(StartCtx &c, long k, std::vector<long> offs) {
    for (long o : offs) {
        tp_t tp = c.base + std::chrono::milliseconds(o);
        co_await c.sch.sleep_until(tp);
        if (std::chrono::system_clock::now() < tp) c.early++;
        c.order.push_back(k);
    }
    if (--c.running == 0) (*c.done_p)();
}

static void run_start(const vh::Case &cs) {
    bool ok = !cs.ops.empty() && cs.ops.size() <= 4;
    for (auto &op : cs.ops) {
        if (op.size() < 2 || op[0] != 1) ok = false;
        for (size_t i = 1; i < op.size(); i++) {
            if (op[i] < 0 || op[i] > 400) ok = false;
            if (i > 1 && op[i] < op[i - 1]) ok = false;   // time points of one coroutine must not go backwards
        }
    }
    if (!ok) {
        for (size_t i = 0; i < cs.ops.size(); i++) vh::print_obs({1});
        return;
    }
    StartCtx c;
    c.base = std::chrono::system_clock::now() + std::chrono::milliseconds(20);
    c.done_p.emplace(c.done.get_promise());
    c.running = (int)cs.ops.size();
    for (size_t k = 0; k < cs.ops.size(); k++) {
        std::vector<long> offs(cs.ops[k].begin() + 1, cs.ops[k].end());
        sleeper(c, (long)k, offs).detach();
        if (k + 1 < cs.ops.size()) vh::print_obs({0});
    }
    with_watchdog(-997, [&] { c.sch.start(c.done); });
    std::vector<long> v{0, c.early};
    v.insert(v.end(), c.order.begin(), c.order.end());
    vh::print_obs(v);
}

// ------------------------------------------------------------------ tth
// op [1 far_ms near_ms]: the scheduler runs in its own thread and is idle — blocked on an entry `far` ms ahead, or on
// an empty heap when far = 0; then a sleep `near` ms ahead is scheduled from the test thread.
// observation: status, did the near sleep become ready inside the watchdog window, final state of the far sleep
// after cancel(far id) (0 = there was none)
// op [2 far_ms]: stop request racing with the worker's decision to wait.  The worker thread is held at the
// COCLS_VERIF_POINT("sched_wait") hook — it has looked at the heap under the lock, found nothing due and is about to call
// wait_until — while another thread runs ~scheduler (request_stop + wait for the worker); then the worker is let go.
// observation: status, did the destructor return inside the watchdog window, state of the far sleep (0 = none)
static std::atomic<int> sd_armed{0}, sd_reached{0}, sd_release{0};
static void sd_point(const char *id) {
    if (std::strcmp(id, "sched_wait") != 0 || !sd_armed.load()) return;
    sd_armed.store(0);
    sd_reached.store(1);
    while (!sd_release.load()) std::this_thread::sleep_for(std::chrono::milliseconds(1));
}

static void run_stop_race(const std::vector<long> &op, bool use_pool) {
    std::unique_ptr<thread_pool> pool;
    if (use_pool) pool.reset(new thread_pool(2));
    long returned = 0, far_state = 0;
    int id_far = 0;
    std::unique_ptr<future<void>> ffar;
    std::thread thr;
    auto *sch = new scheduler;
    sd_reached.store(0); sd_release.store(0); sd_armed.store(0);
    cocls::verif::get_hooks().point = &sd_point;
    if (op[1] > 0)
        ffar.reset(new future<void>(sch->sleep_until(std::chrono::system_clock::now() + std::chrono::milliseconds(op[1]), &id_far)));
    sd_armed.store(1);
    if (use_pool) sch->start(*pool); else sch->start(thr);
    for (int i = 0; i < 1500 && !sd_reached.load(); i++) std::this_thread::sleep_for(std::chrono::milliseconds(1));
    std::atomic<int> done{0};
    std::thread killer([&] { delete sch; done.store(1); });
    std::this_thread::sleep_for(std::chrono::milliseconds(50));   // ~scheduler has requested the stop and waits
    sd_release.store(1);
    for (int i = 0; i < 1500 && !done.load(); i++) std::this_thread::sleep_for(std::chrono::milliseconds(1));
    returned = done.load();
    cocls::verif::get_hooks().point = nullptr;
    if (!returned) {
        vh::print_obs({0, 0, 0});
        std::fflush(stdout);
        _exit(78);            // the destructor never returns: nothing can be cleaned up
    }
    killer.join();
    if (thr.joinable()) thr.join();
    if (ffar) far_state = status_of(*ffar);
    vh::print_obs({0, returned, far_state});
}

// op [5 fl mask o1..ok]: sleepers at t0 + o_i ms; the worker is blocked on the FIRST deadline (it has passed the
// "sched_wait" point after the first schedule call); the sleepers selected by mask are cancelled from this thread while it
// is blocked (remove() pops / empties them without notifying); then every deadline passes.
// observation: status, number of sleeps that were seen completed BEFORE their own time point, final state of each sleep
static std::atomic<long> sd_visits{0};
static void count_point(const char *id) {
    if (std::strcmp(id, "sched_wait") == 0) sd_visits.fetch_add(1);
}

static void run_cancel_blocked(const std::vector<long> &op) {
    bool use_pool = op[1] == 1;
    long mask = op[2];
    size_t k = op.size() - 3;
    std::unique_ptr<thread_pool> pool;
    if (use_pool) pool.reset(new thread_pool(2));
    std::vector<std::unique_ptr<future<void>>> futs(k);
    std::vector<tp_t> tps(k);
    std::vector<int> ids(k);
    std::vector<long> state(k, 0);
    long early = 0;
    std::thread thr;
    sd_visits.store(0);
    cocls::verif::get_hooks().point = &count_point;
    {
        scheduler sch;
        if (use_pool) sch.start(*pool); else sch.start(thr);
        // the worker is idle on the empty heap
        for (int i = 0; i < 2000 && sd_visits.load() < 1; i++) std::this_thread::sleep_for(std::chrono::milliseconds(1));
        long v0 = sd_visits.load();
        auto t0 = std::chrono::system_clock::now();
        for (size_t i = 0; i < k; i++) {
            tps[i] = t0 + std::chrono::milliseconds(op[3 + i]);
            futs[i].reset(new future<void>(sch.sleep_until(tps[i], &ids[i])));
            if (i == 0)   // the worker has looked at the heap again: it now waits for the first deadline
                for (int j = 0; j < 150 && sd_visits.load() <= v0; j++) std::this_thread::sleep_for(std::chrono::milliseconds(1));
        }
        std::this_thread::sleep_for(std::chrono::milliseconds(5));     // ... and has entered wait_until
        for (size_t i = 0; i < k; i++)
            if (mask & (1L << i)) { bool c = sch.cancel(&ids[i]); (void)c; }
        auto limit = tps[k - 1] + std::chrono::milliseconds(1500);
        size_t done = 0;
        std::vector<bool> seen(k, false);
        while (done < k && std::chrono::system_clock::now() < limit) {
            for (size_t i = 0; i < k; i++) {
                if (seen[i] || !futs[i]->ready()) continue;
                seen[i] = true; done++;
                state[i] = status_of(*futs[i]);
                if (state[i] == 1 && std::chrono::system_clock::now() < tps[i]) early++;
            }
            std::this_thread::sleep_for(std::chrono::microseconds(500));
        }
    }
    cocls::verif::get_hooks().point = nullptr;
    if (thr.joinable()) thr.join();
    std::vector<long> v{0, early};
    v.insert(v.end(), state.begin(), state.end());
    vh::print_obs(v);
}

static bool cancel_blocked_ok(const std::vector<long> &op) {
    if (op.size() < 5 || op.size() > 7 || op[0] != 5 || (op[1] != 0 && op[1] != 1)) return false;
    long prev = 0;
    for (size_t i = 3; i < op.size(); i++) {
        if (op[i] < prev + 200) return false;
        prev = op[i];
    }
    if (prev > 1000) return false;
    return op[2] >= 0 && op[2] < (1L << (op.size() - 3));
}

static void run_thread(const vh::Case &cs) {
    for (auto &op : cs.ops) {
        if (!op.empty() && op[0] == 5) {
            if (cancel_blocked_ok(op)) run_cancel_blocked(op); else vh::print_obs({1});
            continue;
        }
        if (op.size() == 2 && (op[0] == 2 || op[0] == 4) && (op[1] == 0 || (op[1] >= 10000 && op[1] <= 100000))) {
            run_stop_race(op, op[0] == 4);
            continue;
        }
        // ops 3 / 4: the same scenarios with the scheduler started in a thread_pool (worker_coro<true>)
        bool use_pool = !op.empty() && op[0] == 3;
        std::unique_ptr<thread_pool> pool;
        if (use_pool) pool.reset(new thread_pool(2));
        if (op.size() != 3 || (op[0] != 1 && op[0] != 3) || op[1] < 0 || op[1] > 100000 || op[2] < 1 || op[2] > 200) {
            vh::print_obs({1});
            continue;
        }
        long woke = 0, far_state = 0;
        int id_far = 0, id_near = 0;
        std::unique_ptr<future<void>> ffar, fnear;
        std::thread thr;
        {
            scheduler sch;
            if (use_pool) sch.start(*pool); else sch.start(thr);
            auto t0 = std::chrono::system_clock::now();
            if (op[1] > 0) ffar.reset(new future<void>(sch.sleep_until(t0 + std::chrono::milliseconds(op[1]), &id_far)));
            std::this_thread::sleep_for(std::chrono::milliseconds(60));   // let the worker block
            fnear.reset(new future<void>(sch.sleep_until(t0 + std::chrono::milliseconds(60 + op[2]), &id_near)));
            auto limit = std::chrono::steady_clock::now() + std::chrono::milliseconds(op[2] + 2000);
            while (std::chrono::steady_clock::now() < limit) {
                if (fnear->ready()) { woke = 1; break; }
                std::this_thread::sleep_for(std::chrono::milliseconds(1));
            }
            if (ffar) {
                bool c = sch.cancel(&id_far);
                (void)c;
                far_state = status_of(*ffar);
            }
        }
        if (thr.joinable()) thr.join();
        vh::print_obs({0, woke, far_state});
    }
}

int main(int argc, char **argv) {
    if (argc < 2) return 2;
    for (auto &cs : vh::read_cases(argv[1])) {
        std::printf("CASE %s\n", cs.name.c_str());
        std::fflush(stdout);
        if (cs.engine == "tm") {
            Manual m;
            for (auto &op : cs.ops) m.exec(op);
        } else if (cs.engine == "tx") {
            Extra x;
            for (auto &op : cs.ops) with_watchdog(-998, [&] { x.exec(op); });
        } else if (cs.engine == "tiv") {
            Interval iv;
            // every call runs under the watchdog: a stop callback that self-deadlocks may run inside request_stop(), inside
            // the generator call (stop requested before the body starts: the callback runs in its constructor) or in ~Interval
            for (auto &op : cs.ops) with_watchdog(-998, [&] { iv.exec(op); });
        } else if (cs.engine == "tst") {
            run_start(cs);
        } else if (cs.engine == "tth") {
            run_thread(cs);
        }
        std::printf("END\n");
        std::fflush(stdout);
    }
    return 0;
}
