// ctl_shared.cpp — controlled-schedule scenarios for one shared_future state (C17).
// engine: sf     threads: 0 = creator (constructs, hands out copies, drops its own handles),
//                         1 = resolver (owns the promise), 2.. = users (copy / poll / await / drop)
// engines: sf (instance counted value), sf_void, sf_uptr (move-only), sf_ref (reference)
// ops: [0 mode v] construction mode   0 ctor(fn(promise))  1 ctor(fn -> future)  2 default + get_promise()
//                                     3 default + init_if_needed + copy + get_promise() on the copy  4 set_value(v)
//                                     5 ctor(fn -> async coroutine .start()): the coroutine produces the result
//                                     6 default + init_if_needed, copies to polling/dropping users, THEN get_promise()
//                                     7 ctor(fn -> future<T&>) resolved through promise<T&> (state refers to a foreign object)
//      [1 kind d] resolver            0 value d  1 exception d  2 drop
//      [2 cp kind] user               cp: 0 use the handle as received  1 copy-construct and drop the original
//                                         2 copy-assign onto a live handle (old state released), drop the original
//                                         3 move-assign onto a live handle  4 self-assignment
//                                     kind 0 drop  1 poll ready()/value()  2 co_await  3 sync()  4 callback awaiter  5 join()
//      [9 ...] schedule
// The harness contains no expected values.
#define VH_DEFINE_NEW
#include "ctl.h"
#include <sanitizer/lsan_interface.h>
#define protected public
#define private public
#include <cocls/future.h>
#include <cocls/async.h>
#include <cocls/shared_future.h>
#undef protected
#undef private

using namespace cocls;

struct counted {
    static inline std::atomic<long> live{0};
    long v;
    counted(long x) : v(x) { live++; }
    counted(const counted &o) : v(o.v) { live++; }
    counted(counted &&o) : v(o.v) { live++; o.v = -777; }   // a moved-from value is recognisable
    ~counted() { live--; }
};

struct test_exc {
    long code;
    counted c;
    explicit test_exc(long x) : code(x), c(x) {}
};

static counted g_refcells[64] = {0, 0, 0, 0, 0, 0, 0, 0, 0, 0, 0, 0, 0, 0, 0, 0, 0, 0, 0, 0, 0, 0, 0, 0, 0, 0, 0, 0, 0, 0, 0, 0,
                                  0, 0, 0, 0, 0, 0, 0, 0, 0, 0, 0, 0, 0, 0, 0, 0, 0, 0, 0, 0, 0, 0, 0, 0, 0, 0, 0, 0, 0, 0, 0, 0};
static std::atomic<int> g_refnext{0};

// value types: instance counted, void, move-only, reference
template <typename T>
struct traits;
template <>
struct traits<counted> {
    static bool set(promise<counted> &p, long v) { return p(counted(v)); }
    static long get(counted &x) { return x.v; }
    static shared_future<counted> pre(long v) { return shared_future<counted>::set_value(v); }
    static counted make(long v) { return counted(v); }
    static counted &refcell(long v) {
        counted &c = g_refcells[g_refnext++ % 64];
        c.v = v;
        return c;
    }
};
template <>
struct traits<void> {
    static bool set(promise<void> &p, long) { return p(); }
    static shared_future<void> pre(long) { return shared_future<void>::set_value(); }
};
template <>
struct traits<std::unique_ptr<counted>> {
    using U = std::unique_ptr<counted>;
    static bool set(promise<U> &p, long v) { return p(std::make_unique<counted>(v)); }
    static long get(U &x) { return x ? x->v : -12345; }
    static shared_future<U> pre(long v) { return shared_future<U>::set_value(std::make_unique<counted>(v)); }
    static U make(long v) { return std::make_unique<counted>(v); }
    static inline U cells[16];
    static U &refcell(long v) {
        U &c = cells[g_refnext++ % 16];
        c->v = v;
        return c;
    }
};
template <>
struct traits<counted &> {
    static counted &cell(long v) {
        counted &c = g_refcells[g_refnext++ % 64];
        c.v = v;
        return c;
    }
    static bool set(promise<counted &> &p, long v) { return p(cell(v)); }
    static long get(counted &x) { return x.v; }
    static shared_future<counted &> pre(long v) { return shared_future<counted &>::set_value(cell(v)); }
    static counted &make(long v) { return cell(v); }
};

struct Seen {
    long done = 0, kind = 9, datum = 0, runs = 0;
};

// mode 7: the object the shared state refers to (set by the resolver before it resolves)
static std::atomic<const void *> g_ref_target{nullptr};

template <typename T>
static void read_into(shared_future<T> &h, Seen &s) {
    try {
        if constexpr (std::is_void_v<T>) {
            h.value();
            h.value();
            s.datum = 0;
        } else {
            s.datum = traits<T>::get(h.value());
            // the value can be read any number of times: a second read must give the same complete value
            if (traits<T>::get(h.value()) != s.datum) s.datum = -888;
            // a state that refers to somebody else's object must deliver that very object
            const void *tg = g_ref_target.load();
            if (tg && static_cast<const void *>(&h.value()) != tg) s.datum = -999;
        }
        s.kind = 1;
    } catch (const await_canceled_exception &) {
        s.kind = 0;
        s.datum = 0;
    } catch (const test_exc &e) {
        s.kind = 2;
        s.datum = e.code;
    } catch (const value_not_ready_exception &) {
        s.kind = 7;
        s.datum = 0;
    }
}

// the coroutine frame owns the handle: it is released when the coroutine finishes
template <typename T>
static async<void> coro_waiter(shared_future<T> h, Seen &s) {
    try {
        if constexpr (std::is_void_v<T>) {
            co_await h;
            s.datum = 0;
        } else {
            auto &r = co_await h;
            s.datum = traits<T>::get(r);
        }
        s.kind = 1;
    } catch (const await_canceled_exception &) {
        s.kind = 0;
    } catch (const test_exc &e) {
        s.kind = 2;
        s.datum = e.code;
    } catch (const value_not_ready_exception &) {
        s.kind = 7;
    }
    s.runs++;
    s.done = 1;
}

// the callback context owns the handle: it is released at the end of the callback
template <typename T>
struct CbCtx {
    using SF = shared_future<T>;
    SF h;
    Seen *s;
    co_awaiter<future<T>> aw;
    CbCtx(SF &&hh, Seen &se) : h(std::move(hh)), s(&se), aw(h.operator co_await()) {}
    static suspend_point<void> fn(awaiter *, void *u) noexcept {
        auto *c = static_cast<CbCtx *>(u);
        read_into(c->h, *c->s);
        c->s->runs++;
        c->h = SF();
        c->s->done = 1;
        return {};
    }
};

// promise constructed in place (no move => no extra claim/dtor points) or moved in from the init function
template <typename T>
struct Holder {
    promise<T> p;
    explicit Holder(promise<T> &&x) : p(std::move(x)) {}
    explicit Holder(shared_future<T> &s) : p(s.get_promise()) {}
};

// co_await on the gate that tells the harness when the coroutine is parked (the resolver may open the gate then)
struct GateAw {
    co_awaiter<future<void>> aw;
    std::atomic<bool> *parked;
    bool await_ready() { return aw.await_ready(); }
    bool await_suspend(std::coroutine_handle<> h) {
        bool r = aw.await_suspend(h);
        parked->store(true);
        return r;
    }
    void await_resume() {}
};

// construction mode 5: the shared state is the future of a coroutine that finishes when the gate opens
template <typename T>
static async<T> producer(future<void> &gate, std::atomic<bool> *parked, long rkind, long rdatum) {
    co_await GateAw{gate.operator co_await(), parked};
    if (rkind == 1) throw test_exc(rdatum);
    if (rkind == 2) throw await_canceled_exception();   // a coroutine cannot drop its promise: same observation
    if constexpr (std::is_void_v<T>) co_return;
    else co_return traits<T>::make(rdatum);
}

static long g_leaks = 0;

template <typename T>
static void run_case(const vh::Case &cs) {
    using SF = shared_future<T>;
    struct UDecl {
        long cp, kind;
    };
    long mode = 0, mval = 0, rkind = 0, rdatum = 0;
    bool have_mode = false, have_res = false;
    std::vector<UDecl> users;
    std::vector<long> sched;
    for (auto &op : cs.ops) {
        if (op.empty()) continue;
        if (op[0] == 0 && op.size() == 3 && op[1] >= 0 && op[1] <= 7) {
            if (!have_mode) { mode = op[1]; mval = op[2]; have_mode = true; }
        } else if (op[0] == 1 && op.size() == 3 && op[1] >= 0 && op[1] <= 2) {
            if (!have_res) { rkind = op[1]; rdatum = op[2]; have_res = true; }
        } else if (op[0] == 2 && op.size() == 3 && op[1] >= 0 && op[1] <= 4 && op[2] >= 0 && op[2] <= 5) {
            users.push_back({op[1], op[2]});
        } else if (op[0] == 9) {
            sched.insert(sched.end(), op.begin() + 1, op.end());
        }
    }
    int nu = (int)users.size();
    long live0 = counted::live.load();
    {
        std::optional<SF> sf, sf2;
        std::optional<Holder<T>> prom;
        // mode 7: shared_future<T> built from a function returning future<T&>, resolved through promise<T&>
        constexpr bool plain = !std::is_void_v<T> && !std::is_reference_v<T>;
        using PT = std::conditional_t<plain, T, int>;
        std::optional<promise<PT &>> rprom;
        if (mode == 7 && !plain) mode = 1;
        g_ref_target = nullptr;
        future<void> gate;
        std::optional<promise<void>> gprom;
        std::atomic<bool> pavail{false};
        std::vector<std::optional<SF>> uh(nu);
        std::unique_ptr<std::atomic<bool>[]> given(new std::atomic<bool>[nu + 1]);
        for (int j = 0; j < nu; j++) given[j] = false;
        std::vector<Seen> seen(nu);
        std::vector<std::unique_ptr<CbCtx<T>>> cbs(nu);
        long cdone = 0, res = -1;
        if (mode == 5) gprom.emplace(gate.get_promise());   // relaxed exchange + in-place promise: no hook point

        std::vector<std::function<void()>> fns;
        // ---- creator
        fns.push_back([&] {
            switch (mode) {
                case 0:
                    sf.emplace([&](promise<T> p) {
                        prom.emplace(std::move(p));
                        pavail = true;
                    });
                    break;
                case 1:
                    sf.emplace([&] {
                        return future<T>([&](promise<T> p) {
                            prom.emplace(std::move(p));
                            pavail = true;
                        });
                    });
                    break;
                case 2:
                    sf.emplace();
                    prom.emplace(*sf);
                    pavail = true;
                    break;
                case 3:
                    sf.emplace();
                    sf->init_if_needed();
                    sf2.emplace(*sf);
                    prom.emplace(*sf2);
                    pavail = true;
                    break;
                case 4:
                    sf.emplace(traits<T>::pre(mval));
                    break;
                case 5:
                    sf.emplace([&] { return producer<T>(gate, &pavail, rkind, rdatum).start(); });
                    break;
                case 7:
                    if constexpr (plain) {
                        sf.emplace([&] {
                            return future<T &>([&](promise<T &> p) {
                                rprom.emplace(std::move(p));
                                pavail = true;
                            });
                        });
                    }
                    break;
                case 6:
                    // late initialisation with copies handed out (to users that only poll or drop) before get_promise()
                    sf.emplace();
                    sf->init_if_needed();
                    for (int j = 0; j < nu; j++) {
                        if (users[j].kind > 1) continue;
                        ctl::point("sf_inc");
                        uh[j].emplace(*sf);
                        given[j] = true;
                    }
                    prom.emplace(*sf);
                    pavail = true;
                    break;
            }
            for (int j = 0; j < nu; j++) {
                if (given[j].load()) continue;
                ctl::point("sf_inc");
                if (mode == 3 && (j & 1)) uh[j].emplace(*sf2);
                else uh[j].emplace(*sf);
                given[j] = true;
            }
            ctl::point("sf_dec");
            sf.reset();
            if (mode == 3) {
                ctl::point("sf_dec");
                sf2.reset();
            }
            cdone = 1;
        });
        // ---- resolver
        fns.push_back([&] {
            if (mode == 4) {
                res = 0;
                return;
            }
            ctl::block_until("xwait", [&] { return pavail.load(); });
            bool r = false;
            if (mode == 5) {
                r = (*gprom)();      // opens the gate: the producer coroutine finishes on this thread
            } else if (mode == 7) {
                if constexpr (plain) {
                    switch (rkind) {
                        case 0: {
                            T &cell = traits<T>::refcell(rdatum);
                            g_ref_target = &cell;
                            r = (*rprom)(cell);
                            break;
                        }
                        case 1: r = (*rprom)(std::make_exception_ptr(test_exc(rdatum))); break;
                        case 2: r = (*rprom)(drop); break;
                    }
                }
            } else {
                switch (rkind) {
                    case 0: r = traits<T>::set(prom->p, rdatum); break;
                    case 1: r = prom->p(std::make_exception_ptr(test_exc(rdatum))); break;
                    case 2: r = prom->p(drop); break;
                }
            }
            res = r;
        });
        // ---- users
        for (int j = 0; j < nu; j++) {
            UDecl d = users[j];
            fns.push_back([&, j, d] {
                ctl::block_until("xwait", [&] { return given[j].load(); });
                SF h = std::move(*uh[j]);
                uh[j].reset();
                Seen &s = seen[j];
                switch (d.cp) {
                    case 1: {   // copy construction, original dropped
                        ctl::point("sf_inc");
                        SF h2 = h;
                        ctl::point("sf_dec");
                        h = SF();
                        h = std::move(h2);
                        break;
                    }
                    case 2: {   // copy assignment onto a live handle of another (ready) state, original dropped
                        SF g = traits<T>::pre(d.kind + 1000);
                        ctl::point("sf_inc");
                        g = h;
                        ctl::point("sf_dec");
                        h = SF();
                        h = std::move(g);
                        break;
                    }
                    case 3: {   // move assignment onto a live handle of another (ready) state
                        SF g = traits<T>::pre(d.kind + 2000);
                        ctl::point("sf_inc");
                        g = std::move(h);
                        h = std::move(g);
                        break;
                    }
                    case 4: {   // self assignment
                        ctl::point("sf_inc");
                        SF &alias = h;
                        h = alias;
                        break;
                    }
                }
                switch (d.kind) {
                    case 0:
                        ctl::point("sf_dec");
                        h = SF();
                        s.done = 1;
                        break;
                    case 1:
                        if (h.ready()) read_into(h, s);
                        else { s.kind = 7; s.datum = 0; }
                        s.runs++;
                        ctl::point("sf_dec");
                        h = SF();
                        s.done = 1;
                        break;
                    case 2: coro_waiter<T>(std::move(h), s).detach(); break;
                    case 3:
                        h.sync();
                        read_into(h, s);
                        s.runs++;
                        h = SF();
                        s.done = 1;
                        break;
                    case 5:
                        try {
                            h.join();   // same as wait(): throws what value() throws
                        } catch (...) {
                        }
                        read_into(h, s);
                        s.runs++;
                        h = SF();
                        s.done = 1;
                        break;
                    case 4: {
                        cbs[j].reset(new CbCtx<T>(std::move(h), s));
                        CbCtx<T> &c = *cbs[j];
                        if (c.aw.await_ready() || !c.aw.await_suspend(&CbCtx<T>::fn, &c)) {
                            read_into(c.h, s);
                            s.runs++;
                            c.h = SF();
                            s.done = 1;
                        }
                        break;
                    }
                }
            });
        }
        ctl::Controller c;
        c.run(std::move(fns), sched);
        c.print_trace();
        vh::print_obs({0, 3, cdone});
        vh::print_obs({1, 1, res});
        for (int j = 0; j < nu; j++)
            vh::print_obs({(long)(j + 2), 2, seen[j].done, seen[j].kind, seen[j].datum, seen[j].runs});
        ctl::finish_case_or_restart(c);
    }
    long leak = __lsan_do_recoverable_leak_check() ? 1 : 0;
    if (leak) g_leaks++;
    vh::print_obs({10, counted::live.load() - live0, leak});
}

int main(int argc, char **argv) {
    if (argc < 2) return 2;
    for (auto &c : traits<std::unique_ptr<counted>>::cells) c = std::make_unique<counted>(0);
    int done = 0;
    for (auto &cs : vh::read_cases(argv[1])) {
        // the per-case leak check scans the whole (growing) heap: ask the driver for a fresh process now and then
        if (done++ == 400) std::_Exit(42);
        std::printf("CASE %s\n", cs.name.c_str());
        std::fflush(stdout);
        if (cs.engine == "sf") run_case<counted>(cs);
        else if (cs.engine == "sf_void") run_case<void>(cs);
        else if (cs.engine == "sf_uptr") run_case<std::unique_ptr<counted>>(cs);
        else if (cs.engine == "sf_ref") run_case<counted &>(cs);
        std::printf("END\n");
        std::fflush(stdout);
        // LSan keeps reporting an already reported leak in later checks of the same process: the leaking case is
        // complete, continue the remaining cases in a fresh process so that the report is attributed to it alone
        if (g_leaks) std::_Exit(42);
    }
    if (g_leaks) std::_Exit(0);  // already reported per case; skip the at-exit leak report
    return 0;
}
