// ctl_shared.cpp — controlled-schedule scenarios for one shared_future state (C17).
// engine: sf     threads: 0 = creator (constructs, hands out copies, drops its own handles),
//                         1 = resolver (owns the promise), 2.. = users (copy / poll / await / drop)
// ops: [0 mode v] construction mode   0 ctor(fn(promise))  1 ctor(fn -> future)  2 default + get_promise()
//                                     3 default + init_if_needed + copy + get_promise() on the copy  4 set_value(v)
//      [1 kind d] resolver            0 value d  1 exception d  2 drop
//      [2 cp kind] user               cp: copy the handle first and drop the original
//                                     kind 0 drop  1 poll ready()/value()  2 co_await  3 sync()  4 callback awaiter
//      [9 ...] schedule
// The harness contains no expected values.
#define VH_DEFINE_NEW
#include "ctl.h"
#include <sanitizer/lsan_interface.h>
#define protected public
#define private public
#include <cocls/future.h>
#include <cocls/async.h>
#include <cocls/shared_future.h>
#undef protected
#undef private

using namespace cocls;

struct counted {
    static inline std::atomic<long> live{0};
    long v;
    counted(long x) : v(x) { live++; }
    counted(const counted &o) : v(o.v) { live++; }
    counted(counted &&o) : v(o.v) { live++; }
    ~counted() { live--; }
};

struct test_exc {
    long code;
    counted c;
    explicit test_exc(long x) : code(x), c(x) {}
};

using SF = shared_future<counted>;

struct Seen {
    long done = 0, kind = 9, datum = 0, runs = 0;
};

static void read_into(SF &h, Seen &s) {
    try {
        s.datum = h.value().v;
        s.kind = 1;
    } catch (const await_canceled_exception &) {
        s.kind = 0;
        s.datum = 0;
    } catch (const test_exc &e) {
        s.kind = 2;
        s.datum = e.code;
    } catch (const value_not_ready_exception &) {
        s.kind = 7;
        s.datum = 0;
    }
}

// the coroutine frame owns the handle: it is released when the coroutine finishes
static async<void> coro_waiter(SF h, Seen &s) {
    try {
        counted &r = co_await h;
        s.datum = r.v;
        s.kind = 1;
    } catch (const await_canceled_exception &) {
        s.kind = 0;
    } catch (const test_exc &e) {
        s.kind = 2;
        s.datum = e.code;
    } catch (const value_not_ready_exception &) {
        s.kind = 7;
    }
    s.runs++;
    s.done = 1;
}

// the callback context owns the handle: it is released at the end of the callback
struct CbCtx {
    SF h;
    Seen *s;
    co_awaiter<future<counted>> aw;
    CbCtx(SF &&hh, Seen &se) : h(std::move(hh)), s(&se), aw(h.operator co_await()) {}
    static suspend_point<void> fn(awaiter *, void *u) noexcept {
        auto *c = static_cast<CbCtx *>(u);
        read_into(c->h, *c->s);
        c->s->runs++;
        c->h = SF();
        c->s->done = 1;
        return {};
    }
};

// promise constructed in place (no move => no extra claim/dtor points) or moved in from the init function
struct Holder {
    promise<counted> p;
    explicit Holder(promise<counted> &&x) : p(std::move(x)) {}
    explicit Holder(SF &s) : p(s.get_promise()) {}
};

static long g_leaks = 0;

static void run_case(const vh::Case &cs) {
    struct UDecl {
        long cp, kind;
    };
    long mode = 0, mval = 0, rkind = 0, rdatum = 0;
    bool have_mode = false, have_res = false;
    std::vector<UDecl> users;
    std::vector<long> sched;
    for (auto &op : cs.ops) {
        if (op.empty()) continue;
        if (op[0] == 0 && op.size() == 3 && op[1] >= 0 && op[1] <= 4) {
            if (!have_mode) { mode = op[1]; mval = op[2]; have_mode = true; }
        } else if (op[0] == 1 && op.size() == 3 && op[1] >= 0 && op[1] <= 2) {
            if (!have_res) { rkind = op[1]; rdatum = op[2]; have_res = true; }
        } else if (op[0] == 2 && op.size() == 3 && op[1] >= 0 && op[1] <= 1 && op[2] >= 0 && op[2] <= 4) {
            users.push_back({op[1], op[2]});
        } else if (op[0] == 9) {
            sched.insert(sched.end(), op.begin() + 1, op.end());
        }
    }
    int nu = (int)users.size();
    long live0 = counted::live.load();
    {
        std::optional<SF> sf, sf2;
        std::optional<Holder> prom;
        std::atomic<bool> pavail{false};
        std::vector<std::optional<SF>> uh(nu);
        std::unique_ptr<std::atomic<bool>[]> given(new std::atomic<bool>[nu + 1]);
        for (int j = 0; j < nu; j++) given[j] = false;
        std::vector<Seen> seen(nu);
        std::vector<std::unique_ptr<CbCtx>> cbs(nu);
        long cdone = 0, res = -1;

        std::vector<std::function<void()>> fns;
        // ---- creator
        fns.push_back([&] {
            switch (mode) {
                case 0:
                    sf.emplace([&](promise<counted> p) {
                        prom.emplace(std::move(p));
                        pavail = true;
                    });
                    break;
                case 1:
                    sf.emplace([&] {
                        return future<counted>([&](promise<counted> p) {
                            prom.emplace(std::move(p));
                            pavail = true;
                        });
                    });
                    break;
                case 2:
                    sf.emplace();
                    prom.emplace(*sf);
                    pavail = true;
                    break;
                case 3:
                    sf.emplace();
                    sf->init_if_needed();
                    sf2.emplace(*sf);
                    prom.emplace(*sf2);
                    pavail = true;
                    break;
                case 4:
                    sf.emplace(SF::set_value(mval));
                    break;
            }
            for (int j = 0; j < nu; j++) {
                ctl::point("sf_inc");
                if (mode == 3 && (j & 1)) uh[j].emplace(*sf2);
                else uh[j].emplace(*sf);
                given[j] = true;
            }
            ctl::point("sf_dec");
            sf.reset();
            if (mode == 3) {
                ctl::point("sf_dec");
                sf2.reset();
            }
            cdone = 1;
        });
        // ---- resolver
        fns.push_back([&] {
            if (mode == 4) {
                res = 0;
                return;
            }
            ctl::block_until("xwait", [&] { return pavail.load(); });
            bool r = false;
            switch (rkind) {
                case 0: r = prom->p(counted(rdatum)); break;
                case 1: r = prom->p(std::make_exception_ptr(test_exc(rdatum))); break;
                case 2: r = prom->p(drop); break;
            }
            res = r;
        });
        // ---- users
        for (int j = 0; j < nu; j++) {
            UDecl d = users[j];
            fns.push_back([&, j, d] {
                ctl::block_until("xwait", [&] { return given[j].load(); });
                SF h = std::move(*uh[j]);
                uh[j].reset();
                Seen &s = seen[j];
                if (d.cp) {
                    ctl::point("sf_inc");
                    SF h2 = h;
                    ctl::point("sf_dec");
                    h = SF();
                    h = std::move(h2);
                }
                switch (d.kind) {
                    case 0:
                        ctl::point("sf_dec");
                        h = SF();
                        s.done = 1;
                        break;
                    case 1:
                        if (h.ready()) read_into(h, s);
                        else { s.kind = 7; s.datum = 0; }
                        s.runs++;
                        ctl::point("sf_dec");
                        h = SF();
                        s.done = 1;
                        break;
                    case 2: coro_waiter(std::move(h), s).detach(); break;
                    case 3:
                        h.sync();
                        read_into(h, s);
                        s.runs++;
                        h = SF();
                        s.done = 1;
                        break;
                    case 4: {
                        cbs[j].reset(new CbCtx(std::move(h), s));
                        CbCtx &c = *cbs[j];
                        if (c.aw.await_ready() || !c.aw.await_suspend(&CbCtx::fn, &c)) {
                            read_into(c.h, s);
                            s.runs++;
                            c.h = SF();
                            s.done = 1;
                        }
                        break;
                    }
                }
            });
        }
        ctl::Controller c;
        c.run(std::move(fns), sched);
        c.print_trace();
        vh::print_obs({0, 3, cdone});
        vh::print_obs({1, 1, res});
        for (int j = 0; j < nu; j++)
            vh::print_obs({(long)(j + 2), 2, seen[j].done, seen[j].kind, seen[j].datum, seen[j].runs});
        ctl::finish_case_or_restart(c);
    }
    long leak = __lsan_do_recoverable_leak_check() ? 1 : 0;
    if (leak) g_leaks++;
    vh::print_obs({10, counted::live.load() - live0, leak});
}

int main(int argc, char **argv) {
    if (argc < 2) return 2;
    int done = 0;
    for (auto &cs : vh::read_cases(argv[1])) {
        // the per-case leak check scans the whole (growing) heap: ask the driver for a fresh process now and then
        if (done++ == 400) std::_Exit(42);
        std::printf("CASE %s\n", cs.name.c_str());
        std::fflush(stdout);
        if (cs.engine == "sf") run_case(cs);
        std::printf("END\n");
        std::fflush(stdout);
        // LSan keeps reporting an already reported leak in later checks of the same process: the leaking case is
        // complete, continue the remaining cases in a fresh process so that the report is attributed to it alone
        if (g_leaks) std::_Exit(42);
    }
    if (g_leaks) std::_Exit(0);  // already reported per case; skip the at-exit leak report
    return 0;
}
