// vm_aggrc.cpp — generator_aggregator whose sources are resumed by SEVERAL threads at once, under the
// controlled-schedule driver (ctl.h): C14 with concurrent completions.   engines: aggc0, aggc1
// threads: 0        consumer: performs the accesses of the case in order (blocking styles block it at the gen_block /
//                   flagwait hooks; coroutine / plain-awaiter consumers are resumed by whichever thread makes the
//                   aggregate yield) and finally destroys the aggregate (the destructor may block on in-flight sources)
//          1..n     completers (op 8 n, default 2): completer t owns the sources i with i mod n = t-1 and resolves a
//                   pending await of one of them whenever there is one
// Scheduling points: every library hook (claim / resolve / walk / q_lock / q_res / gen_block / flagwait ...), every
// acquisition of the completion queue's lock, and the inside of every mutation of the completion queue:
//   * while the library headers are compiled, std::mutex is mapped to std::agg_mutex, a controller-aware lock (a thread
//     that asks for a held lock is disabled until it is free), so that a critical section can be preempted safely;
//   * std::queue is mapped to std::agg_q, a FIFO whose emplace/pop are visibly NOT atomic (read the state, scheduling
//     point, write the state back).  Under the queue's lock nobody else can get in between, so this changes nothing;
//     without proper locking a concurrent push/pop is lost or replayed, exactly what a data race on std::queue may do.
// No model of the interleaving: every explored schedule must satisfy the C14 oracle (per-source order, union, end,
// exception, argument routing, RAII balance, nothing left blocked); a deadlock is reported as line 777.
// ops:  10 script | 0 build | 1 style arg | 3 destroy | 8 n | 9 schedule      one observation line per op
//       (layout of vm_aggr.cpp; ops 8 and 9 print the "rejected" line)
#define VH_DEFINE_NEW
#include "ctl.h"

namespace std {
class agg_mutex {
public:
    agg_mutex() = default;
    agg_mutex(const agg_mutex &) = delete;
    void lock() {
        int me = ctl::Controller::tid();
        if (me >= 0 && ctl::Controller::active()) ctl::block_until("q_lock", [&] { return owner == -2; });
        owner = me;
    }
    void unlock() { owner = -2; }
    bool try_lock() {
        if (owner != -2) return false;
        owner = ctl::Controller::tid();
        return true;
    }
    int owner = -2;
};

template <typename T>
class agg_q {
public:
    agg_q() = default;
    template <typename... A>
    void emplace(A &&...a) {
        std::deque<T> snap = d;
        ctl::point("step");
        snap.emplace_back(std::forward<A>(a)...);
        d = std::move(snap);
    }
    void push(T x) { emplace(std::move(x)); }
    void pop() {
        std::deque<T> snap = d;
        ctl::point("step");
        if (!snap.empty()) snap.pop_front();
        d = std::move(snap);
    }
    T &front() { return d.front(); }
    const T &front() const { return d.front(); }
    bool empty() const { return d.empty(); }
    std::size_t size() const { return d.size(); }

protected:
    std::deque<T> d;
};
}  // namespace std

#define protected public
#define private public
#define mutex agg_mutex
#define queue agg_q
#include <cocls/generator.h>
#include <cocls/generator_aggregator.h>
#include <cocls/future.h>
#include <cocls/with_allocator.h>
#include <cocls/coro_storage.h>
#undef queue
#undef mutex
#undef protected
#undef private

using namespace cocls;
#include "gen_script.h"

enum { K_DESTROYED = 7 };

template <bool A>
struct ACtx {
    Ctx<A> c;
    std::vector<std::unique_ptr<CtxBase>> srcs;
    std::vector<Gen<A>> list;
    bool built = false;
};

template <bool A>
static void emit(ACtx<A> &x, long st, Result r) {
    auto &c = x.c;
    long done = c.gen ? (c.gen->done() ? 1 : 0) : 2;
    std::vector<long> v{st, r.kind, r.val, done, 0};
    for (int i = 0; i < c.sink->nev; i++) v.push_back(c.sink->ev[i]);
    c.sink->nev = 0;
    vh::print_obs(v);
}
static void reject_line() { vh::print_obs({1, 0, 0, 0, 0}); }

template <bool A>
static void run_case(const vh::Case &cs) {
    vh::t_count = false;
    auto xp = std::make_unique<ACtx<A>>();
    ACtx<A> &x = *xp;
    auto &c = x.c;
    c.sink->with_src = true;
    x.srcs.reserve(16);
    std::vector<long> sched;
    int ncomp = 2;
    for (auto &op : cs.ops) {
        if (!op.empty() && op[0] == 9) sched.assign(op.begin() + 1, op.end());
        if (op.size() == 2 && op[0] == 8 && op[1] >= 1 && op[1] <= 3) ncomp = (int)op[1];
    }
    std::atomic<bool> consumer_done{false};

    auto consumer = [&] {
        for (auto &op : cs.ops) {
            if (op.empty()) { reject_line(); continue; }
            switch (op[0]) {
                case 10: {
                    if (x.built || (op.size() % 2) != 1 || x.srcs.size() >= 12) { reject_line(); break; }
                    x.srcs.emplace_back(new CtxBase());
                    CtxBase *s = x.srcs.back().get();
                    s->sink = c.sink;
                    s->src = (long)x.srcs.size() - 1;
                    s->script.assign(op.begin() + 1, op.end());
                    x.list.push_back(body<A>(s, s->script.data(), (int)s->script.size()));
                    emit(x, 0, Result{});
                    break;
                }
                case 0:
                    if (x.built || op.size() != 1) { reject_line(); break; }
                    x.built = true;
                    c.gen.emplace(generator_aggregator<int, std::conditional_t<A, int, void>>(std::move(x.list)));
                    emit(x, 0, Result{});
                    break;
                case 1: {
                    if (op.size() < 3 || !c.gen || op[1] < 0 || op[1] > 6 || (A && op[1] == 1)) { reject_line(); break; }
                    int style = (int)op[1];
                    c.argv = (int)op[2];
                    c.res_ready = false;
                    if (style == 6) {
                        c.sub_access();
                        if (!c.res_ready) {
                            ctl::block_until("xwait", [&] { return c.cawt.count > 0; });
                            c.sub_poll();
                        }
                    } else if (style == 3 || style == 4) {
                        c.async_access(style);
                        if (!c.res_ready) ctl::block_until("xwait", [&] { return c.res_ready; });
                    } else {
                        c.sync_access(style);
                    }
                    c.res_ready = false;
                    c.cnt_report = 0;
                    emit(x, 0, c.res);
                    break;
                }
                case 3: {
                    if (op.size() != 1 || !c.gen) { reject_line(); break; }
                    c.it.reset();
                    c.gen.reset();   // may block in ~controller until the in-flight sources have completed
                    Result r;
                    r.kind = K_DESTROYED;
                    emit(x, 0, r);
                    break;
                }
                default: reject_line(); break;
            }
        }
        consumer_done.store(true);
    };
    auto completer = [&](int t) {
        return [&, t] {
            for (;;) {
                CtxBase *pick = nullptr;
                ctl::block_until("xwait", [&] {
                    for (size_t i = 0; i < x.srcs.size(); i++)
                        if ((int)(i % ncomp) == t && x.srcs[i]->prom) return true;
                    return consumer_done.load();
                });
                for (size_t i = 0; i < x.srcs.size(); i++)
                    if ((int)(i % ncomp) == t && x.srcs[i]->prom) { pick = x.srcs[i].get(); break; }
                if (!pick) return;
                promise<int> p = std::move(pick->prom);
                p(7);
            }
        };
    };
    std::vector<std::function<void()>> fns{consumer};
    for (int t = 0; t < ncomp; t++) fns.push_back(completer(t));
    ctl::Controller ctlr;
    ctlr.run(std::move(fns), sched);
    if (ctlr.deadlock) {
        std::vector<long> v{777};
        for (int s : ctlr.stuck) v.push_back(s);
        vh::print_obs(v);
    }
    ctl::finish_case_or_restart(ctlr);
    x.list.clear();
    xp.reset();
    vh::t_count = true;
}

int main(int argc, char **argv) {
    if (argc < 2) return 2;
    coro_queue::install_queue_and_call([] {});
    for (auto &cs : vh::read_cases(argv[1])) {
        std::printf("CASE %s\n", cs.name.c_str());
        std::fflush(stdout);
        if (cs.engine == "aggc1") run_case<true>(cs);
        else run_case<false>(cs);
        std::printf("END\n");
        std::fflush(stdout);
    }
    return 0;
}
