// vm_genc.cpp — generator read by one thread while ANOTHER thread completes the body's pending awaits, under the
// controlled-schedule driver (ctl.h): C13 "awaited operations completed by another thread".
// engines: genc0 = generator<int>, genc1 = generator<int,int>.
// threads: 0 = consumer (performs the accesses of the case in order; a synchronous access blocks it in
//              generator::next_sync (hook gen_block) or in future::sync (hook flagwait); a coroutine consumer started
//              here is resumed by whoever completes the body, i.e. it continues on thread 1)
//          1 = completer (whenever the body is suspended on a pending await k it resolves it with 100+k)
// Every yield point of the library (claim / resolve / walk / ready / sub / flagwait / gen_block ...) is a scheduling
// point; the schedule op picks the thread to run.  Body and consumer never run concurrently in a correct library, so
// the observation lines are schedule independent: the model is the sequential one with completions inserted as soon
// as the body suspends (GenDefs.genc_run), the point trace itself is not compared.
// ops:  0 k1 a1 ...   create (script as in vm_gen.cpp)
//       1 style arg   access; styles 0..6 as in vm_gen.cpp, 7 = range-for over everything that is left (genc0),
//                     8 = a re-arming awaiter: subscribes again from inside its own notification until the end
//                     (one line per answer).  The resume functions of the plain awaiters (6, 8) contain a
//                     scheduling point: the consumer thread may re-arm while the notifying thread is still inside
//       3             destroy
//       9 c1 c2 ...   schedule (choice k = the (k mod #enabled)-th enabled thread)
// observation: one line per access answer (style 7: one per loop iteration + the terminating answer):
//       st kind val done 0 0 cnt ev...    (same layout as vm_gen.cpp; allocation columns unused)
#define VH_DEFINE_NEW
#include "ctl.h"
#define protected public
#define private public
#include <cocls/generator.h>
#include <cocls/future.h>
#include <cocls/with_allocator.h>
#include <cocls/coro_storage.h>
#undef protected
#undef private

using namespace cocls;

#include "gen_script.h"

template <bool A>
static void emit(Ctx<A> &c, long st, Result r) {
    long done = c.gen ? (c.gen->done() ? 1 : 0) : 2;
    std::vector<long> v{st, r.kind, r.val, done, 0, 0, c.cnt_report};
    c.cnt_report = 0;
    for (int i = 0; i < c.sink->nev; i++) v.push_back(c.sink->ev[i]);
    c.sink->nev = 0;
    vh::print_obs(v);
}

template <bool A>
static void run_case(const vh::Case &cs) {
    Ctx<A> c;
    std::vector<long> sched;
    std::vector<std::vector<long>> ops;
    for (auto &op : cs.ops) {
        if (!op.empty() && op[0] == 9) sched.assign(op.begin() + 1, op.end());
        else ops.push_back(op);
    }
    std::atomic<bool> consumer_done{false};
    c.line_out = [&](Result r) { emit(c, 0, r); };
    g_notify_hook = [] { ctl::point("step"); };

    auto consumer = [&] {
        for (auto &op : ops) {
            if (op.empty()) { c.sink->nev = 0; vh::print_obs({1, 0, 0, 0, 0, 0, 0}); continue; }
            switch (op[0]) {
                case 0:
                    if (c.created || (op.size() % 2) != 1) { c.sink->nev = 0; vh::print_obs({1, 0, 0, 0, 0, 0, 0}); break; }
                    c.created = true;
                    c.script.assign(op.begin() + 1, op.end());
                    c.gen.emplace(body<A>(&c, c.script.data(), (int)c.script.size()));
                    emit(c, 0, Result{});
                    break;
                case 1: {
                    // styles 10..18 = styles 0..8 issued from inside a running coroutine (resumption queue active)
                    bool in_coro = op.size() == 3 && op[1] >= 10 && op[1] <= 18;
                    long base = op.size() == 3 ? (in_coro ? op[1] - 10 : op[1]) : -1;
                    if (op.size() != 3 || !c.gen || base < 0 || base > 8 || (A && (base == 1 || base == 7))) {
                        c.sink->nev = 0;
                        vh::print_obs({1, 0, 0, 0, 0, 0, 0});
                        break;
                    }
                    int style = (int)base;
                    c.argv = (int)op[2];
                    c.res_ready = false;
                    auto in_mode = [&](std::function<void()> f) {
                        if (in_coro) coro_queue::install_queue_and_call([&] { run_in_coro(f); });
                        else f();
                    };
                    if (style == 7) {
                        if constexpr (!A) in_mode([&] {
                            Result r;
                            try {
                                for (int v : *c.gen) {
                                    Result rv;
                                    rv.kind = K_VAL;
                                    rv.val = v;
                                    emit(c, 0, rv);
                                }
                                r.kind = K_ENDF;
                            } catch (const TestExc &e) {
                                r.kind = K_EXC;
                                r.val = e.code;
                            } catch (const DerivedCanceled &) {
                                r.kind = K_EXC;
                                r.val = 1002;
                            } catch (const await_canceled_exception &) {
                                r.kind = K_EXC;
                                r.val = 1001;
                            } catch (const no_more_values_exception &) {
                                r.kind = K_ENDT;
                            } catch (const value_not_ready_exception &) {
                                r.kind = K_NREADY;
                            }
                            emit(c, 0, r);
                        });
                        break;
                    }
                    if (style == 8) {
                        in_mode([&] { c.chain_start(c.argv); });
                        if (!c.chain_done) ctl::block_until("xwait", [&] { return c.chain_done; });
                        break;
                    }
                    if (style == 6) {
                        in_mode([&] { c.sub_access(); });
                        if (!c.res_ready) {
                            ctl::block_until("xwait", [&] { return c.cawt.count > 0; });
                            c.sub_poll();
                        }
                    } else if (style == 3 || style == 4) {
                        in_mode([&] { c.async_access(style); });   // may finish on the completer's thread
                        if (!c.res_ready) ctl::block_until("xwait", [&] { return c.res_ready; });
                    } else {
                        in_mode([&] { c.sync_access(style); });    // blocks this thread inside the library if the body suspends
                    }
                    c.res_ready = false;
                    emit(c, 0, c.res);
                    break;
                }
                case 3:
                    if (op.size() != 1 || !c.gen) { c.sink->nev = 0; vh::print_obs({1, 0, 0, 0, 0, 0, 0}); break; }
                    c.it.reset();
                    c.gen.reset();
                    emit(c, 0, Result{});
                    break;
                default:
                    c.sink->nev = 0;
                    vh::print_obs({1, 0, 0, 0, 0, 0, 0});
                    break;
            }
        }
        consumer_done.store(true);
    };
    auto completer = [&] {
        for (;;) {
            ctl::block_until("xwait", [&] { return (bool)c.prom || consumer_done.load(); });
            if (c.prom) {
                long k = c.pend_k;
                promise<int> p = std::move(c.prom);
                c.pend_k = -1;
                p((int)(100 + k));
            } else {
                return;
            }
        }
    };
    ctl::Controller ctlr;
    std::vector<std::function<void()>> fns{consumer, completer};
    ctlr.run(std::move(fns), sched);
    if (ctlr.deadlock) {
        std::vector<long> v{777};
        for (int s : ctlr.stuck) v.push_back(s);
        vh::print_obs(v);
    }
    ctl::finish_case_or_restart(ctlr);
}

int main(int argc, char **argv) {
    if (argc < 2) return 2;
    coro_queue::install_queue_and_call([] {});
    for (auto &cs : vh::read_cases(argv[1])) {
        std::printf("CASE %s\n", cs.name.c_str());
        std::fflush(stdout);
        if (cs.engine == "genc1") run_case<true>(cs);
        else run_case<false>(cs);
        std::printf("END\n");
        std::fflush(stdout);
    }
    return 0;
}
