// seq_queue.cpp — sequential differential driver for cocls::queue<T>, queue<void>, limited_queue<T> (C09, C10).
// engines:
//   q   queue<int>, ops issued from ordinary code, futures kept in a table and observed with ready()/value()
//   qc  queue<int>, every pop is issued by a coroutine (`auto f = q.pop(); co_await f`) that logs what it sees;
//       push / unblock_pop / ~queue resume it through the returned suspend_point (resumption order = log order)
//   qv  queue<void>
//   qm  queue<std::unique_ptr<int>> (move-only items), same driver as q
//   lq  limited_queue<int>; first op `0 limit` constructs it; unblock_pop (protected base) goes through a derived
//       class that re-exports it with a using-declaration
//   q2  queue<Item>, pushes can be split at the unlock: push_begin runs q.push() on its own thread and the value's
//       constructor (called by promise::set_value AFTER the queue lock is released) waits at a gate; push_end opens it.
// The harness contains no expected values: it executes ops and prints what the API shows.
#define VH_DEFINE_NEW
#include "common.h"
#include <unistd.h>
#include <cocls/queue.h>

using namespace cocls;

struct test_exc {
    long code;
};

// ---- observation of one future ----
static long to_long(int &x) { return x; }
static long to_long(std::unique_ptr<int> &x) { return x ? *x : -12345; }   // move-only item; a moved-from item would show as -12345
// copyable item whose move constructor / move assignment leave the source observably empty (like std::string / std::vector)
struct MoveZero {
    long v;
    explicit MoveZero(long x) : v(x) {}
    MoveZero(const MoveZero &o) : v(o.v) {}
    MoveZero(MoveZero &&o) noexcept : v(o.v) { o.v = -54321; }
    MoveZero &operator=(const MoveZero &o) { v = o.v; return *this; }
    MoveZero &operator=(MoveZero &&o) noexcept { v = o.v; o.v = -54321; return *this; }
};
static long to_long(MoveZero &x) { return x.v; }
// item whose constructor throws on demand (negative argument)
struct ctor_exc {};
struct Thrower {
    long v;
    Thrower(long x) : v(x) {
        if (x < 0) throw ctor_exc{};
    }
};
static long to_long(Thrower &x) { return x.v; }
// item type with an initializer-list constructor: pushed emplace-style as (count, value); the observation is injective enough
// to tell {v} from {1, v}: sum of the elements + 1000000 * (size - 1)
static long to_long(std::vector<int> &x) {
    long sum = 0;
    for (int e : x) sum += e;
    return sum + 1000000L * ((long)x.size() - 1);
}
template <typename X>
static long to_long(X &x) { return (long)x; }
template <typename T>
static T make_item(long v) {
    if constexpr (std::is_same_v<T, std::unique_ptr<int>>) return std::make_unique<int>((int)v);
    else if constexpr (std::is_same_v<T, MoveZero>) return MoveZero(v);
    else return (T)v;
}
template <typename F>
static std::array<long, 3> read_state(F &f) {
    long ready = f.ready() ? 1 : 0, code = 0, val = 0;
    try {
        if constexpr (std::is_void_v<typename F::value_type>) {
            f.value();
        } else {
            val = to_long(f.value());
        }
        code = 0;
    } catch (const await_canceled_exception &) {
        code = -1;
    } catch (const value_not_ready_exception &) {
        code = -2;
    } catch (const test_exc &e) {
        code = 1;
        val = e.code;
    }
    return {ready, code, val};
}

// futures are neither movable nor copyable: each lives in its own heap slot, built in place from the call
template <typename F>
struct Slot {
    F f;
    template <typename Fn>
    explicit Slot(Fn &&make) : f(make()) {}
};

template <typename F>
struct Table {
    std::vector<std::unique_ptr<Slot<F>>> slots;
    std::vector<std::array<long, 3>> last;
    template <typename Fn>
    long add(Fn &&make) {
        slots.push_back(std::make_unique<Slot<F>>(std::forward<Fn>(make)));
        return (long)slots.size() - 1;
    }
    // appends [id ready kind payload] for every future whose visible state changed since the last scan
    long scan(std::vector<long> &out) {
        long n = 0;
        for (size_t i = 0; i < slots.size(); i++) {
            auto st = read_state(slots[i]->f);
            if (i >= last.size() || last[i] != st) {
                out.push_back((long)i);
                out.insert(out.end(), st.begin(), st.end());
                n++;
            }
            if (i >= last.size()) last.push_back(st);
            else last[i] = st;
        }
        return n;
    }
};

static void reject() { vh::print_obs({1}); }

static std::exception_ptr exc(long e) { return std::make_exception_ptr(test_exc{e}); }

// ---- watchdog: an op that does not return (e.g. a lock held across a gate) ends the process ----
static std::atomic<long long> g_deadline{0};
static long long now_ms() {
    return std::chrono::duration_cast<std::chrono::milliseconds>(std::chrono::steady_clock::now().time_since_epoch()).count();
}
static void start_watchdog() {
    static bool started = false;
    if (started) return;
    started = true;
    std::thread([] {
        for (;;) {
            std::this_thread::sleep_for(std::chrono::milliseconds(50));
            long long d = g_deadline.load();
            if (d && now_ms() > d) {
                std::fprintf(stderr, "watchdog: operation did not return within 3 s (blocked on the queue lock?)\n");
                std::fflush(stdout);
                _exit(3);
            }
        }
    }).detach();
}
struct Armed {
    Armed() { g_deadline.store(now_ms() + 3000); }
    ~Armed() { g_deadline.store(0); }
};

// =============================== q / qv / qm / qs / qx ===============================
// Mode 0: items pushed as rvalues.  Mode 1 (qs): every push passes an LVALUE; the caller keeps one object per value and
// pushes that same object again whenever the value is pushed again (a push must not consume its argument).
// Mode 2 (qx): item constructed in place from a long; a negative argument makes the constructor throw: the push must
// propagate the exception and leave the queue usable and unchanged (only issued while nobody waits, see notes/C09.md).
template <typename T>
struct q_open : queue<T> {
    bool has_waiters() {
        std::lock_guard _(this->_mx);
        return !this->_awaiters.empty();
    }
};
static void start_watchdog();
struct Armed;
template <typename T, int Mode>
static void run_plain(const vh::Case &cs);
// =============================== qc ===============================
struct cco {
    struct promise_type {
        cco get_return_object() { return cco{std::coroutine_handle<promise_type>::from_promise(*this)}; }
        std::suspend_never initial_suspend() noexcept { return {}; }
        std::suspend_always final_suspend() noexcept { return {}; }
        void return_void() {}
        void unhandled_exception() { std::terminate(); }
    };
    std::coroutine_handle<promise_type> h;
};

struct CoCtx {
    std::unique_ptr<queue<int>> q;
    std::vector<long> log;
};

static cco consumer(CoCtx &c, long id) {
    auto f = c.q->pop();
    if (!f.ready()) c.log.insert(c.log.end(), {id, 0, -2, 0});
    try {
        int v = co_await f;
        c.log.insert(c.log.end(), {id, 1, 0, (long)v});
    } catch (const await_canceled_exception &) {
        c.log.insert(c.log.end(), {id, 1, -1, 0});
    } catch (const value_not_ready_exception &) {
        c.log.insert(c.log.end(), {id, (long)f.ready(), -2, 0});
    } catch (const test_exc &e) {
        c.log.insert(c.log.end(), {id, 1, 1, e.code});
    }
}

static void run_coro(const vh::Case &cs) {
    CoCtx c;
    c.q = std::make_unique<queue<int>>();
    std::vector<cco> frames;
    for (auto &op : cs.ops) {
        if (!c.q || op.empty()) { reject(); continue; }
        long ret = 0;
        size_t want = 0;
        switch (op[0]) {
            case 1: case 3: want = 2; break;
            case 2: case 4: case 5: want = 1; break;
            default: want = 0;
        }
        if (want == 0 || op.size() != want) { reject(); continue; }
        switch (op[0]) {
            case 1: { auto sp = c.q->push((int)op[1]); ret = (bool)sp; break; }   // sp's destructor resumes the consumer
            case 2: ret = (long)frames.size(); frames.push_back(consumer(c, ret)); break;
            case 3: { auto sp = c.q->unblock_pop(exc(op[1])); ret = (bool)sp; break; }
            case 4: break;
            case 5: c.q.reset(); break;
        }
        std::vector<long> o{0, ret, c.q ? (long)c.q->size() : 0, c.q ? (long)c.q->empty() : 1};
        o.insert(o.end(), c.log.begin(), c.log.end());
        c.log.clear();
        vh::print_obs(o);
    }
    c.q.reset();
    c.log.clear();
    for (auto &f : frames) f.h.destroy();
}

// =============================== lq ===============================
template <typename T>
struct lq_open : limited_queue<T> {
    using limited_queue<T>::limited_queue;
    using queue<T>::unblock_pop;   // protected base of limited_queue: not reachable for ordinary users
};

template <typename T>
static void run_limited(const vh::Case &cs) {
    std::unique_ptr<lq_open<T>> q;
    bool created = false;
    Table<future<T>> pops;
    Table<future<void>> pushes;
    for (auto &op : cs.ops) {
        if (op.empty()) { reject(); continue; }
        long ret = 0;
        if (!created) {
            if (op[0] != 0 || op.size() != 2 || op[1] < 0) { reject(); continue; }
            q = std::make_unique<lq_open<T>>((std::size_t)op[1]);
            created = true;
        } else {
            if (!q) { reject(); continue; }
            size_t want = 0;
            switch (op[0]) {
                case 1: case 3: case 6: want = 2; break;
                case 2: case 4: case 5: want = 1; break;
                default: want = 0;
            }
            if (want == 0 || op.size() != want) { reject(); continue; }
            switch (op[0]) {
                case 1:
                    if constexpr (std::is_same_v<T, std::vector<int>>)
                        ret = pushes.add([&] { return q->push((std::size_t)1, (int)op[1]); });   // emplace-style: vector(1, v)
                    else
                        ret = pushes.add([&] { return q->push(make_item<T>(op[1])); });
                    break;
                case 2: ret = pops.add([&] { return q->pop(); }); break;
                case 3: { auto sp = q->unblock_pop(exc(op[1])); ret = (bool)sp; break; }
                case 4: break;
                case 5: q.reset(); break;
                case 6: { auto sp = q->unblock_push(exc(op[1])); ret = (bool)sp; break; }
            }
        }
        std::vector<long> o{0, ret, q ? (long)q->size() : 0, q ? (long)q->empty() : 1, 0};
        o[4] = pops.scan(o);
        pushes.scan(o);
        vh::print_obs(o);
    }
    q.reset();
}

// =============================== qcb ===============================
// callback consumers: call_fn_future_awaiter whose completion callback records the outcome and asks for the next item
// from inside the callback (op `6 k`: k re-pops).  Future ids are the global pop() call counter (plain and callback pops).
struct CbCtx {
    std::unique_ptr<queue<int>> q;
    long next_id = 0;
    std::map<long, std::array<long, 3>> changed;
    std::set<long> resolved;
};
class cb_consumer {
public:
    cb_consumer(CbCtx &c, long budget) : _c(c), _budget(budget), _awt(*this) {}
    long start() {
        long id = _c.next_id++;
        _cur = id;
        _awt << [&] { return _c.q->pop(); };
        if (!_c.resolved.count(id)) _c.changed[id] = {0, -2, 0};
        return id;
    }

protected:
    suspend_point<void> on_item(future<int> &f) noexcept {
        auto st = read_state(f);
        _c.changed[_cur] = st;
        _c.resolved.insert(_cur);
        if (st[1] == -1) return {};   // queue destroyed
        if (_budget > 0) {
            _budget--;
            start();                  // ask for the next item from inside the completion callback
        }
        return {};
    }
    CbCtx &_c;
    long _budget;
    long _cur = -1;
    call_fn_future_awaiter<&cb_consumer::on_item> _awt;
};

static void run_callback(const vh::Case &cs) {
    start_watchdog();
    CbCtx c;
    c.q = std::make_unique<queue<int>>();
    std::vector<std::unique_ptr<cb_consumer>> consumers;
    std::map<long, std::unique_ptr<Slot<future<int>>>> plain;
    std::map<long, std::array<long, 3>> last;
    for (auto &op : cs.ops) {
        if (!c.q || op.empty()) { reject(); continue; }
        long ret = 0;
        size_t want = 0;
        switch (op[0]) {
            case 1: case 3: case 6: want = 2; break;
            case 2: case 4: case 5: want = 1; break;
            default: want = 0;
        }
        if (want == 0 || op.size() != want || (op[0] == 6 && op[1] < 0)) { reject(); continue; }
        Armed armed;
        switch (op[0]) {
            case 1: { auto sp = c.q->push((int)op[1]); ret = (bool)sp; break; }
            case 2: {
                long id = c.next_id++;
                plain[id] = std::make_unique<Slot<future<int>>>([&] { return c.q->pop(); });
                ret = id;
                break;
            }
            case 3: { auto sp = c.q->unblock_pop(exc(op[1])); ret = (bool)sp; break; }
            case 4: break;
            case 5: c.q.reset(); break;
            case 6: {
                consumers.push_back(std::make_unique<cb_consumer>(c, op[1]));
                ret = consumers.back()->start();
                break;
            }
        }
        for (auto &pr : plain) {
            auto st = read_state(pr.second->f);
            auto it = last.find(pr.first);
            if (it == last.end() || it->second != st) c.changed[pr.first] = st;
            last[pr.first] = st;
        }
        std::vector<long> o{0, ret, c.q ? (long)c.q->size() : 0, c.q ? (long)c.q->empty() : 1};
        for (auto &ch : c.changed) {
            o.push_back(ch.first);
            o.insert(o.end(), ch.second.begin(), ch.second.end());
        }
        c.changed.clear();
        vh::print_obs(o);
    }
    c.q.reset();
    plain.clear();
    consumers.clear();
}

// =============================== q2 ===============================
struct Gate {
    std::mutex m;
    std::condition_variable cv;
    bool open = false, arrived = false;
};
struct Tok {
    int v;
    Gate *g;
};
struct Item {
    int v;
    // constructed by promise<Item>::set_value (hand-over, outside the queue lock) or by _queue.emplace (under it)
    Item(Tok t) : v(t.v) {
        if (t.g) {
            std::unique_lock lk(t.g->m);
            t.g->arrived = true;
            t.g->cv.notify_all();
            t.g->cv.wait(lk, [&] { return t.g->open; });
        }
    }
    Item(Item &&) = default;
    Item &operator=(Item &&) = default;
    explicit operator long() const { return v; }
};
struct q2_open : queue<Item> {
    bool has_waiters() {
        std::lock_guard _(_mx);
        return !_awaiters.empty();
    }
};
struct Flight {
    Gate gate;
    std::thread th;
    bool result = false;
};

static void run_two_phase(const vh::Case &cs) {
    start_watchdog();
    auto q = std::make_unique<q2_open>();
    Table<future<Item>> tab;
    std::map<long, std::unique_ptr<Flight>> fl;
    auto finish = [&](long k) {
        auto &f = *fl[k];
        {
            std::lock_guard _(f.gate.m);
            f.gate.open = true;
        }
        f.gate.cv.notify_all();
        f.th.join();
        bool r = f.result;
        fl.erase(k);
        return r;
    };
    for (auto &op : cs.ops) {
        if (op.empty()) { reject(); continue; }
        long ret = 0;
        size_t want = 0;
        switch (op[0]) {
            case 1: case 3: case 8: want = 2; break;
            case 2: case 4: case 5: want = 1; break;
            case 7: want = 3; break;
            default: want = 0;
        }
        if (want == 0 || op.size() != want) { reject(); continue; }
        if (op[0] == 8) {
            if (!fl.count(op[1])) { reject(); continue; }
        } else if (!q) { reject(); continue; }
        if (op[0] == 7 && fl.count(op[1])) { reject(); continue; }
        Armed armed;
        switch (op[0]) {
            case 1: { auto sp = q->push(Tok{(int)op[1], nullptr}); ret = (bool)sp; break; }
            case 2: ret = tab.add([&] { return q->pop(); }); break;
            case 3: { auto sp = q->unblock_pop(exc(op[1])); ret = (bool)sp; break; }
            case 4: break;
            case 5: q.reset(); break;
            case 7: {
                if (!q->has_waiters()) {   // nobody to hand over to: the whole push is one critical section
                    auto sp = q->push(Tok{(int)op[2], nullptr});
                    ret = (bool)sp;
                } else {
                    auto f = std::make_unique<Flight>();
                    Flight *fp = f.get();
                    q2_open *qp = q.get();
                    int v = (int)op[2];
                    fp->th = std::thread([fp, qp, v] {
                        auto sp = qp->push(Tok{v, &fp->gate});
                        fp->result = (bool)sp;
                    });
                    {
                        std::unique_lock lk(fp->gate.m);
                        fp->gate.cv.wait(lk, [&] { return fp->gate.arrived; });
                    }
                    fl[op[1]] = std::move(f);
                    ret = 1;
                }
                break;
            }
            case 8: ret = finish(op[1]); break;
        }
        std::vector<long> o{0, ret, q ? (long)q->size() : 0, q ? (long)q->empty() : 1};
        tab.scan(o);
        vh::print_obs(o);
    }
    while (!fl.empty()) finish(fl.begin()->first);
    q.reset();
}

template <typename T, int Mode>
static void run_plain(const vh::Case &cs) {
    start_watchdog();
    auto q = std::make_unique<q_open<T>>();
    Table<future<T>> tab;
    std::map<long, std::shared_ptr<std::conditional_t<std::is_void_v<T>, int, T>>> lvalues;
    for (auto &op : cs.ops) {
        if (!q || op.empty()) { reject(); continue; }
        long ret = 0;
        constexpr bool is_void = std::is_void_v<T>;
        size_t want = 0;
        switch (op[0]) {
            case 1: want = is_void ? 1 : 2; break;
            case 2: case 4: case 5: want = 1; break;
            case 3: want = 2; break;
            default: want = 0;
        }
        if (want == 0 || op.size() != want) { reject(); continue; }
        if (Mode == 2 && op[0] == 1 && op[1] < 0 && q->has_waiters()) { reject(); continue; }
        Armed armed;
        switch (op[0]) {
            case 1: {
                if constexpr (is_void) { auto sp = q->push(); ret = (bool)sp; }
                else if constexpr (Mode == 1) {
                    auto &slot = lvalues[op[1]];
                    if (!slot) slot = std::make_shared<T>(make_item<T>(op[1]));
                    auto sp = q->push(*slot);
                    ret = (bool)sp;
                } else if constexpr (Mode == 2) {
                    try {
                        auto sp = q->push((long)op[1]);
                        ret = (bool)sp;
                    } catch (const ctor_exc &) {
                        ret = -1;
                    }
                } else { auto sp = q->push(make_item<T>(op[1])); ret = (bool)sp; }
                break;
            }
            case 2: ret = tab.add([&] { return q->pop(); }); break;
            case 3: { auto sp = q->unblock_pop(exc(op[1])); ret = (bool)sp; break; }
            case 4: break;
            case 5: q.reset(); break;
        }
        std::vector<long> o{0, ret, q ? (long)q->size() : 0, q ? (long)q->empty() : 1};
        tab.scan(o);
        vh::print_obs(o);
    }
    q.reset();   // parked promises are dropped here, so that no future is destroyed while pending
}

int main(int argc, char **argv) {
    if (argc < 2) return 2;
    for (auto &cs : vh::read_cases(argv[1])) {
        std::printf("CASE %s\n", cs.name.c_str());
        std::fflush(stdout);
        if (cs.engine == "q") run_plain<int, 0>(cs);
        else if (cs.engine == "qv") run_plain<void, 0>(cs);
        else if (cs.engine == "qm") run_plain<std::unique_ptr<int>, 0>(cs);
        else if (cs.engine == "qs") run_plain<MoveZero, 1>(cs);
        else if (cs.engine == "qx") run_plain<Thrower, 2>(cs);
        else if (cs.engine == "qc") run_coro(cs);
        else if (cs.engine == "lq") run_limited<int>(cs);
        else if (cs.engine == "lqm") run_limited<std::unique_ptr<int>>(cs);   // move-only items, pushed as rvalues
        else if (cs.engine == "lqs") run_limited<MoveZero>(cs);               // item whose move constructor zeroes the source
        else if (cs.engine == "lqv") run_limited<std::vector<int>>(cs);       // initializer-list type, pushed emplace-style (1, v)
        else if (cs.engine == "q2") run_two_phase(cs);
        else if (cs.engine == "qcb") run_callback(cs);
        std::printf("END\n");
        std::fflush(stdout);
    }
    return 0;
}
