// ctl_pub.cpp — controlled-schedule driver for cocls::publisher / cocls::subscriber (C16).   engine: pubt
//
// Real threads, exactly one runnable at a time (harness/ctl.h).  Thread 0 runs publisher program A, the last thread a
// second publisher program B on the same publisher; a subscriber may be re-entrant (after every value it receives it
// publishes / closes / kicks / destroys itself — for a coroutine resumed inside publish() that is nested in the waker's
// wake-up loop).  Thread i+1 drives subscriber i: style 0 blocking `bool(next())`, style 1 a coroutine doing `co_await next()` (started on thread i+1,
// resumed by whoever wakes it — the library resumes it on the waking thread), style 2 polling `next_ready()`.
// Scheduling points: every acquisition of the queue mutex — while publisher.h is compiled the name std::mutex is mapped
// to std::pub_mutex below, whose lock() hands the baton to the controller — and the guarded BLOCK hook in
// co_awaiter::sync() (a blocked thread is enabled once its wait would return).  Which locked step a critical section is
// comes from the guarded LOG hooks in queue::advance/advance_suspend/get_value; parked awaiters and wake-ups are read
// from the registration table at lock and unlock time.  No expected values in here.
#define VH_DEFINE_NEW
#include "ctl.h"
#include "pub_common.h"
#include <cocls/future.h>
#include <cocls/iterator.h>

namespace std {
class pub_mutex {
public:
    pub_mutex() = default;
    pub_mutex(const pub_mutex &) = delete;
    void lock();
    void unlock();
    bool try_lock() {
        lock();
        return true;
    }
    int owner = -2;   // -2 free
};
}  // namespace std

#define protected public
#define private public
#define mutex pub_mutex
#include <cocls/publisher.h>
#undef mutex
#undef protected
#undef private

using namespace cocls;
using pub_t = publisher<pint>;
using sub_t = subscriber<pint>;

namespace pt {

struct Rec {
    int tid = 0;
    int kind = 0;   // 0 advance, 1 advance_suspend, 2 get_value, 3 program op / action, 4 skipped program op, 5 setup
    long code = 200;   // kind 3: 200 / 203 op of program A / B, 205 action; kind 4: 202 / 204
    long arg = 0;   // subscriber id / program index
    long pos_after = 0;
    bool parked = false;
    long aw_id = 0;
    long st = 0, a = 0, b = 0, c = 0;
    std::vector<long> woken;
    bool has_ret = false;
    long ret = 0, val = 0;
};

struct G {
    pub_t::queue *q = nullptr;
    std::vector<Rec> recs;
    std::map<long, long> handle2sub;
    std::map<awaiter *, long> ptr2id;
    std::map<awaiter *, long> ptr2sub;
    std::vector<char> parked_coro;
    long next_aw = 0;
    // the critical section in progress
    int ev_kind = -1;
    long ev_handle = 0;
    std::vector<std::pair<size_t, awaiter *>> before;
    bool fatal_selflock = false;
    void reset() { *this = G(); }
};
static G g;
static thread_local bool t_pub_pending = false;   // the publisher's next critical section is the program op itself
static thread_local long t_pub_index = 0;
static thread_local long t_pub_code = 200;
static thread_local long t_pub_rec = -1;
static thread_local bool t_skip_yield = false;   // the thread has already yielded for its next lock acquisition

static std::vector<std::pair<size_t, awaiter *>> parked_now() {
    std::vector<std::pair<size_t, awaiter *>> v;
    for (size_t i = 0; i < g.q->_regs.size(); i++)
        if (g.q->_regs[i]._used && g.q->_regs[i]._awt) v.push_back({i, g.q->_regs[i]._awt});
    return v;
}

static void on_log(const char *id, long a, long) {
    int k = !std::strcmp(id, "pub_adv") ? 0 : !std::strcmp(id, "pub_sus") ? 1 : !std::strcmp(id, "pub_get") ? 2 : -1;
    if (k < 0) return;
    g.ev_kind = k;
    g.ev_handle = a;
}

static void print_lines();
[[noreturn]] static void abort_case(long code) {
    print_lines();
    vh::print_obs({code});
    std::printf("END\n");
    std::fflush(stdout);
    std::_Exit(42);
}

static void on_lock(std::pub_mutex *m) {
    int me = ctl::Controller::tid();
    if (me >= 0 && ctl::Controller::active()) {
        if (m->owner == me) abort_case(778);   // the thread already holds the queue mutex: a resumption under the lock
        if (t_skip_yield) t_skip_yield = false;
        else ctl::point("q_lock");
        g.ev_kind = -1;
        if (g.q) g.before = parked_now();
    }
    m->owner = me;
}

static void on_unlock(std::pub_mutex *m) {
    int me = ctl::Controller::tid();
    m->owner = -2;
    if (me < 0 || !ctl::Controller::active() || !g.q) return;
    if (g.ev_kind >= 0) {
        Rec r;
        r.tid = me;
        r.kind = g.ev_kind;
        auto it = g.handle2sub.find(g.ev_handle);
        r.arg = it == g.handle2sub.end() ? -1 : it->second;
        auto &reg = g.q->_regs[g.ev_handle];
        r.pos_after = (long)reg._pos;
        if (r.kind == 1) {
            r.aw_id = g.next_aw++;
            r.parked = reg._used && reg._awt != nullptr;
            if (r.parked) {
                g.ptr2id[reg._awt] = r.aw_id;
                g.ptr2sub[reg._awt] = r.arg;
                if (r.arg >= 0 && (size_t)r.arg < g.parked_coro.size()) g.parked_coro[r.arg] = 1;
            }
        }
        g.recs.push_back(r);
        g.ev_kind = -1;
    } else if (t_pub_pending) {
        t_pub_pending = false;
        Rec r;
        r.tid = me;
        r.kind = 3;
        r.code = t_pub_code;
        r.arg = t_pub_index;
        // woken = registered before, and the registration no longer holds it (a slot that was merely released by
        // ~subscriber keeps its awaiter and is not a wake-up)
        for (auto &pr : g.before) {
            awaiter *a = pr.second;
            if (pr.first < g.q->_regs.size() && g.q->_regs[pr.first]._awt != a) {
                auto it = g.ptr2id.find(a);
                r.woken.push_back(it == g.ptr2id.end() ? -1 : it->second);
                auto is = g.ptr2sub.find(a);
                if (is != g.ptr2sub.end() && is->second >= 0 && (size_t)is->second < g.parked_coro.size())
                    g.parked_coro[is->second] = 0;
                g.ptr2id.erase(a);
            }
        }
        t_pub_rec = (long)g.recs.size();
        g.recs.push_back(r);
    }
    // otherwise: push_lk's second acquisition (swap of the wake-up buffer): no step
}

static void ret_event(long sub, bool ret, long val, bool force) {
    for (size_t i = g.recs.size(); i-- > 0;) {
        Rec &r = g.recs[i];
        if (r.arg == sub && (r.kind == 0 || r.kind == 1 || r.kind == 2)) {
            if (r.kind == 2 && !r.has_ret) {
                r.has_ret = true;
                r.ret = ret;
                r.val = val;
                return;
            }
            break;
        }
    }
    if (!force) return;
    Rec r;   // the call returned a result without a get_value step
    r.tid = ctl::Controller::tid();
    r.kind = 2;
    r.arg = sub;
    r.has_ret = true;
    r.ret = ret;
    r.val = val;
    g.recs.push_back(r);
}

static void print_lines() {
    for (size_t i = 0; i < g.recs.size(); i++) {
        Rec &r = g.recs[i];
        switch (r.kind) {
            case 5: vh::print_obs({0, 201, r.arg, 0, r.a, r.b, 0}); break;
            case 4: vh::print_obs({(long)r.tid, r.code, r.arg, 1, 0, 0, 0}); break;
            case 3: {
                std::vector<long> v{(long)r.tid, r.code, r.arg, r.st, r.a, r.b, r.c};
                for (long w : r.woken) v.push_back(w);
                vh::print_obs(v);
                break;
            }
            case 0: {
                long res = 0;
                for (size_t k = i + 1; k < g.recs.size(); k++)
                    if (g.recs[k].arg == r.arg && g.recs[k].kind <= 2) {
                        res = g.recs[k].kind == 2;
                        break;
                    }
                vh::print_obs({(long)r.tid, 5, r.arg, 0, res, r.pos_after, 0});
                break;
            }
            case 1: vh::print_obs({(long)r.tid, 6, r.arg, 0, r.parked, r.pos_after, r.aw_id}); break;
            case 2: vh::print_obs({(long)r.tid, 7, r.arg, 0, r.ret, r.ret ? r.val : 0, r.pos_after}); break;
        }
    }
}

}  // namespace pt

void std::pub_mutex::lock() { pt::on_lock(this); }
void std::pub_mutex::unlock() { pt::on_unlock(this); }

// ---- a minimal coroutine type for the awaiting style ----
struct fire {
    struct promise_type {
        fire get_return_object() { return fire{std::coroutine_handle<promise_type>::from_promise(*this)}; }
        std::suspend_always initial_suspend() noexcept { return {}; }
        std::suspend_always final_suspend() noexcept { return {}; }
        void return_void() {}
        void unhandled_exception() { std::terminate(); }
    };
    std::coroutine_handle<promise_type> h;
};

struct SubSpec {
    long mode, style, cnt, act;
};

static bool small(long s) { return s >= 0 && s < 1000000; }
static subscribtion_type mode_of(long t) {
    return t == 1 ? subscribtion_type::skip_if_behind : t == 2 ? subscribtion_type::skip_to_recent
                                                               : subscribtion_type::all_values;
}

struct Obj {
    std::unique_ptr<unsigned char[]> mem;
    sub_t *p = nullptr;
    bool live = false;
};

// everything the threads of one case share (one thread runs at a time)
struct World {
    std::optional<pub_t> pub;
    std::shared_ptr<pub_t::queue> q;
    std::map<long, Obj> objs;
    std::vector<SubSpec> specs;
    std::vector<std::coroutine_handle<>> coros;
    long nsubs = 0;

    Obj *find(long s) {
        auto it = objs.find(s);
        return it == objs.end() ? nullptr : &it->second;
    }
    void *fresh(long s) {
        Obj &x = objs[s];
        x.mem.reset(new unsigned char[sizeof(sub_t) + alignof(sub_t)]);
        void *p = x.mem.get();
        std::size_t sp = sizeof(sub_t) + alignof(sub_t);
        return std::align(alignof(sub_t), sizeof(sub_t), p, sp);
    }

    // one publisher-side op: a line of program A / B (code 200 / 203, skipped: 202 / 204) or the action of a re-entrant
    // subscriber (code 205).  Which ops are executed follows PubThreadDefs.pub_tag; ops the model rejects only yield.
    void exec_op(long code, long skip_code, long index, const std::vector<long> &op, bool action) {
        const size_t n = op.size();
        const int tid = ctl::Controller::tid();
        int what = -1;   // -1 skip
        if (n == 2 && op[0] == 0) what = 0;
        else if (n >= 1 && op[0] == 1) what = 1;
        else if (n == 1 && op[0] == 10) what = 10;
        else if (n == 1 && op[0] == 12) what = 12;
        else if (n == 2 && op[0] == 8 && small(op[1])) what = 8;
        else if (n == 3 && op[0] == 4 && small(op[1]) && small(op[2]) && op[1] >= nsubs) what = 4;
        else if (n == 2 && op[0] == 9 && small(op[1]) && (op[1] >= nsubs || action)) what = 9;
        // what the op does (is the publisher still there, is the coroutine parked, ...) is decided when the step is
        // scheduled, not when the thread arrives at it: yield first, the lock acquisition of the op then does not yield again
        ctl::point("step");
        const bool yielded = true;
        if (!action && n == 2 && op[0] == 9 && small(op[1]) && op[1] < nsubs) {
            if (specs[op[1]].style == 1 && pt::g.parked_coro[op[1]]) what = 9;
        }
        if (what < 0) {
            if (!yielded) ctl::point("step");
            pt::Rec r;
            r.tid = tid;
            r.kind = 4;
            r.code = skip_code;
            r.arg = index;
            pt::g.recs.push_back(r);
            return;
        }
        bool rejected = false;
        if (what == 0 || what == 1 || what == 10 || what == 12) rejected = !pub;
        else if (what == 8) {
            Obj *x = find(op[1]);
            rejected = !x || (!pub && !x->live);
        } else if (what == 4) {
            Obj *src = find(op[2]);
            rejected = find(op[1]) || !src || !src->live;
        } else if (what == 9) {
            Obj *x = find(op[1]);
            rejected = !x || !x->live;
        }
        if (rejected) {
            if (!yielded) ctl::point("step");
            pt::Rec r;
            r.tid = tid;
            r.kind = 3;
            r.code = code;
            r.arg = index;
            r.st = 1;
            pt::g.recs.push_back(r);
            return;
        }
        pt::t_skip_yield = yielded;
        pt::t_pub_pending = true;
        pt::t_pub_index = index;
        pt::t_pub_code = code;
        pt::t_pub_rec = -1;
        switch (what) {
            case 0:
                if (op[1] & 1) pub->publish(pint((int)op[1]));
                else { const pint v((int)op[1]); pub->publish(v); }
                break;
            case 1: {
                std::vector<pint> vs;
                for (size_t i = 1; i < n; i++) vs.push_back(pint((int)op[i]));
                pub->publish(vs.begin(), vs.end());
                break;
            }
            case 10: pub->close(); break;
            case 12: pub.reset(); break;
            case 8: {
                Obj *x = find(op[1]);
                if (pub) pub->kick(x->p);
                else x->p->kick_me();
                break;
            }
            case 4: {
                Obj *src = find(op[2]);
                void *mem = fresh(op[1]);
                Obj &x = objs[op[1]];
                long rec = -1;
                x.p = new (mem) sub_t(*src->p);
                rec = pt::t_pub_rec;
                x.live = true;
                pt::g.handle2sub[(long)x.p->_h] = op[1];
                if (rec >= 0) {
                    pt::g.recs[rec].a = (long)x.p->_h;
                    pt::g.recs[rec].b = (long)q->_regs[x.p->_h]._pos;
                }
                break;
            }
            case 9: {
                Obj *x = find(op[1]);
                if (!action && op[1] < nsubs && coros[op[1]]) {   // the parked coroutine goes away with its subscriber
                    coros[op[1]].destroy();
                    coros[op[1]] = nullptr;
                    pt::g.parked_coro[op[1]] = 0;
                }
                x->p->~sub_t();
                x->live = false;
                break;
            }
        }
        pt::t_pub_pending = false;
        pt::t_skip_yield = false;
    }

    // the action of re-entrant subscriber i (PubThreadDefs.act_op); returns true if the subscriber destroyed itself
    bool act(long i) {
        long a = specs[i].act;
        std::vector<long> op;
        if (a == 1) op = {0, 9000 + i};
        else if (a == 2) op = {10};
        else if (a == 3) op = {8, (i + 1) % nsubs};
        else if (a == 4) op = {8, i};
        else if (a == 5) op = {9, i};
        exec_op(205, 205, i, op, true);
        return a == 5;
    }
};

static fire awaiting_loop(World *w, long i, sub_t *s, long cnt) {
    for (long k = 0; k < cnt; k++) {
        bool r = co_await s->next();
        pt::ret_event(i, r, r ? (long)(int)s->value() : 0, true);
        if (!r) break;
        if (w->specs[i].act && w->act(i)) break;
    }
}

static void run_case(const vh::Case &cs) {
    // ---- parse (the same acceptance rules as PubThreadDefs.parse_case) ----
    bool ok = cs.ops.size() >= 3 && cs.ops[0].size() == 2 && !cs.ops[1].empty() && cs.ops[1][0] == 100 &&
              (cs.ops[1].size() - 1) % 4 == 0 && !cs.ops.back().empty() && cs.ops.back()[0] == 102;
    long mn = 0, mx = 0;
    World w;
    if (ok) {
        mn = cs.ops[0][0];
        mx = cs.ops[0][1];
        ok = mn >= 1 && (mx == 0 || mx >= mn);
        for (size_t k = 1; ok && k + 3 < cs.ops[1].size(); k += 4) {
            SubSpec s{cs.ops[1][k], cs.ops[1][k + 1], cs.ops[1][k + 2], cs.ops[1][k + 3]};
            if (s.mode < 0 || s.mode > 2 || s.style < 0 || s.style > 2 || s.cnt < 0 || s.cnt >= 1000 || s.act < 0 || s.act > 5)
                ok = false;
            w.specs.push_back(s);
        }
        if (w.specs.size() > 3) ok = false;
    }
    if (!ok) {
        vh::print_obs({1, 0, 0, 0});
        return;
    }
    std::vector<std::vector<long>> progA, progB;
    for (size_t k = 2; k + 1 < cs.ops.size(); k++) {
        const auto &l = cs.ops[k];
        if (!l.empty() && l[0] == 103) progB.emplace_back(l.begin() + 1, l.end());
        else progA.push_back(l);
    }
    std::vector<long> sched(cs.ops.back().begin() + 1, cs.ops.back().end());
    const long nsubs = (long)w.specs.size();
    w.nsubs = nsubs;

    pt::g.reset();
    if (mn == 1 && mx == 0) w.pub.emplace();
    else w.pub.emplace(mx == 0 ? std::numeric_limits<std::size_t>::max() : (std::size_t)mx, (std::size_t)mn);
    w.q = w.pub->get_queue();
    pt::g.q = w.q.get();
    pt::g.parked_coro.assign(nsubs, 0);
    vh::print_obs({0, mn, mx, 0});

    // ---- setup (uncontrolled, on the main thread) ----
    for (long i = 0; i < nsubs; i++) {
        void *mem = w.fresh(i);
        Obj &x = w.objs[i];
        x.p = new (mem) sub_t(*w.pub, mode_of(w.specs[i].mode));
        x.live = true;
        pt::g.handle2sub[(long)x.p->_h] = i;
        pt::Rec r;
        r.kind = 5;
        r.arg = i;
        r.a = (long)x.p->_h;
        r.b = (long)w.q->_regs[x.p->_h]._pos;
        pt::g.recs.push_back(r);
    }
    w.coros.assign(nsubs, nullptr);
    for (long i = 0; i < nsubs; i++)
        if (w.specs[i].style == 1 && w.specs[i].cnt > 0) w.coros[i] = awaiting_loop(&w, i, w.objs[i].p, w.specs[i].cnt).h;

    // ---- thread bodies ----
    std::vector<std::function<void()>> fns;
    fns.push_back([&] {
        for (size_t j = 0; j < progA.size(); j++) w.exec_op(200, 202, (long)j, progA[j], false);
    });
    for (long i = 0; i < nsubs; i++) {
        fns.push_back([&, i] {
            sub_t *s = w.objs[i].p;
            const SubSpec &sp = w.specs[i];
            if (sp.style == 0) {
                for (long k = 0; k < sp.cnt; k++) {
                    bool r = (k % 2 == 0) ? (bool)s->next() : (s->begin() != s->end());
                    pt::ret_event(i, r, r ? (s->_val.has_value() ? (long)(int)*s->_val : -1) : 0, true);
                    if (!r) break;
                    if (sp.act && w.act(i)) break;
                }
            } else if (sp.style == 1) {
                // started the way cocls starts its coroutines: under the thread's coro_queue
                if (w.coros[i]) coro_queue::install_queue_and_resume(w.coros[i]);
            } else {
                for (long k = 0; k < sp.cnt; k++) {
                    bool r = s->next_ready();
                    pt::ret_event(i, r, r ? (long)(int)s->value() : 0, false);
                    if (r && sp.act && w.act(i)) break;
                }
            }
        });
    }
    fns.push_back([&] {
        for (size_t j = 0; j < progB.size(); j++) w.exec_op(203, 204, (long)j, progB[j], false);
    });
    ctl::Controller c;
    c.run(std::move(fns), sched);
    pt::print_lines();
    if (c.deadlock) {
        std::vector<long> v{777};
        for (int s : c.stuck) v.push_back(s);
        vh::print_obs(v);
        std::printf("END\n");
        std::fflush(stdout);
        std::_Exit(42);
    }
    // ---- cleanup (uncontrolled) ----
    pt::g.q = nullptr;
    for (auto &h : w.coros)
        if (h) h.destroy();
    for (auto &kv : w.objs)
        if (kv.second.live) kv.second.p->~sub_t();
    w.pub.reset();
}

int main(int argc, char **argv) {
    if (argc < 2) return 2;
    cocls::verif::get_hooks().log = &pt::on_log;
    for (auto &cs : vh::read_cases(argv[1])) {
        std::printf("CASE %s\n", cs.name.c_str());
        std::fflush(stdout);
        run_case(cs);
        std::printf("END\n");
        std::fflush(stdout);
    }
    return 0;
}
