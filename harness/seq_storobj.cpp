// seq_storobj.cpp — storage OBJECTS as values (C19): several reusable_storage objects that are move-constructed,
// move-assigned, reused after having been moved from, and destroyed (engine so_reu); several stack_storage objects sharing one
// learned-size state, each reserved once (area of exactly (size_t)storage bytes, so that ASan sees an overrun) and used for
// more than one coroutine call (engine so_stk).
// ops: 0 a  initial shared state | 4 j  new object j | 1 slot j class sz  create on object j | 2 slot  finish
//      5 j i  j = std::move(i) | 6 j i  construct j from std::move(i) | 7 j  destroy object j
#include "storage_common.h"

using namespace cocls;
using sh::spy;
using sh::top;

struct Slot {
    bool live = false;
    std::coroutine_handle<> h;
    char *ptr = nullptr;
    std::size_t n = 0;
    long ok = -1;
    int obj = -1;
};

struct counted {
    counted() { vh::t_count = true; }
    ~counted() { vh::t_count = false; }
};
static void reject() { vh::print_obs({1}); }

using RS = top<spy<reusable_storage>>;
using SS = top<spy<stack_storage>>;

struct Env {
    bool stk;
    std::size_t state = 0;
    std::optional<RS> robj[8];
    SS *sobj[8] = {};
    void *area[8] = {};
    Slot slots[64];
    bool has(long j) const { return j >= 0 && j < 8 && (stk ? sobj[j] != nullptr : robj[j].has_value()); }
    bool used(long j) const {
        for (auto &s : slots)
            if (s.live && s.obj == j) return true;
        return false;
    }
    bool any() const {
        for (int j = 0; j < 8; j++)
            if (has(j)) return true;
        for (auto &s : slots)
            if (s.live) return true;
        return false;
    }
};

static void drop_area(void *a) {
    for (auto it = sh::g_areas.begin(); it != sh::g_areas.end(); ++it)
        if (it->base == a) {
            sh::g_areas.erase(it);
            break;
        }
    std::free(a);
}

static void run_case(const vh::Case &cs) {
    Env *ep = new Env();
    Env &e = *ep;
    e.stk = cs.engine == "so_stk";
    for (auto &op : cs.ops) {
        if (op.empty()) { reject(); continue; }
        long c = op[0];
        if (c == 0 && op.size() == 2) {
            if (op[1] < 0 || e.any()) { reject(); continue; }
            e.state = (std::size_t)op[1];
            vh::print_obs({0, 0, 0});
        } else if (c == 4 && op.size() == 2) {
            long j = op[1];
            if (j < 0 || j >= 8 || e.has(j)) { reject(); continue; }
            sh::tl_mark m;
            if (e.stk) {
                e.sobj[j] = new SS(e.state);                       // stack_storage storage(state);
                std::size_t asz = static_cast<std::size_t>(*e.sobj[j]);
                e.area[j] = std::malloc(asz ? asz : 1);            // storage = alloca(storage);  (exact size: an overrun is an ASan report)
                if (!asz) { std::free(e.area[j]); e.area[j] = std::malloc(0 + 1); }
                sh::g_areas.push_back({static_cast<char *>(e.area[j]), asz});
                *e.sobj[j] = e.area[j];
            } else {
                counted c_;
                e.robj[j].emplace();
            }
            vh::print_obs({0, m.news(), m.dels()});
        } else if (c == 1 && op.size() == 5) {
            long slot = op[1], j = op[2], k = op[3], sz = op[4];
            if (slot < 0 || j < 0 || slot >= 64 || sz <= 0 || e.slots[slot].live || !e.has(j) || e.used(j)) { reject(); continue; }
            if (k < 0 || k >= sh::n_classes || (long)sh::class_size((int)k) != sz) sh::size_mismatch((int)k, sz, sh::class_size((int)k));
            Slot &s = e.slots[slot];
            sh::tl_mark m;
            long ser = sh::g_reg.mark();
            s.ok = -1;
            {
                counted c_;
                if (e.stk) s.h = sh::start(*e.sobj[j], (int)k, &s.ok, (unsigned char)(slot * 29 + 3));
                else s.h = sh::start(*e.robj[j], (int)k, &s.ok, (unsigned char)(slot * 29 + 3));
            }
            s.ptr = static_cast<char *>(sh::tl_top_ptr);
            if ((long)sh::tl_top_sz != sz) sh::size_mismatch((int)k, sz, sh::tl_top_sz);
            s.n = sh::tl_top_sz;
            s.obj = (int)j;
            sh::Block b = sh::block_of(s.ptr);
            long room = b.found ? (long)((b.base + b.size) - s.ptr) : -1;
            long fresh = b.found && b.heap && b.serial > ser;
            long ovl = 0;
            for (auto &o : e.slots)
                if (o.live && s.ptr < o.ptr + o.n && o.ptr < s.ptr + s.n) ovl++;
            s.live = true;
            vh::print_obs({0, m.news(), m.dels(), fresh, room, ovl});
        } else if (c == 2 && op.size() == 2) {
            long slot = op[1];
            if (slot < 0 || slot >= 64 || !e.slots[slot].live) { reject(); continue; }
            Slot &s = e.slots[slot];
            sh::Block b = sh::block_of(s.ptr);
            sh::tl_mark m;
            sh::tl_top_dsz = 0;
            {
                counted c_;
                s.h.resume();
                s.h.destroy();
            }
            long rel = b.found && b.heap && !sh::g_reg.has(b.base, b.serial);
            s.live = false;
            vh::print_obs({0, m.news(), m.dels(), rel, s.ok, (long)sh::tl_top_dsz});
        } else if (c == 5 && op.size() == 3) {
            long j = op[1], i = op[2];
            if (e.stk || j < 0 || i < 0 || j == i || !e.has(j) || !e.has(i) || e.used(j) || e.used(i)) { reject(); continue; }
            sh::tl_mark m;
            {
                counted c_;
                static_cast<reusable_storage &>(*e.robj[j]) = std::move(static_cast<reusable_storage &>(*e.robj[i]));
            }
            vh::print_obs({0, m.news(), m.dels()});
        } else if (c == 6 && op.size() == 3) {
            long j = op[1], i = op[2];
            if (e.stk || j < 0 || i < 0 || j >= 8 || e.has(j) || !e.has(i) || e.used(i)) { reject(); continue; }
            sh::tl_mark m;
            {
                counted c_;
                e.robj[j].emplace(std::move(*e.robj[i]));
            }
            vh::print_obs({0, m.news(), m.dels()});
        } else if (c == 7 && op.size() == 2) {
            long j = op[1];
            if (j < 0 || !e.has(j) || e.used(j)) { reject(); continue; }
            sh::tl_mark m;
            if (e.stk) {
                delete e.sobj[j];
                e.sobj[j] = nullptr;
                drop_area(e.area[j]);
                e.area[j] = nullptr;
            } else {
                counted c_;
                e.robj[j].reset();
            }
            vh::print_obs({0, m.news(), m.dels()});
        } else reject();
    }
    // leftovers of an unclosed case (not measured)
    for (auto &s : e.slots)
        if (s.live) {
            s.h.resume();
            s.h.destroy();
        }
    for (int j = 0; j < 8; j++) {
        if (e.sobj[j]) { delete e.sobj[j]; drop_area(e.area[j]); }
        e.robj[j].reset();
    }
    sh::g_areas.clear();
    delete ep;
}

int main(int argc, char **argv) {
    if (argc < 2) return 2;
    vh::t_count = false;
    sh::g_areas.reserve(256);
    for (int k = 0; k < sh::n_classes; k++) sh::class_size(k);
    for (auto &cs : vh::read_cases(argv[1])) {
        std::printf("CASE %s\n", cs.name.c_str());
        std::fflush(stdout);
        run_case(cs);
        std::printf("END\n");
        std::fflush(stdout);
    }
    return 0;
}
