// vm_gen.cpp — scripted-generator driver for cocls::generator (C13).
// engines: gen0 = generator<int>, gen1 = generator<int,int> (argument passed with every access).
// The generator body is a real coroutine interpreting the script of op 0; the consumer side is a
// sequence of accesses in freely mixed styles. No expected values live here: every op prints what happened.
//
// ops:  0 k1 a1 k2 a2 ...   create the generator; body script = (kind, operand) pairs:
//                           1 Yield v | 2 AwaitReady v | 3 AwaitPending k | 4 Throw e | 5 Return | 6 Guard x |
//                           7 Unguard | 8 YieldNull (gen1) | 9 YieldEcho (gen1: yields the last argument received)
//       1 style arg         one access: 0 next()->bool + value()   1 iterator begin / ++ , != end(), *
//                           2 call -> future, has_value() / *f (blocking)   3 co_await next() + value()
//                           4 call -> future, co_await has_value(), *f      5 next() converted to bool twice + value()
//       2 k v thr           complete the pending await k of the body with v (thr=1: on a fresh thread)
//       3                   destroy the generator
//       4                   value() again without advancing (+ done() / operator bool)
// observation: st kind val done news dels ev...   st 0 ok / 1 rejected
//   kind 0 none, 1 Val, 2 Exc, 3 End (false / no value), 4 End (no_more_values_exception), 5 Pending (access still
//   outstanding), 6 value_not_ready_exception;  ev = (code, x) pairs: 1 Ctor, 2 Dtor, 3 ArgReceived, 4 AwaitResult
#define VH_DEFINE_NEW
#include "common.h"
#define protected public
#define private public
#include <cocls/generator.h>
#include <cocls/future.h>
#include <cocls/with_allocator.h>
#include <cocls/coro_storage.h>
#undef protected
#undef private

using namespace cocls;

#include "gen_script.h"

template <typename C>
static void emit(C &c, long st, Result r, const vh::alloc_mark &m) {
    long done = c.gen ? (c.gen->done() ? 1 : 0) : 2;
    if (c.gen && !c.outstanding && (bool)*c.gen == c.gen->done()) done = 9;  // operator bool must be !done()
    std::vector<long> v{st, r.kind, r.val, done, m.news(), m.dels(), c.cnt_report};
    c.cnt_report = 0;
    for (int i = 0; i < c.sink->nev; i++) v.push_back(c.sink->ev[i]);
    c.sink->nev = 0;
    vh::print_obs(v);
}
template <typename C>
static void reject(C &c) {
    c.sink->nev = 0;
    vh::print_obs({1, 0, 0, 0, 0, 0, 0});
}

template <typename C>
static void finish_access(C &c, bool settled, const vh::alloc_mark &m) {
    if (settled && c.res_ready) {
        c.outstanding = false;
        c.res_ready = false;
        emit(c, 0, c.res, m);
    } else {
        c.outstanding = true;
        Result r;
        r.kind = K_PEND;
        emit(c, 0, r, m);
    }
}

template <bool A, typename V = int>
static void run_case(const vh::Case &cs, Worker &w, bool storage = false) {
    reusable_storage stor;   // engine gens: the frame lives here (must outlive the generator)
    Ctx<A, V> c;
    for (auto &op : cs.ops) {
        Watchdog::inst().tick();
        if (op.empty()) { reject(c); continue; }
        switch (op[0]) {
            case 0: {
                if (c.created || (op.size() % 2) != 1) { reject(c); break; }
                c.created = true;
                c.script.assign(op.begin() + 1, op.end());
                vh::alloc_mark m;
                if constexpr (!std::is_same_v<V, int>) {
                    vh::alloc_mark m2;
                    c.gen.emplace(bodyt(&c, c.script.data(), (int)c.script.size()));
                    emit(c, 0, Result{}, m2);
                    break;
                } else if constexpr (!A) {
                    if (storage) {
                        {   // warm-up: a first generator sizes the storage, so the measured one must reuse it
                            vh::t_count = false;
                            generator<int> warm(body0s(stor, &c, c.script.data(), (int)c.script.size()));
                            vh::t_count = true;
                        }
                        vh::alloc_mark m2;
                        c.gen.emplace(body0s(stor, &c, c.script.data(), (int)c.script.size()));
                        emit(c, 0, Result{}, m2);
                        break;
                    }
                }
                if constexpr (std::is_same_v<V, int>) c.gen.emplace(body<A>(&c, c.script.data(), (int)c.script.size()));
                emit(c, 0, Result{}, m);
                break;
            }
            case 1: {
                // styles 10..16 = styles 0..6 executed from inside a running coroutine (resumption queue active)
                bool in_coro = op.size() == 3 && op[1] >= 10 && op[1] <= 16;
                long base = op.size() == 3 ? (in_coro ? op[1] - 10 : op[1]) : -1;
                if (op.size() != 3 || !c.gen || c.outstanding || base < 0 || base > 6 || (A && base == 1)) { reject(c); break; }
                int style = (int)base;
                c.argv = (int)op[2];
                c.res_ready = false;
                vh::alloc_mark m;
                if (style == 6) {
                    c.on_thread = false;
                    if (in_coro) coro_queue::install_queue_and_call([&] { c.sub_access(); });
                    else c.sub_access();
                    finish_access(c, true, m);
                } else if (style == 3 || style == 4) {
                    c.on_thread = false;
                    if (in_coro) coro_queue::install_queue_and_call([&] { c.async_access(style); });
                    else c.async_access(style);
                    finish_access(c, true, m);
                } else {
                    c.on_thread = true;
                    bool settled = in_coro
                        ? w.run([&] { coro_queue::install_queue_and_call([&] { c.sync_access_in_coro(style); }); })
                        : w.run([&] { c.sync_access(style); });
                    finish_access(c, settled, m);
                }
                break;
            }
            case 2: {
                if (op.size() != 4 || !c.gen || !c.outstanding || !c.prom || c.pend_k != op[1]) { reject(c); break; }
                vh::alloc_mark m;
                int v = (int)op[2];
                promise<int> p = std::move(c.prom);
                c.pend_k = -1;
                if (op[3] == 1) {
                    vh::t_count = false;   // the std::thread's own bookkeeping is not part of the measurement
                    std::thread t([&] {
                        vh::t_count = false;
                        coro_queue::install_queue_and_call([] {});   // per-thread ready-queue warm-up (libstdc++ deque), not measured
                        vh::t_count = true;
                        p(v);
                        vh::t_count = false;
                    });
                    t.join();
                    vh::t_count = true;
                } else {
                    p(v);
                }
                bool settled = true;
                if (c.on_thread) settled = w.recheck();
                c.sub_poll();
                finish_access(c, settled, m);
                break;
            }
            case 3: {
                if (op.size() != 1 || !c.gen || c.outstanding) { reject(c); break; }
                vh::alloc_mark m;
                c.it.reset();
                c.gen.reset();
                emit(c, 0, Result{}, m);
                break;
            }
            case 4: {
                if (op.size() != 1 || !c.gen || c.outstanding) { reject(c); break; }
                vh::alloc_mark m;
                Result r = c.read_value();
                emit(c, 0, r, m);
                break;
            }
            default: reject(c); break;
        }
    }
    if (c.outstanding) {
        // a case must not end with a blocked consumer: release the body with value 0 until the access completes
        for (int guard = 0; guard < 64 && c.outstanding && c.prom; guard++) {
            promise<int> p = std::move(c.prom);
            p(0);
            bool settled = true;
            if (c.on_thread) settled = w.recheck();
            c.sub_poll();
            if (settled && c.res_ready) c.outstanding = false;
        }
        if (c.outstanding) {
            // the blocked consumer can never be released: finish the case output and ask for a fresh process
            std::printf("END\n");
            std::fflush(stdout);
            std::_Exit(42);
        }
    }
}

int main(int argc, char **argv) {
    if (argc < 2) return 2;
    coro_queue::install_queue_and_call([] {});
    Watchdog::inst().start();
    Worker w;
    Worker::inst() = &w;
    cocls::verif::get_hooks().block = &Worker::hook_block;
    w.start();
    w.run([] { coro_queue::install_queue_and_call([] {}); });
    {   // probe: does generator::next_sync report through the block hook?
        CtxBase pc;
        static const long probe_script[] = {3, 1, 1, 1};
        std::optional<generator<int>> g;
        g.emplace(body0(&pc, probe_script, 4));
        w.hook_present = false;
        w.hooked = false;
        {
            std::unique_lock lk(w.mx);
            w.job = [&] { bool b = g->next(); (void)b; };
            w.has_job = true;
            w.done = false;
            w.blocked = false;
            w.cv.notify_all();
            w.cv.wait_for(lk, std::chrono::seconds(5), [&] { return w.done || w.blocked; });
        }
        bool seen = w.hooked;
        promise<int> p = std::move(pc.prom);
        p(0);
        {
            std::unique_lock lk(w.mx);
            w.poke = true;
            w.cv.notify_all();
            w.cv.wait(lk, [&] { return w.done; });
        }
        g.reset();
        w.hook_present = seen;
    }
    for (auto &cs : vh::read_cases(argv[1])) {
        Watchdog::inst().tick();
        std::printf("CASE %s\n", cs.name.c_str());
        std::fflush(stdout);
        if (cs.engine == "gen1") run_case<true>(cs, w);
        else if (cs.engine == "gens") run_case<false>(cs, w, true);
        else if (cs.engine == "gent") run_case<false, MV>(cs, w);
        else run_case<false>(cs, w);
        std::printf("END\n");
        std::fflush(stdout);
    }
    Watchdog::inst().tick();
    w.stop();
    Watchdog::inst().finish();
    return 0;
}
