// vm_gen.cpp — scripted-generator driver for cocls::generator (C13).
// engines: gen0 = generator<int>, gen1 = generator<int,int> (argument passed with every access).
// The generator body is a real coroutine interpreting the script of op 0; the consumer side is a
// sequence of accesses in freely mixed styles. No expected values live here: every op prints what happened.
//
// ops:  0 k1 a1 k2 a2 ...   create the generator; body script = (kind, operand) pairs:
//                           1 Yield v | 2 AwaitReady v | 3 AwaitPending k | 4 Throw e | 5 Return | 6 Guard x |
//                           7 Unguard | 8 YieldNull (gen1) | 9 YieldEcho (gen1: yields the last argument received)
//       1 style arg         one access: 0 next()->bool + value()   1 iterator begin / ++ , != end(), *
//                           2 call -> future, has_value() / *f (blocking)   3 co_await next() + value()
//                           4 call -> future, co_await has_value(), *f      5 next() converted to bool twice + value()
//       2 k v thr           complete the pending await k of the body with v (thr=1: on a fresh thread)
//       3                   destroy the generator
//       4                   value() again without advancing (+ done() / operator bool)
// observation: st kind val done news dels ev...   st 0 ok / 1 rejected
//   kind 0 none, 1 Val, 2 Exc, 3 End (false / no value), 4 End (no_more_values_exception), 5 Pending (access still
//   outstanding), 6 value_not_ready_exception;  ev = (code, x) pairs: 1 Ctor, 2 Dtor, 3 ArgReceived, 4 AwaitResult
#define VH_DEFINE_NEW
#include "common.h"
#define protected public
#define private public
#include <cocls/generator.h>
#include <cocls/future.h>
#undef protected
#undef private

using namespace cocls;

struct TestExc {
    int code;
};

enum { K_NONE = 0, K_VAL = 1, K_EXC = 2, K_ENDF = 3, K_ENDT = 4, K_PEND = 5, K_NREADY = 6 };

struct Result {
    long kind = K_NONE, val = 0;
};

// ---- consumer thread: synchronous accesses run here so that a blocking wait can be observed ----
struct Worker {
    std::mutex mx;
    std::condition_variable cv;
    std::thread th;
    std::function<void()> job;
    bool has_job = false, done = false, blocked = false, poke = false, quit = false;
    bool hooked = false;  // the block hook reported (otherwise a timeout decides that the thread is blocked)
    static Worker *&inst() {
        static Worker *w = nullptr;
        return w;
    }
    static thread_local bool on_worker;

    void start() {
        th = std::thread([this] {
            on_worker = true;
            std::unique_lock lk(mx);
            for (;;) {
                cv.wait(lk, [&] { return has_job || quit; });
                if (quit) return;
                has_job = false;
                auto j = std::move(job);
                lk.unlock();
                j();
                lk.lock();
                done = true;
                blocked = false;
                cv.notify_all();
            }
        });
    }
    void stop() {
        {
            std::unique_lock lk(mx);
            quit = true;
            cv.notify_all();
        }
        th.join();
    }
    // library hook: called on the thread that is about to block
    static void hook_block(const char *, bool (*pred)(void *), void *ctx) {
        Worker *w = inst();
        if (!w || !on_worker) return;
        bool saved = vh::t_count;
        vh::t_count = false;
        {
            std::unique_lock lk(w->mx);
            while (!pred(ctx)) {
                w->blocked = true;
                w->hooked = true;
                w->poke = false;
                w->cv.notify_all();
                w->cv.wait(lk, [&] { return w->poke; });
            }
            w->blocked = false;
        }
        vh::t_count = saved;
    }
    // returns true when the job finished, false when the thread is blocked
    bool hook_present = true;   // decided once by the probe at start-up
    bool wait_settled(std::unique_lock<std::mutex> &lk) {
        if (hook_present) {
            cv.wait(lk, [&] { return done || blocked; });
            return done;
        }
        // library without the gen_block hook (hooks/gen.patch not applied): a silent thread is taken to be blocked
        if (cv.wait_for(lk, std::chrono::milliseconds(1500), [&] { return done || blocked; })) return done;
        blocked = true;
        return false;
    }
    bool run(std::function<void()> j) {
        std::unique_lock lk(mx);
        job = std::move(j);
        has_job = true;
        done = false;
        blocked = false;
        cv.notify_all();
        return wait_settled(lk);
    }
    // after the main thread changed something: let the blocked thread re-evaluate
    bool recheck() {
        std::unique_lock lk(mx);
        if (done) return true;
        blocked = false;
        poke = true;
        cv.notify_all();
        return wait_settled(lk);
    }
};
thread_local bool Worker::on_worker = false;

// ---- consumer coroutine for the asynchronous styles (its frame is not counted) ----
struct task {
    struct promise_type {
        task get_return_object() { return {}; }
        std::suspend_never initial_suspend() noexcept { return {}; }
        std::suspend_never final_suspend() noexcept { return {}; }
        void return_void() {}
        void unhandled_exception() { std::terminate(); }
        static void *operator new(std::size_t n) { return std::malloc(n); }
        static void operator delete(void *p) { std::free(p); }
    };
};

template <bool A>
using Gen = std::conditional_t<A, generator<int, int>, generator<int>>;

struct CtxBase {
    long ev[256];
    int nev = 0;
    void event(long code, long x) {
        if (nev + 2 <= 256) {
            ev[nev++] = code;
            ev[nev++] = x;
        }
    }
    promise<int> prom;   // promise of the pending await of the body
    long pend_k = -1;
    bool outstanding = false, on_thread = false;
    Result res;
    bool res_ready = false;
    int argv = 0;
    std::vector<long> script;
};

struct Guard {
    CtxBase *c;
    long id;
    Guard(CtxBase *c, long id) : c(c), id(id) { c->event(1, id); }
    Guard(const Guard &) = delete;
    ~Guard() { c->event(2, id); }
};

// (two plain functions rather than one template: g++ 12 ICEs on co_yield with a result inside a template)
#define BODY_COMMON_CASES \
            case 2: { \
                int r = co_await future<int>::set_value((int)a); \
                c->event(4, r); \
                break; \
            } \
            case 3: { \
                future<int> f; \
                c->prom = f.get_promise(); \
                c->pend_k = a; \
                int r = co_await f; \
                c->event(4, r); \
                break; \
            } \
            case 4: throw TestExc{(int)a}; \
            case 5: co_return; \
            case 6: \
                switch (ng) { \
                    case 0: g0.emplace(c, a); ng++; break; \
                    case 1: g1.emplace(c, a); ng++; break; \
                    case 2: g2.emplace(c, a); ng++; break; \
                    case 3: g3.emplace(c, a); ng++; break; \
                    default: break; \
                } \
                break; \
            case 7: \
                switch (ng) { \
                    case 1: g0.reset(); ng--; break; \
                    case 2: g1.reset(); ng--; break; \
                    case 3: g2.reset(); ng--; break; \
                    case 4: g3.reset(); ng--; break; \
                    default: break; \
                } \
                break;

static generator<int> body0(CtxBase *c, const long *s, int n) {
    std::optional<Guard> g0, g1, g2, g3;
    int ng = 0;
    for (int i = 0; i + 1 < n; i += 2) {
        long k = s[i], a = s[i + 1];
        switch (k) {
            case 1: co_yield (int)a; break;
            BODY_COMMON_CASES
            default: break;
        }
    }
}

static generator<int, int> body1(CtxBase *c, const long *s, int n) {
    std::optional<Guard> g0, g1, g2, g3;
    int ng = 0;
    int cur = 0;
    for (int i = 0; i + 1 < n; i += 2) {
        long k = s[i], a = s[i + 1];
        switch (k) {
            case 1: {
                int &r = co_yield (int)a;
                cur = r;
                c->event(3, cur);
                break;
            }
            BODY_COMMON_CASES
            case 8: {
                int &r = co_yield nullptr;
                cur = r;
                c->event(3, cur);
                break;
            }
            case 9: {
                int &r = co_yield cur;
                cur = r;
                c->event(3, cur);
                break;
            }
            default: break;
        }
    }
}

template <bool A>
static Gen<A> body(CtxBase *c, const long *s, int n) {
    if constexpr (A) return body1(c, s, n);
    else return body0(c, s, n);
}

template <bool A>
struct Ctx : CtxBase {
    std::optional<Gen<A>> gen;
    std::optional<typename Gen<A>::iterator> it;
    bool created = false;

    auto do_next() {
        if constexpr (A) return gen->next(argv);
        else return gen->next();
    }
    auto do_call() {
        if constexpr (A) return (*gen)(argv);
        else return (*gen)();
    }
    Result read_value() {
        Result r;
        try {
            r.val = gen->value();
            r.kind = K_VAL;
        } catch (const TestExc &e) {
            r.kind = K_EXC;
            r.val = e.code;
        } catch (const value_not_ready_exception &) {
            r.kind = K_NREADY;
        }
        return r;
    }
    template <typename F>
    Result read_future(F &f) {
        Result r;
        try {
            r.val = *f;
            r.kind = K_VAL;
        } catch (const TestExc &e) {
            r.kind = K_EXC;
            r.val = e.code;
        }
        return r;
    }
    void deliver(Result r) {
        res = r;
        res_ready = true;
    }

    void sync_access(int style) {
        Result r;
        try {
            switch (style) {
                case 0:
                    if (do_next()) r = read_value();
                    else r.kind = K_ENDF;
                    break;
                case 5: {
                    auto n = do_next();
                    bool b1 = n;
                    bool b2 = n;
                    if (b1 != b2) r.kind = 99;
                    else if (b1) r = read_value();
                    else r.kind = K_ENDF;
                    break;
                }
                case 1:
                    if constexpr (!A) {
                        if (!it) it.emplace(gen->begin());
                        else ++*it;
                        if (*it != gen->end()) {
                            try {
                                r.val = **it;
                                r.kind = K_VAL;
                            } catch (const TestExc &e) {
                                r.kind = K_EXC;
                                r.val = e.code;
                            } catch (const value_not_ready_exception &) {
                                r.kind = K_NREADY;
                            }
                        } else {
                            r.kind = K_ENDF;
                        }
                    }
                    break;
                case 2: {
                    auto f = do_call();
                    if (f.has_value()) r = read_future(f);
                    else r.kind = K_ENDF;
                    break;
                }
            }
        } catch (const no_more_values_exception &) {
            r.kind = K_ENDT;
        }
        deliver(r);
    }

    task async_access(int style) {
        Result r;
        try {
            if (style == 3) {
                bool b = co_await do_next();
                if (b) r = read_value();
                else r.kind = K_ENDF;
            } else {
                auto f = do_call();
                bool b = co_await f.has_value();
                if (b) r = read_future(f);
                else r.kind = K_ENDF;
            }
        } catch (const no_more_values_exception &) {
            r.kind = K_ENDT;
        }
        deliver(r);
    }
};

template <bool A>
static void emit(Ctx<A> &c, long st, Result r, const vh::alloc_mark &m) {
    long done = c.gen ? (c.gen->done() ? 1 : 0) : 2;
    if (c.gen && !c.outstanding && (bool)*c.gen == c.gen->done()) done = 9;  // operator bool must be !done()
    std::vector<long> v{st, r.kind, r.val, done, m.news(), m.dels()};
    for (int i = 0; i < c.nev; i++) v.push_back(c.ev[i]);
    c.nev = 0;
    vh::print_obs(v);
}
template <bool A>
static void reject(Ctx<A> &c) {
    c.nev = 0;
    vh::print_obs({1, 0, 0, 0, 0, 0});
}

template <bool A>
static void finish_access(Ctx<A> &c, bool settled, const vh::alloc_mark &m) {
    if (settled && c.res_ready) {
        c.outstanding = false;
        c.res_ready = false;
        emit(c, 0, c.res, m);
    } else {
        c.outstanding = true;
        Result r;
        r.kind = K_PEND;
        emit(c, 0, r, m);
    }
}

template <bool A>
static void run_case(const vh::Case &cs, Worker &w) {
    Ctx<A> c;
    for (auto &op : cs.ops) {
        if (op.empty()) { reject(c); continue; }
        switch (op[0]) {
            case 0: {
                if (c.created || (op.size() % 2) != 1) { reject(c); break; }
                c.created = true;
                c.script.assign(op.begin() + 1, op.end());
                vh::alloc_mark m;
                c.gen.emplace(body<A>(&c, c.script.data(), (int)c.script.size()));
                emit(c, 0, Result{}, m);
                break;
            }
            case 1: {
                if (op.size() != 3 || !c.gen || c.outstanding || op[1] < 0 || op[1] > 5 || (A && op[1] == 1)) { reject(c); break; }
                int style = (int)op[1];
                c.argv = (int)op[2];
                c.res_ready = false;
                vh::alloc_mark m;
                if (style == 3 || style == 4) {
                    c.on_thread = false;
                    c.async_access(style);
                    finish_access(c, true, m);
                } else {
                    c.on_thread = true;
                    bool settled = w.run([&] { c.sync_access(style); });
                    finish_access(c, settled, m);
                }
                break;
            }
            case 2: {
                if (op.size() != 4 || !c.gen || !c.outstanding || !c.prom || c.pend_k != op[1]) { reject(c); break; }
                vh::alloc_mark m;
                int v = (int)op[2];
                promise<int> p = std::move(c.prom);
                c.pend_k = -1;
                if (op[3] == 1) {
                    vh::t_count = false;   // the std::thread's own bookkeeping is not part of the measurement
                    std::thread t([&] {
                        vh::t_count = false;
                        coro_queue::install_queue_and_call([] {});   // per-thread ready-queue warm-up (libstdc++ deque), not measured
                        vh::t_count = true;
                        p(v);
                        vh::t_count = false;
                    });
                    t.join();
                    vh::t_count = true;
                } else {
                    p(v);
                }
                bool settled = true;
                if (c.on_thread) settled = w.recheck();
                finish_access(c, settled, m);
                break;
            }
            case 3: {
                if (op.size() != 1 || !c.gen || c.outstanding) { reject(c); break; }
                vh::alloc_mark m;
                c.it.reset();
                c.gen.reset();
                emit(c, 0, Result{}, m);
                break;
            }
            case 4: {
                if (op.size() != 1 || !c.gen || c.outstanding) { reject(c); break; }
                vh::alloc_mark m;
                Result r = c.read_value();
                emit(c, 0, r, m);
                break;
            }
            default: reject(c); break;
        }
    }
    if (c.outstanding) {
        // a case must not end with a blocked consumer: release the body with value 0 until the access completes
        for (int guard = 0; guard < 64 && c.outstanding && c.prom; guard++) {
            promise<int> p = std::move(c.prom);
            p(0);
            bool settled = true;
            if (c.on_thread) settled = w.recheck();
            if (settled && c.res_ready) c.outstanding = false;
        }
    }
}

int main(int argc, char **argv) {
    if (argc < 2) return 2;
    coro_queue::install_queue_and_call([] {});
    Worker w;
    Worker::inst() = &w;
    cocls::verif::get_hooks().block = &Worker::hook_block;
    w.start();
    w.run([] { coro_queue::install_queue_and_call([] {}); });
    {   // probe: does generator::next_sync report through the block hook?
        CtxBase pc;
        static const long probe_script[] = {3, 1, 1, 1};
        std::optional<generator<int>> g;
        g.emplace(body0(&pc, probe_script, 4));
        w.hook_present = false;
        w.hooked = false;
        {
            std::unique_lock lk(w.mx);
            w.job = [&] { bool b = g->next(); (void)b; };
            w.has_job = true;
            w.done = false;
            w.blocked = false;
            w.cv.notify_all();
            w.cv.wait_for(lk, std::chrono::seconds(5), [&] { return w.done || w.blocked; });
        }
        bool seen = w.hooked;
        promise<int> p = std::move(pc.prom);
        p(0);
        {
            std::unique_lock lk(w.mx);
            w.poke = true;
            w.cv.notify_all();
            w.cv.wait(lk, [&] { return w.done; });
        }
        g.reset();
        w.hook_present = seen;
    }
    for (auto &cs : vh::read_cases(argv[1])) {
        std::printf("CASE %s\n", cs.name.c_str());
        std::fflush(stdout);
        if (cs.engine == "gen1") run_case<true>(cs, w);
        else run_case<false>(cs, w);
        std::printf("END\n");
        std::fflush(stdout);
    }
    w.stop();
    return 0;
}
