// ctl_pool.cpp — controlled-schedule scenarios for cocls::thread_pool (C11).   engine: pool
//
// Real threads, exactly one runnable at a time.  Scheduling points:
//   60 p_lock  COCLS_VERIF_POINT("p_lock") before every acquisition of the pool mutex (enqueue, worker, stop)
//   61 p_wait  a worker sleeping in _cond.wait; enabled when a notification token is available
//   62 p_join  stop() joining a worker; enabled when that worker has left worker()
//   63 p_peek  thread_pool::current's await_ready (reads _exit without the lock)
//    9 xwait   client 0 before ~thread_pool: every other client thread has returned (PoolDefs.v xwait_ok)
// The pool creates its own threads and blocks in std::condition_variable / std::thread::join.  Instead of
// describing these calls with hooks, the harness *observes* them: while thread_pool.h is compiled the names
// std::mutex, std::condition_variable(_any) and std::thread are mapped to std::pool_mutex / pool_cv / pool_thread
// below (API-complete stand-ins: any reasonable rewrite of the header compiles against them), which hand the baton
// back to the controller.  So a changed notify_one/notify_all, a missing notify, a join of the own thread, user code
// run under the lock etc. are seen as they are in the source; no private member of thread_pool is read.
// The harness contains no expected values.
#define VH_DEFINE_NEW
#include "ctl.h"   // point_code table, common.h
#include <cocls/future.h>
#include <cocls/async.h>
#include <cocls/function.h>
#include <cocls/generics.h>

namespace pctl {

enum State { NotStarted, AtPoint, Blocked, Finished, Running };

struct Thr {
    State state = NotStarted;
    int point = 0;
    std::function<bool()> en;
    bool cv_sleep = false;   // inside pool_cv::wait
    bool cv_flag = false;    // flagged by a notify_all while sleeping
};

struct Ctl {
    std::mutex mx;
    std::condition_variable cv;
    int current = -1;
    std::vector<std::unique_ptr<Thr>> ths;
    long tokens = 0, sleepers = 0;
    std::atomic<long> held{0};   // pool mutexes currently locked
    int next_worker = 0;
    bool active = false;

    void reset(int nthreads, int first_worker) {
        std::unique_lock lk(mx);
        ths.clear();
        for (int i = 0; i < nthreads; i++) ths.emplace_back(new Thr());
        tokens = sleepers = 0;
        held = 0;
        next_worker = first_worker;
        current = -1;
        active = true;
    }
};

static Ctl G;   // never destroyed before exit: detached workers may still be leaving it
static thread_local int t_id = -1;
static bool g_fine = false;                 // engine poolf: every unlock of the pool mutex is a scheduling point too
static thread_local int t_atomic_unlock = 0;   // inside condition_variable::wait: unlock + sleep is one atomic action
static void unlocked();

static void check_lock_free();
static void after_wake();

static void yield(State st, int point, std::function<bool()> en) {
    check_lock_free();
    std::unique_lock lk(G.mx);
    Thr &t = *G.ths[t_id];
    t.state = st;
    t.point = point;
    t.en = std::move(en);
    G.current = -1;
    G.cv.notify_all();
    int me = t_id;
    G.cv.wait(lk, [&] { return G.current == me; });
    t.state = Running;
}

static void thread_main(int id, std::function<void()> fn) {
    t_id = id;
    {
        std::unique_lock lk(G.mx);
        G.cv.wait(lk, [&] { return G.current == id; });
        G.ths[id]->state = Running;
    }
    fn();
    std::unique_lock lk(G.mx);
    G.ths[id]->state = Finished;
    G.current = -1;
    G.cv.notify_all();
}

}  // namespace pctl

// ---- observing substitutes for the blocking primitives used by thread_pool.h ----
namespace std {

// std::mutex as seen by thread_pool.h: a real mutex that also tells the harness whether it is held (detection of
// scheduling points / user code reached under the pool lock).  Works with lock_guard, unique_lock, scoped_lock.
class pool_mutex {
public:
    using native_handle_type = std::mutex::native_handle_type;
    constexpr pool_mutex() noexcept = default;
    pool_mutex(const pool_mutex &) = delete;
    pool_mutex &operator=(const pool_mutex &) = delete;
    void lock() {
        m.lock();
        pctl::G.held++;
    }
    bool try_lock() {
        if (!m.try_lock()) return false;
        pctl::G.held++;
        return true;
    }
    void unlock() {
        pctl::G.held--;
        m.unlock();
        pctl::unlocked();
    }
    native_handle_type native_handle() { return m.native_handle(); }

private:
    std::mutex m;
};

// std::condition_variable / condition_variable_any as seen by thread_pool.h.  notify_all flags the threads sleeping
// now, notify_one adds an anonymous token (PoolDefs.v).  Timed waits never time out here (the model has no clock):
// they behave like the untimed forms, which is what a loop around a timed wait amounts to.
class pool_cv {
public:
    pool_cv() = default;
    pool_cv(const pool_cv &) = delete;
    pool_cv &operator=(const pool_cv &) = delete;
    void notify_one() noexcept {
        pctl::after_wake();   // the condition variable of a destroyed pool must not be used
        long flagged = 0;
        for (auto &t : pctl::G.ths) flagged += t->cv_sleep && t->cv_flag;
        if (pctl::G.tokens + flagged < pctl::G.sleepers) pctl::G.tokens++;
    }
    void notify_all() noexcept {
        pctl::after_wake();   // the condition variable of a destroyed pool must not be used
        pctl::G.tokens = 0;
        for (auto &t : pctl::G.ths)
            if (t->cv_sleep) t->cv_flag = true;
    }
    template <typename L>
    void wait(L &lk) {
        pctl::t_atomic_unlock++;
        lk.unlock();
        pctl::t_atomic_unlock--;
        pctl::Thr *me = pctl::G.ths[pctl::t_id].get();
        pctl::G.sleepers++;
        me->cv_sleep = true;
        me->cv_flag = false;
        pctl::yield(pctl::Blocked, 61, [me] { return pctl::G.tokens > 0 || me->cv_flag; });
        pctl::after_wake();
        if (me->cv_flag) me->cv_flag = false;
        else pctl::G.tokens--;
        me->cv_sleep = false;
        pctl::G.sleepers--;
        lk.lock();
    }
    template <typename L, typename P>
    void wait(L &lk, P pred) {
        while (!pred()) wait(lk);
    }
    template <typename L, typename R, typename Pd>
    std::cv_status wait_for(L &lk, const std::chrono::duration<R, Pd> &) {
        wait(lk);
        return std::cv_status::no_timeout;
    }
    template <typename L, typename R, typename Pd, typename P>
    bool wait_for(L &lk, const std::chrono::duration<R, Pd> &, P pred) {
        wait(lk, std::move(pred));
        return true;
    }
    template <typename L, typename C, typename D>
    std::cv_status wait_until(L &lk, const std::chrono::time_point<C, D> &) {
        wait(lk);
        return std::cv_status::no_timeout;
    }
    template <typename L, typename C, typename D, typename P>
    bool wait_until(L &lk, const std::chrono::time_point<C, D> &, P pred) {
        wait(lk, std::move(pred));
        return true;
    }
    // condition_variable_any: interruptible waits (no stop is ever requested by the scenarios)
    template <typename L, typename P>
    bool wait(L &lk, std::stop_token, P pred) {
        wait(lk, std::move(pred));
        return true;
    }
    template <typename L, typename R, typename Pd, typename P>
    bool wait_for(L &lk, std::stop_token, const std::chrono::duration<R, Pd> &, P pred) {
        wait(lk, std::move(pred));
        return true;
    }
    template <typename L, typename C, typename D, typename P>
    bool wait_until(L &lk, std::stop_token, const std::chrono::time_point<C, D> &, P pred) {
        wait(lk, std::move(pred));
        return true;
    }
};

// std::thread as seen by thread_pool.h: the threads the pool creates are adopted by the controller (tid = first worker
// tid + creation order); join() is a scheduling point that is enabled when the target has left its thread function.
class pool_thread {
public:
    using id = std::thread::id;
    using native_handle_type = std::thread::native_handle_type;
    pool_thread() noexcept = default;
    template <typename F, typename... A, typename = std::enable_if_t<!std::is_same_v<std::remove_cvref_t<F>, pool_thread>>>
    explicit pool_thread(F &&f, A &&...a) {
        idx = pctl::G.next_worker++;
        auto pack = std::make_shared<std::tuple<std::decay_t<F>, std::decay_t<A>...>>(std::forward<F>(f), std::forward<A>(a)...);
        th = std::thread(&pctl::thread_main, idx, std::function<void()>([pack] {
                             std::apply([](auto &&fn, auto &&...args) { std::invoke(std::move(fn), std::move(args)...); },
                                        std::move(*pack));
                         }));
    }
    pool_thread(const pool_thread &) = delete;
    pool_thread &operator=(const pool_thread &) = delete;
    pool_thread(pool_thread &&o) noexcept : th(std::move(o.th)), idx(std::exchange(o.idx, -1)) {}
    pool_thread &operator=(pool_thread &&o) noexcept {
        th = std::move(o.th);   // terminates when *this is joinable, as std::thread does
        idx = std::exchange(o.idx, -1);
        return *this;
    }
    ~pool_thread() = default;   // the member terminates when still joinable, as std::thread does
    id get_id() const noexcept { return th.get_id(); }
    bool joinable() const noexcept { return th.joinable(); }
    native_handle_type native_handle() { return th.native_handle(); }
    void join() {
        int target = idx;
        if (pctl::t_id >= 0 && pctl::G.active && target >= 0)
            pctl::yield(pctl::Blocked, 62, [target] { return pctl::G.ths[target]->state == pctl::Finished; });
        th.join();
    }
    void detach() { th.detach(); }
    void swap(pool_thread &o) noexcept {
        th.swap(o.th);
        std::swap(idx, o.idx);
    }
    static unsigned int hardware_concurrency() noexcept { return std::thread::hardware_concurrency(); }

private:
    std::thread th;
    int idx = -1;
};
inline void swap(pool_thread &a, pool_thread &b) noexcept { a.swap(b); }

}  // namespace std

// thread_pool.h is compiled against the observing substitutes; nothing of its private part is read by the harness
#define mutex pool_mutex
#define condition_variable_any pool_cv
#define condition_variable pool_cv
#define thread pool_thread
#include <cocls/thread_pool.h>
#undef thread
#undef condition_variable
#undef condition_variable_any
#undef mutex

using namespace cocls;

// ---- scenario state ----
struct Rec;
struct Act {
    int what;   // 0 submit, 1 stop, 2 query, 3 co_await current(), 4 wait for another submission
    long arg;   // query number / label waited for
    Rec *rec;   // submitted closure / hop continuation
};
struct Rec {
    long label = 0, kind = 0;
    std::vector<Act> body;
    bool submitted = false;
    long ran = 0, ran_on = -1, canc = 0, fin = 0;   // fin: 1 coroutine completed after a run, 2 after a cancel
    std::unique_ptr<future<int>> fut, afut;
    promise<int> aprom;
    Rec *susp = nullptr;                    // run(async): the coroutine suspends on susp->sfut after its body
    std::unique_ptr<future<int>> sfut;      // resolved when this submission runs, broken when it is cancelled
    promise<int> sprom;
    std::coroutine_handle<> h;
};

static thread_pool *g_pool = nullptr;
static std::vector<Rec *> *g_tops = nullptr;   // top-level submissions by label
static long g_destroyed = 0;
static thread_local std::deque<Rec *> t_pending;  // submissions whose enqueue() has not executed yet, in enqueue order
static thread_local int t_api = 0;             // > 0: the thread is inside a pool call made by the scenario (not in the worker loop)
struct ApiScope {
    ApiScope() { t_api++; }
    ~ApiScope() { t_api--; }
};

static long pool_locked() { return pctl::G.held.load() > 0 ? 1 : 0; }

void pctl::check_lock_free() {
    if (pool_locked()) {
        // a scheduling point reached with the pool mutex held: the next thread would block for real
        vh::print_obs({666, (long)pctl::t_id});
        std::printf("END\n");
        std::fflush(stdout);
        std::_Exit(42);
    }
}

static void check_destroyed() {
    if (!g_destroyed) return;
    // the thread is about to use a pool whose destructor has returned: report instead of hanging on freed memory
    vh::print_obs({888, (long)pctl::t_id});
    std::printf("END\n");
    std::fflush(stdout);
    std::_Exit(42);
}
void pctl::after_wake() { check_destroyed(); }

// engine poolf (finer interleaving, no model prediction): the code that follows a critical section is a step of its own
void pctl::unlocked() {
    if (!pctl::g_fine || pctl::t_id < 0 || !pctl::G.active || pctl::t_atomic_unlock) return;
    pctl::yield(pctl::AtPoint, 66, nullptr);
}

static void hook_point(const char *id) {
    if (pctl::t_id < 0 || !pctl::G.active) return;
    bool lock = !std::strcmp(id, "p_lock");
    if (!lock && std::strcmp(id, "p_peek")) return;   // points of other components (future, awaiter) are not scheduling points here
    pctl::yield(pctl::AtPoint, ctl::point_code(id), nullptr);
    check_destroyed();
    if (lock && !t_pending.empty()) {
        t_pending.front()->submitted = true;
        t_pending.pop_front();
    }
}

// a blocking wait inside the library (e.g. join()/wait() on a future): the thread is disabled until its predicate holds
static void hook_block(const char *id, bool (*pred)(void *), void *ctx) {
    if (pctl::t_id < 0 || !pctl::G.active) return;
    pctl::yield(pctl::Blocked, ctl::point_code(id), [pred, ctx] { return pred(ctx); });
}

static void submit(Rec *r);
static async<void> body_coro(Rec *r);

static void start_now(async<void> &&c) {
    auto sp = c.detach();
    auto h = sp.pop();
    h.resume();
}

static void on_run(Rec *r) {
    r->ran++;
    r->ran_on = pctl::t_id;
    vh::print_obs({100, r->label, 1, (long)pctl::t_id, pool_locked()});
    if (r->sfut) r->sprom(1);   // somebody's coroutine is suspended on this submission
    if (!r->body.empty()) start_now(body_coro(r));
}

static void on_cancel(Rec *r) {
    r->canc++;
    vh::print_obs({100, r->label, 2, (long)pctl::t_id, pool_locked()});
    if (r->sfut) r->sprom = promise<int>();   // broken promise for the coroutine suspended on this submission
}

// The body of a job: a list of pool operations.  It runs with the coroutine ready queue of the thread switched
// off, so that a coroutine cancelled by one of the operations is resumed at once and not after the job (the
// ready queue is C05's subject; here only the step in which the cancellation is delivered matters).
static async<void> body_coro(Rec *r) {
    auto *saved = std::exchange(coro_queue::instance, nullptr);
    for (size_t i = 0; i < r->body.size(); i++) {
        Act &a = r->body[i];
        if (a.what == 0) {
            submit(a.rec);
        } else if (a.what == 1) {
            ApiScope api;
            g_pool->stop();
        } else if (a.what == 2) {
            ApiScope api;
            bool res = a.arg == 0 ? thread_pool::current::is_stopped() : thread_pool::current::any_enqueued();
            vh::print_obs({100, (long)res, 10 + a.arg, (long)pctl::t_id, pool_locked()});
        } else if (a.what == 4) {
            // the job blocks (as if it waited on the other submission's future) until that submission ran or was cancelled
            long lbl = a.arg;
            pctl::yield(pctl::Blocked, 64, [lbl] {
                if (lbl < 0 || lbl >= (long)g_tops->size()) return false;
                Rec *t = (*g_tops)[lbl];
                return t->ran + t->canc > 0;
            });
        } else {
            Rec *hr = a.rec;   // its body is the rest of this body: the loop simply goes on after the hop
            coro_queue::instance = saved;
            bool ok = false;
            try {
                t_pending.push_back(hr);
                co_await thread_pool::current();
                ok = true;
            } catch (const await_canceled_exception &) {
            }
            saved = std::exchange(coro_queue::instance, nullptr);
            if (!hr->submitted) t_pending.erase(std::remove(t_pending.begin(), t_pending.end(), hr), t_pending.end());   // already stopped: no hop
            if (hr->submitted) {
                if (ok) {
                    hr->ran++;
                    hr->ran_on = pctl::t_id;
                    hr->fin = 1;
                    vh::print_obs({100, hr->label, 1, (long)pctl::t_id, pool_locked()});
                } else {
                    on_cancel(hr);
                    hr->fin = 2;
                    break;
                }
            }
        }
    }
    coro_queue::instance = saved;
}

// owned by function closures and by the run(async) coroutine frame: tells whether the closure ran or died un-run
struct Guard {
    Rec *r;
    bool done = false;
    explicit Guard(Rec *x) : r(x) {}
    Guard(Guard &&o) noexcept : r(o.r), done(o.done) { o.r = nullptr; }
    Guard(const Guard &) = delete;
    ~Guard() {
        if (r && !done) on_cancel(r);
    }
    void run() {
        done = true;
        on_run(r);
    }
};

// like Guard, but its move constructor throws when the object is moved while the pool mutex is held, i.e. exactly at
// the _queue.push() inside enqueue(): the push fails, the exception leaves run_detached(), the callable must still be
// destroyed (in the caller)
struct move_thrown {};
struct TGuard {
    Rec *r;
    bool done = false;
    explicit TGuard(Rec *x) : r(x) {}
    TGuard(TGuard &&o) {
        if (pool_locked()) throw move_thrown{};
        r = o.r;
        done = o.done;
        o.r = nullptr;
    }
    TGuard(const TGuard &) = delete;
    ~TGuard() {
        if (r && !done) on_cancel(r);
    }
    void run() {
        done = true;
        on_run(r);
    }
};

struct Grab {   // suspends and leaves the handle in the record
    Rec *r;
    bool await_ready() noexcept { return false; }
    void await_suspend(std::coroutine_handle<> h) noexcept { r->h = h; }
    void await_resume() noexcept {}
};
struct Peek {   // records the handle, does not suspend
    Rec *r;
    bool await_ready() noexcept { return false; }
    bool await_suspend(std::coroutine_handle<> h) noexcept {
        r->h = h;
        return false;
    }
    void await_resume() noexcept {}
};

static async<void> hop_coro(Rec *r) {
    bool ok = false;
    try {
        if (std::find(t_pending.begin(), t_pending.end(), r) == t_pending.end()) t_pending.push_back(r);
        co_await *g_pool;
        ok = true;
    } catch (const await_canceled_exception &) {
    }
    if (ok) on_run(r);
    else on_cancel(r);
    r->fin = ok ? 1 : 2;
}

// resume(suspend_point) / pool(awaitable): the coroutine is resumed by a worker's job, or (pool stopped) by the
// thread that destroys the closure, i.e. inside a stop()/enqueue call of the scenario
static async<void> res_coro(Rec *r) {
    co_await Grab{r};
    r->h = nullptr;
    bool ok = t_api == 0;
    if (ok) on_run(r);
    else on_cancel(r);
    r->fin = ok ? 1 : 2;
}

static async<void> awt_coro(Rec *r) {
    co_await Peek{r};
    co_await (*g_pool)(*r->afut);
    r->h = nullptr;
    bool ok = t_api == 0;
    if (ok) on_run(r);
    else on_cancel(r);
    r->fin = ok ? 1 : 2;
}

static async<int> async_job(Guard g, Rec *r) {
    g.run();
    if (r->susp) {
        // the coroutine suspends on something a later job of the same pool resolves; the worker must stay free
        try {
            co_await *r->susp->sfut;
        } catch (const await_canceled_exception &) {
        }
    }
    co_return 7;
}

static void submit(Rec *r) {
    ApiScope api;
    t_pending.push_back(r);
    switch (r->kind) {
        case 0: hop_coro(r).detach(); break;   // discarded suspend point: the coroutine starts the library's way
        case 1: {
            r->afut.reset(new future<int>());
            r->aprom = r->afut->get_promise();
            start_now(awt_coro(r));
            r->aprom(42);
            break;
        }
        case 2: r->fut.reset(new future<int>(g_pool->run([g = Guard(r)]() mutable -> int {
                    g.run();
                    return 7;
                })));
            break;
        case 3: g_pool->run_detached([g = Guard(r)]() mutable { g.run(); }); break;
        case 4: {
            start_now(res_coro(r));
            g_pool->resume(suspend_point<void>(r->h));
            break;
        }
        case 5: r->fut.reset(new future<int>(g_pool->run(async_job(Guard(r), r)))); break;
        case 6:
            try {
                g_pool->run_detached([g = TGuard(r)]() mutable { g.run(); });
            } catch (const move_thrown &) {
            }
            break;
    }
    t_pending.erase(std::remove(t_pending.begin(), t_pending.end(), r), t_pending.end());
}

// resume(suspend_point) with several prepared coroutines: recs[0] is popped (and enqueued) first
static void submit_resume(const std::vector<Rec *> &recs) {
    ApiScope api;
    suspend_point<void> sp;
    for (size_t i = recs.size(); i-- > 0;) {
        start_now(res_coro(recs[i]));
        sp << std::coroutine_handle<>(recs[i]->h);
    }
    for (Rec *r : recs) t_pending.push_back(r);
    g_pool->resume(sp);
    t_pending.clear();
}

static long fut_state(std::unique_ptr<future<int>> &f) {
    if (!f) return 0;
    if (!f->ready()) return 0;
    try {
        f->value();
        return 1;
    } catch (const await_canceled_exception &) {
        return 2;
    } catch (...) {
        return 3;
    }
}

static void run_case(const vh::Case &cs) {
    // ---- decode (mirrors PoolDefs.dec_op) ----
    long n = 1;
    int maxcl = 0;
    struct Op {
        int what;   // 2 submit, 3 stop, 4 worker(), 5 wait for a submission, 6 resume(suspend_point) with several coroutines
        Rec *rec;
        long arg = 0;
        std::vector<Rec *> many;
    };
    std::vector<Op> progs[3];
    std::vector<std::unique_ptr<Rec>> recs;   // every record, owned
    std::vector<Rec *> tops;
    std::vector<long> sched;
    long nk = 0;
    std::vector<std::pair<Rec *, long>> susp_of;
    auto kind_ok = [](long k) { return k >= 0 && k <= 6; };   // 6 (top level only): run_detached of a callable whose move throws
    auto new_rec = [&](long label, long kind) {
        recs.emplace_back(new Rec());
        recs.back()->label = label;
        recs.back()->kind = kind;
        return recs.back().get();
    };
    for (auto &op : cs.ops) {
        if (op.empty()) continue;
        if (op[0] == 1 && op.size() == 2) {
            if (op[1] >= 1 && op[1] <= 4) n = op[1];
        } else if (op[0] == 2 && op.size() >= 3) {
            long cl = op[1], k = op[2];
            if (!kind_ok(k)) continue;
            // body: 0..5 submit, 6 stop (last), 7/8 query, 9 co_await current(), 10+j wait for submission j; at most 6 actions
            bool ok = true;
            size_t na = op.size() - 3;
            if (na > 6) ok = false;
            for (size_t i = 0; ok && i < na; i++) {
                long z = op[3 + i];
                if (z < 0 || z > 89) ok = false;
                if (z >= 50 && i + 1 != na) ok = false;
                if (z == 6 && i + 1 != na) ok = false;
            }
            if (!ok) continue;
            if (cl < 0 || cl > 2 || tops.size() >= 40) continue;
            long j = (long)tops.size();
            Rec *r = new_rec(j, k);
            for (size_t i = 0; i < na; i++) {
                long z = op[3 + i];
                long lbl = 100 + 10 * j + (long)i;
                if (z <= 5) r->body.push_back({0, 0, new_rec(lbl, z)});
                else if (z == 6) r->body.push_back({1, 0, nullptr});
                else if (z == 7 || z == 8) r->body.push_back({2, z - 7, nullptr});
                else if (z == 9) r->body.push_back({3, 0, new_rec(lbl, 0)});
                else if (z < 50) r->body.push_back({4, z - 10, nullptr});
                else susp_of.push_back({r, z - 50});
            }
            // a hop continuation's body is the rest of the body it interrupts
            for (size_t i = 0; i < r->body.size(); i++)
                if (r->body[i].what == 3) r->body[i].rec->body.assign(r->body.begin() + i + 1, r->body.end());
            progs[cl].push_back({2, r, 0, {}});
            tops.push_back(r);
            maxcl = std::max<int>(maxcl, (int)cl);
        } else if (op[0] == 6 && op.size() == 3) {
            long cl = op[1], k = op[2];
            if (cl < 0 || cl > 2 || k < 1 || k > 9) continue;
            Op o{6, nullptr, 0, {}};
            for (long i = 0; i < k && tops.size() < 40; i++) {
                Rec *r = new_rec((long)tops.size(), 4);
                o.many.push_back(r);
                tops.push_back(r);
            }
            if (o.many.empty()) continue;
            progs[cl].push_back(o);
            maxcl = std::max<int>(maxcl, (int)cl);
        } else if (op[0] == 5 && op.size() == 3) {
            long cl = op[1], l = op[2];
            if (cl < 0 || cl > 2 || l < 0 || l >= 40 || nk >= 30) continue;
            nk++;
            progs[cl].push_back({5, nullptr, l, {}});
            maxcl = std::max<int>(maxcl, (int)cl);
        } else if ((op[0] == 3 || op[0] == 4) && op.size() == 2) {
            long cl = op[1];
            if (cl < 0 || cl > 2 || nk >= 30) continue;
            nk++;
            progs[cl].push_back({(int)op[0], nullptr, 0, {}});
            maxcl = std::max<int>(maxcl, (int)cl);
        } else if (op[0] == 9) {
            sched.insert(sched.end(), op.begin() + 1, op.end());
        }
    }
    int m = maxcl + 1;
    int total = m + (int)n;
    g_tops = &tops;
    for (auto &pr : susp_of)
        if (pr.first->kind == 5 && pr.second < (long)tops.size() && tops[pr.second] != pr.first) {
            pr.first->susp = tops[pr.second];
            if (!pr.first->susp->sfut) {
                pr.first->susp->sfut.reset(new future<int>());
                pr.first->susp->sprom = pr.first->susp->sfut->get_promise();
            }
        }

    // ---- set up ----
    g_destroyed = 0;
    pctl::G.reset(total, m);
    auto &hk = cocls::verif::get_hooks();
    hk.point = &hook_point;
    hk.block = &hook_block;
    g_pool = new thread_pool((unsigned int)n);   // workers are adopted by pool_thread as tids m..m+n-1
    std::vector<std::thread> clients;
    for (int i = 0; i < m; i++) {
        clients.emplace_back(&pctl::thread_main, i, std::function<void()>([&, i] {
            for (auto &o : progs[i]) {
                if (o.what == 2) submit(o.rec);
                else if (o.what == 6) submit_resume(o.many);
                else if (o.what == 3) {
                    ApiScope api;
                    g_pool->stop();
                } else if (o.what == 5) {
                    long lbl = o.arg;
                    pctl::yield(pctl::Blocked, 64, [lbl, &tops] {
                        if (lbl >= (long)tops.size()) return false;
                        return tops[lbl]->ran + tops[lbl]->canc > 0;
                    });
                } else g_pool->worker();
            }
            if (i == 0) {
                pctl::yield(pctl::Blocked, 9, [&] {
                    for (int c = 1; c < m; c++)
                        if (pctl::G.ths[c]->state != pctl::Finished) return false;
                    return true;
                });
                ApiScope api;
                thread_pool *p = g_pool;
                delete p;
                g_pool = nullptr;
                g_destroyed = 1;
                if (pctl::g_fine) {
                    // submissions that are neither run nor cancelled at the moment the destructor has returned
                    long unresolved = 0;
                    for (auto &r : recs)
                        if (r->submitted && r->ran + r->canc == 0) unresolved++;
                    vh::print_obs({400, unresolved});
                }
            }
        }));
    }
    bool deadlock = false;
    std::vector<long> stuck;
    {
        std::unique_lock lk(pctl::G.mx);
        auto give = [&](int i) {
            pctl::G.current = i;
            pctl::G.cv.notify_all();
            pctl::G.cv.wait(lk, [&] { return pctl::G.current == -1; });
        };
        // init phase: every thread runs up to its first scheduling point (no trace entry)
        for (int i = 0; i < total; i++) give(i);
        size_t si = 0;
        size_t limit = sched.size() + 200000;   // never reached: every run is finite (PoolTerm.v)
        for (size_t step = 0; step < limit; step++) {
            std::vector<int> en;
            for (int i = 0; i < total; i++) {
                pctl::Thr &t = *pctl::G.ths[i];
                if (t.state == pctl::AtPoint) en.push_back(i);
                else if (t.state == pctl::Blocked && t.en()) en.push_back(i);
            }
            if (en.empty()) break;
            long k = si < sched.size() ? sched[si] : 0;
            si++;
            if (k < 0) k = -k;
            int pick = en[k % (long)en.size()];
            vh::print_obs({(long)pick, (long)pctl::G.ths[pick]->point});
            give(pick);
        }
        for (int i = 0; i < total; i++)
            if (pctl::G.ths[i]->state != pctl::Finished) {
                deadlock = true;
                stuck.push_back(i);
            }
    }
    if (deadlock) {
        std::vector<long> v{777};
        v.insert(v.end(), stuck.begin(), stuck.end());
        vh::print_obs(v);
    } else {
        for (auto &c : clients) c.join();
    }
    // ---- observations: one line per submission that reached enqueue(), in label order ----
    std::vector<Rec *> order;
    for (auto &r : recs) order.push_back(r.get());
    std::sort(order.begin(), order.end(), [](Rec *a, Rec *b) { return a->label < b->label; });
    for (Rec *r : order) {
        if (!r->submitted) continue;
        long ws = 0;
        switch (r->kind) {
            case 0: case 1: case 4: ws = r->fin; break;
            case 2: case 5: ws = fut_state(r->fut); break;
            case 3: case 6: ws = r->ran ? 1 : (r->canc ? 2 : 0); break;
        }
        vh::print_obs({200, r->label, r->kind, r->ran, r->canc, ws, r->ran_on});
    }
    vh::print_obs({300, g_destroyed, (long)m, (long)total});
    if (deadlock) {
        std::printf("END\n");
        std::fflush(stdout);
        std::_Exit(42);
    }
    hk.point = nullptr;
    hk.block = nullptr;
    pctl::G.active = false;
    // ---- clean up: a forgotten coroutine is still suspended, a forgotten future is still pending ----
    for (auto &r : recs) {
        if (r->h && !r->fin) r->h.destroy();
        r->h = nullptr;
        if (r->fut && !r->fut->ready()) (void)r->fut.release();
        if (r->afut && !r->afut->ready()) (void)r->afut.release();
        if (r->sfut && !r->sfut->ready()) (void)r->sfut.release();
    }
}

int main(int argc, char **argv) {
    if (argc < 2) return 2;
    for (auto &cs : vh::read_cases(argv[1])) {
        std::printf("CASE %s\n", cs.name.c_str());
        std::fflush(stdout);
        pctl::g_fine = cs.engine == "poolf";
        if (cs.engine == "pool" || cs.engine == "poolf") run_case(cs);
        std::printf("END\n");
        std::fflush(stdout);
    }
    return 0;
}
