// ctl_pool.cpp — controlled-schedule scenarios for cocls::thread_pool (C11).   engine: pool
//
// Real threads, exactly one runnable at a time.  Scheduling points:
//   60 p_lock  COCLS_VERIF_POINT("p_lock") before every acquisition of the pool mutex (enqueue, worker, stop)
//   61 p_wait  a worker sleeping in _cond.wait; enabled when a notification token is available
//   62 p_join  stop() joining a worker; enabled when that worker has left worker()
//   63 p_peek  thread_pool::current's await_ready (reads _exit without the lock)
//    9 xwait   client 0 before ~thread_pool: every other client thread has returned (PoolDefs.v xwait_ok)
// The pool creates its own threads and blocks in std::condition_variable / std::thread::join.  Instead of
// describing these calls with hooks, the harness *observes* them: while thread_pool.h is compiled the names
// std::condition_variable and std::thread are mapped to std::pool_cv / std::pool_thread below, which hand the
// baton back to the controller.  So a changed notify_one/notify_all, a missing notify, a join of the own
// thread etc. are seen as they are in the source.  The harness contains no expected values.
#define VH_DEFINE_NEW
#include "ctl.h"   // point_code table, common.h
#include <cocls/future.h>
#include <cocls/async.h>
#include <cocls/function.h>
#include <cocls/generics.h>

namespace pctl {

enum State { NotStarted, AtPoint, Blocked, Finished, Running };

struct Thr {
    State state = NotStarted;
    int point = 0;
    std::function<bool()> en;
    bool cv_sleep = false;   // inside pool_cv::wait
    bool cv_flag = false;    // flagged by a notify_all while sleeping
};

struct Ctl {
    std::mutex mx;
    std::condition_variable cv;
    int current = -1;
    std::vector<std::unique_ptr<Thr>> ths;
    long tokens = 0, sleepers = 0;
    int next_worker = 0;
    bool active = false;

    void reset(int nthreads, int first_worker) {
        std::unique_lock lk(mx);
        ths.clear();
        for (int i = 0; i < nthreads; i++) ths.emplace_back(new Thr());
        tokens = sleepers = 0;
        next_worker = first_worker;
        current = -1;
        active = true;
    }
};

static Ctl G;   // never destroyed before exit: detached workers may still be leaving it
static thread_local int t_id = -1;

static void check_lock_free();
static void after_wake();

static void yield(State st, int point, std::function<bool()> en) {
    check_lock_free();
    std::unique_lock lk(G.mx);
    Thr &t = *G.ths[t_id];
    t.state = st;
    t.point = point;
    t.en = std::move(en);
    G.current = -1;
    G.cv.notify_all();
    int me = t_id;
    G.cv.wait(lk, [&] { return G.current == me; });
    t.state = Running;
}

static void thread_main(int id, std::function<void()> fn) {
    t_id = id;
    {
        std::unique_lock lk(G.mx);
        G.cv.wait(lk, [&] { return G.current == id; });
        G.ths[id]->state = Running;
    }
    fn();
    std::unique_lock lk(G.mx);
    G.ths[id]->state = Finished;
    G.current = -1;
    G.cv.notify_all();
}

}  // namespace pctl

// ---- observing substitutes for the blocking primitives used by thread_pool.h ----
namespace std {

class pool_cv {
public:
    // notify_all flags the threads sleeping now; notify_one adds an anonymous token (PoolDefs.v)
    void notify_one() noexcept {
        long flagged = 0;
        for (auto &t : pctl::G.ths) flagged += t->cv_sleep && t->cv_flag;
        if (pctl::G.tokens + flagged < pctl::G.sleepers) pctl::G.tokens++;
    }
    void notify_all() noexcept {
        pctl::G.tokens = 0;
        for (auto &t : pctl::G.ths)
            if (t->cv_sleep) t->cv_flag = true;
    }
    template <typename L>
    void wait(L &lk) {
        lk.unlock();
        pctl::Thr *me = pctl::G.ths[pctl::t_id].get();
        pctl::G.sleepers++;
        me->cv_sleep = true;
        me->cv_flag = false;
        pctl::yield(pctl::Blocked, 61, [me] { return pctl::G.tokens > 0 || me->cv_flag; });
        pctl::after_wake();
        if (me->cv_flag) me->cv_flag = false;
        else pctl::G.tokens--;
        me->cv_sleep = false;
        pctl::G.sleepers--;
        lk.lock();
    }
    template <typename L, typename P>
    void wait(L &lk, P pred) {
        while (!pred()) wait(lk);
    }
};

class pool_thread {
public:
    pool_thread() noexcept = default;
    template <typename F, typename = std::enable_if_t<!std::is_same_v<std::decay_t<F>, pool_thread>>>
    explicit pool_thread(F &&f) {
        idx = pctl::G.next_worker++;
        th = std::thread(&pctl::thread_main, idx, std::function<void()>(std::forward<F>(f)));
    }
    pool_thread(pool_thread &&) noexcept = default;
    pool_thread &operator=(pool_thread &&) noexcept = default;
    std::thread::id get_id() const noexcept { return th.get_id(); }
    bool joinable() const noexcept { return th.joinable(); }
    void join() {
        int target = idx;
        pctl::yield(pctl::Blocked, 62, [target] { return pctl::G.ths[target]->state == pctl::Finished; });
        th.join();
    }
    void detach() { th.detach(); }
    void swap(pool_thread &o) noexcept {
        th.swap(o.th);
        std::swap(idx, o.idx);
    }
    static unsigned int hardware_concurrency() noexcept { return std::thread::hardware_concurrency(); }

private:
    std::thread th;
    int idx = -1;
};

}  // namespace std

#define protected public
#define private public
#define condition_variable pool_cv
#define thread pool_thread
#include <cocls/thread_pool.h>
#undef thread
#undef condition_variable
#undef protected
#undef private

using namespace cocls;

// ---- scenario state ----
struct Rec;
struct Act {
    int what;   // 0 submit, 1 stop, 2 query, 3 co_await current()
    long arg;   // query number
    Rec *rec;   // submitted closure / hop continuation
};
struct Rec {
    long label = 0, kind = 0;
    std::vector<Act> body;
    bool submitted = false;
    long ran = 0, ran_on = -1, canc = 0, fin = 0;   // fin: 1 coroutine completed after a run, 2 after a cancel
    std::unique_ptr<future<int>> fut, afut;
    promise<int> aprom;
    std::coroutine_handle<> h;
};

static thread_pool *g_pool = nullptr;
static long g_destroyed = 0;
static thread_local Rec *t_pending = nullptr;  // submission whose enqueue() has not executed yet
static thread_local int t_api = 0;             // > 0: the thread is inside a pool call made by the scenario (not in the worker loop)
struct ApiScope {
    ApiScope() { t_api++; }
    ~ApiScope() { t_api--; }
};

static long pool_locked() {
    if (!g_pool) return 0;
    if (g_pool->_mx.try_lock()) {
        g_pool->_mx.unlock();
        return 0;
    }
    return 1;
}

void pctl::check_lock_free() {
    if (pool_locked()) {
        // a scheduling point reached with the pool mutex held: the next thread would block for real
        vh::print_obs({666, (long)pctl::t_id});
        std::printf("END\n");
        std::fflush(stdout);
        std::_Exit(42);
    }
}

static void check_destroyed() {
    if (!g_destroyed) return;
    // the thread is about to use a pool whose destructor has returned: report instead of hanging on freed memory
    vh::print_obs({888, (long)pctl::t_id});
    std::printf("END\n");
    std::fflush(stdout);
    std::_Exit(42);
}
void pctl::after_wake() { check_destroyed(); }

static void hook_point(const char *id) {
    if (pctl::t_id < 0 || !pctl::G.active) return;
    bool lock = !std::strcmp(id, "p_lock");
    if (!lock && std::strcmp(id, "p_peek")) return;   // points of other components (future, awaiter) are not scheduling points here
    pctl::yield(pctl::AtPoint, ctl::point_code(id), nullptr);
    check_destroyed();
    if (lock && t_pending) {
        t_pending->submitted = true;
        t_pending = nullptr;
    }
}

static void submit(Rec *r);
static async<void> body_coro(Rec *r);

static void start_now(async<void> &&c) {
    auto sp = c.detach();
    auto h = sp.pop();
    h.resume();
}

static void on_run(Rec *r) {
    r->ran++;
    r->ran_on = pctl::t_id;
    vh::print_obs({100, r->label, 1, (long)pctl::t_id, pool_locked()});
    if (!r->body.empty()) start_now(body_coro(r));
}

static void on_cancel(Rec *r) {
    r->canc++;
    vh::print_obs({100, r->label, 2, (long)pctl::t_id, pool_locked()});
}

// The body of a job: a list of pool operations.  It runs with the coroutine ready queue of the thread switched
// off, so that a coroutine cancelled by one of the operations is resumed at once and not after the job (the
// ready queue is C05's subject; here only the step in which the cancellation is delivered matters).
static async<void> body_coro(Rec *r) {
    auto *saved = std::exchange(coro_queue::instance, nullptr);
    for (size_t i = 0; i < r->body.size(); i++) {
        Act &a = r->body[i];
        if (a.what == 0) {
            submit(a.rec);
        } else if (a.what == 1) {
            ApiScope api;
            g_pool->stop();
        } else if (a.what == 2) {
            ApiScope api;
            bool res = a.arg == 0 ? thread_pool::current::is_stopped() : thread_pool::current::any_enqueued();
            vh::print_obs({100, (long)res, 10 + a.arg, (long)pctl::t_id, pool_locked()});
        } else {
            Rec *hr = a.rec;   // its body is the rest of this body: the loop simply goes on after the hop
            coro_queue::instance = saved;
            bool ok = false;
            try {
                t_pending = hr;
                co_await thread_pool::current();
                ok = true;
            } catch (const await_canceled_exception &) {
            }
            saved = std::exchange(coro_queue::instance, nullptr);
            if (t_pending == hr) t_pending = nullptr;   // already stopped: no hop
            if (hr->submitted) {
                if (ok) {
                    hr->ran++;
                    hr->ran_on = pctl::t_id;
                    hr->fin = 1;
                    vh::print_obs({100, hr->label, 1, (long)pctl::t_id, pool_locked()});
                } else {
                    on_cancel(hr);
                    hr->fin = 2;
                    break;
                }
            }
        }
    }
    coro_queue::instance = saved;
}

// owned by function closures and by the run(async) coroutine frame: tells whether the closure ran or died un-run
struct Guard {
    Rec *r;
    bool done = false;
    explicit Guard(Rec *x) : r(x) {}
    Guard(Guard &&o) noexcept : r(o.r), done(o.done) { o.r = nullptr; }
    Guard(const Guard &) = delete;
    ~Guard() {
        if (r && !done) on_cancel(r);
    }
    void run() {
        done = true;
        on_run(r);
    }
};

struct Grab {   // suspends and leaves the handle in the record
    Rec *r;
    bool await_ready() noexcept { return false; }
    void await_suspend(std::coroutine_handle<> h) noexcept { r->h = h; }
    void await_resume() noexcept {}
};
struct Peek {   // records the handle, does not suspend
    Rec *r;
    bool await_ready() noexcept { return false; }
    bool await_suspend(std::coroutine_handle<> h) noexcept {
        r->h = h;
        return false;
    }
    void await_resume() noexcept {}
};

static async<void> hop_coro(Rec *r) {
    bool ok = false;
    try {
        t_pending = r;
        co_await *g_pool;
        ok = true;
    } catch (const await_canceled_exception &) {
    }
    if (ok) on_run(r);
    else on_cancel(r);
    r->fin = ok ? 1 : 2;
}

// resume(suspend_point) / pool(awaitable): the coroutine is resumed by a worker's job, or (pool stopped) by the
// thread that destroys the closure, i.e. inside a stop()/enqueue call of the scenario
static async<void> res_coro(Rec *r) {
    co_await Grab{r};
    r->h = nullptr;
    bool ok = t_api == 0;
    if (ok) on_run(r);
    else on_cancel(r);
    r->fin = ok ? 1 : 2;
}

static async<void> awt_coro(Rec *r) {
    co_await Peek{r};
    co_await (*g_pool)(*r->afut);
    r->h = nullptr;
    bool ok = t_api == 0;
    if (ok) on_run(r);
    else on_cancel(r);
    r->fin = ok ? 1 : 2;
}

static async<int> async_job(Guard g) {
    g.run();
    co_return 7;
}

static void submit(Rec *r) {
    ApiScope api;
    t_pending = r;
    switch (r->kind) {
        case 0: hop_coro(r).detach(); break;   // discarded suspend point: the coroutine starts the library's way
        case 1: {
            r->afut.reset(new future<int>());
            r->aprom = r->afut->get_promise();
            start_now(awt_coro(r));
            r->aprom(42);
            break;
        }
        case 2: r->fut.reset(new future<int>(g_pool->run([g = Guard(r)]() mutable -> int {
                    g.run();
                    return 7;
                })));
            break;
        case 3: g_pool->run_detached([g = Guard(r)]() mutable { g.run(); }); break;
        case 4: {
            start_now(res_coro(r));
            g_pool->resume(suspend_point<void>(r->h));
            break;
        }
        case 5: r->fut.reset(new future<int>(g_pool->run(async_job(Guard(r))))); break;
    }
}

static long fut_state(std::unique_ptr<future<int>> &f) {
    if (!f) return 0;
    if (!f->ready()) return 0;
    try {
        f->value();
        return 1;
    } catch (const await_canceled_exception &) {
        return 2;
    } catch (...) {
        return 3;
    }
}

static void run_case(const vh::Case &cs) {
    // ---- decode (mirrors PoolDefs.dec_op) ----
    long n = 1;
    int maxcl = 0;
    struct Op {
        int what;   // 2 submit, 3 stop, 4 worker()
        Rec *rec;
    };
    std::vector<Op> progs[3];
    std::vector<std::unique_ptr<Rec>> recs;   // every record, owned
    std::vector<Rec *> tops;
    std::vector<long> sched;
    long nk = 0;
    auto kind_ok = [](long k) { return k >= 0 && k <= 5; };
    auto new_rec = [&](long label, long kind) {
        recs.emplace_back(new Rec());
        recs.back()->label = label;
        recs.back()->kind = kind;
        return recs.back().get();
    };
    for (auto &op : cs.ops) {
        if (op.empty()) continue;
        if (op[0] == 1 && op.size() == 2) {
            if (op[1] >= 1 && op[1] <= 4) n = op[1];
        } else if (op[0] == 2 && op.size() >= 3) {
            long cl = op[1], k = op[2];
            if (!kind_ok(k)) continue;
            // body: 0..5 submit, 6 stop (last), 7/8 query, 9 co_await current(); at most 6 actions
            bool ok = true;
            size_t na = op.size() - 3;
            if (na > 6) ok = false;
            for (size_t i = 0; ok && i < na; i++) {
                long z = op[3 + i];
                if (z < 0 || z > 9) ok = false;
                if (z == 6 && i + 1 != na) ok = false;
            }
            if (!ok) continue;
            if (cl < 0 || cl > 2 || tops.size() >= 40) continue;
            long j = (long)tops.size();
            Rec *r = new_rec(j, k);
            for (size_t i = 0; i < na; i++) {
                long z = op[3 + i];
                long lbl = 100 + 10 * j + (long)i;
                if (z <= 5) r->body.push_back({0, 0, new_rec(lbl, z)});
                else if (z == 6) r->body.push_back({1, 0, nullptr});
                else if (z == 7 || z == 8) r->body.push_back({2, z - 7, nullptr});
                else r->body.push_back({3, 0, new_rec(lbl, 0)});
            }
            // a hop continuation's body is the rest of the body it interrupts
            for (size_t i = 0; i < r->body.size(); i++)
                if (r->body[i].what == 3) r->body[i].rec->body.assign(r->body.begin() + i + 1, r->body.end());
            progs[cl].push_back({2, r});
            tops.push_back(r);
            maxcl = std::max<int>(maxcl, (int)cl);
        } else if ((op[0] == 3 || op[0] == 4) && op.size() == 2) {
            long cl = op[1];
            if (cl < 0 || cl > 2 || nk >= 30) continue;
            nk++;
            progs[cl].push_back({(int)op[0], nullptr});
            maxcl = std::max<int>(maxcl, (int)cl);
        } else if (op[0] == 9) {
            sched.insert(sched.end(), op.begin() + 1, op.end());
        }
    }
    int m = maxcl + 1;
    int total = m + (int)n;

    // ---- set up ----
    g_destroyed = 0;
    pctl::G.reset(total, m);
    auto &hk = cocls::verif::get_hooks();
    hk.point = &hook_point;
    hk.block = nullptr;
    g_pool = new thread_pool((unsigned int)n);   // workers are adopted by pool_thread as tids m..m+n-1
    std::vector<std::thread> clients;
    for (int i = 0; i < m; i++) {
        clients.emplace_back(&pctl::thread_main, i, std::function<void()>([&, i] {
            for (auto &o : progs[i]) {
                if (o.what == 2) submit(o.rec);
                else if (o.what == 3) {
                    ApiScope api;
                    g_pool->stop();
                } else g_pool->worker();
            }
            if (i == 0) {
                pctl::yield(pctl::Blocked, 9, [&] {
                    for (int c = 1; c < m; c++)
                        if (pctl::G.ths[c]->state != pctl::Finished) return false;
                    return true;
                });
                ApiScope api;
                thread_pool *p = g_pool;
                delete p;
                g_pool = nullptr;
                g_destroyed = 1;
            }
        }));
    }
    bool deadlock = false;
    std::vector<long> stuck;
    {
        std::unique_lock lk(pctl::G.mx);
        auto give = [&](int i) {
            pctl::G.current = i;
            pctl::G.cv.notify_all();
            pctl::G.cv.wait(lk, [&] { return pctl::G.current == -1; });
        };
        // init phase: every thread runs up to its first scheduling point (no trace entry)
        for (int i = 0; i < total; i++) give(i);
        size_t si = 0;
        size_t limit = sched.size() + 200000;   // never reached: every run is finite (PoolTerm.v)
        for (size_t step = 0; step < limit; step++) {
            std::vector<int> en;
            for (int i = 0; i < total; i++) {
                pctl::Thr &t = *pctl::G.ths[i];
                if (t.state == pctl::AtPoint) en.push_back(i);
                else if (t.state == pctl::Blocked && t.en()) en.push_back(i);
            }
            if (en.empty()) break;
            long k = si < sched.size() ? sched[si] : 0;
            si++;
            if (k < 0) k = -k;
            int pick = en[k % (long)en.size()];
            vh::print_obs({(long)pick, (long)pctl::G.ths[pick]->point});
            give(pick);
        }
        for (int i = 0; i < total; i++)
            if (pctl::G.ths[i]->state != pctl::Finished) {
                deadlock = true;
                stuck.push_back(i);
            }
    }
    if (deadlock) {
        std::vector<long> v{777};
        v.insert(v.end(), stuck.begin(), stuck.end());
        vh::print_obs(v);
    } else {
        for (auto &c : clients) c.join();
    }
    // ---- observations: one line per submission that reached enqueue(), in label order ----
    std::vector<Rec *> order;
    for (auto &r : recs) order.push_back(r.get());
    std::sort(order.begin(), order.end(), [](Rec *a, Rec *b) { return a->label < b->label; });
    for (Rec *r : order) {
        if (!r->submitted) continue;
        long ws = 0;
        switch (r->kind) {
            case 0: case 1: case 4: ws = r->fin; break;
            case 2: case 5: ws = fut_state(r->fut); break;
            case 3: ws = r->ran ? 1 : (r->canc ? 2 : 0); break;
        }
        vh::print_obs({200, r->label, r->kind, r->ran, r->canc, ws, r->ran_on});
    }
    vh::print_obs({300, g_destroyed, (long)m, (long)total});
    if (deadlock) {
        std::printf("END\n");
        std::fflush(stdout);
        std::_Exit(42);
    }
    hk.point = nullptr;
    pctl::G.active = false;
    // ---- clean up: a forgotten coroutine is still suspended, a forgotten future is still pending ----
    for (auto &r : recs) {
        if (r->h && !r->fin) r->h.destroy();
        r->h = nullptr;
        if (r->fut && !r->fut->ready()) (void)r->fut.release();
        if (r->afut && !r->afut->ready()) (void)r->afut.release();
    }
}

int main(int argc, char **argv) {
    if (argc < 2) return 2;
    for (auto &cs : vh::read_cases(argv[1])) {
        std::printf("CASE %s\n", cs.name.c_str());
        std::fflush(stdout);
        if (cs.engine == "pool") run_case(cs);
        std::printf("END\n");
        std::fflush(stdout);
    }
    return 0;
}
