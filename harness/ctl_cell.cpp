// ctl_cell.cpp — controlled-schedule scenarios for one future/promise cell (C01, C02, C20 part).
// engines: cell_int cell_void cell_uptr cell_ref cell_cnt
// threads: 1 k d  resolver (k: 0 value, 1 exception, 2 drop, 3 move-then-destroy, 4 async coroutine co_return d,
//                           5 async coroutine throwing d, 6 move-then-destroy where the private copy dies by stack unwinding,
//                           7 a coroutine doing co_await promise(d))
//          2 k    waiter   (k: 0 coroutine co_await f, 1 thread sync()+value(), 2 callback awaiter, 3 thread has_value(),
//                           4 coroutine co_await f.has_value(), 5 call_fn_future_awaiter: awt << factory; the first such
//                           waiter owns the future under test as its internal future, further ones are plain callback
//                           awaiters subscribed without await_ready)
//          9 ...  schedule
// result lines: "12 tid t 0" (engines uptr, cnt; value calls): the call consumed its argument / constructed an instance,
//               "tid 1 ret" resolver, "tid 2 done kind datum runs parked ready" waiter (ready = the slot held the ready marker when it went on), "11 tid ready 0" async frame destroyed,
//               "9 ready kind datum" final state of the future, "10 live 0" instance balance
#define VH_DEFINE_NEW
#include "ctl.h"
#define protected public
#define private public
#include <cocls/future.h>
#include <cocls/async.h>
#undef protected
#undef private

using namespace cocls;

struct test_exc {
    long code;
};

struct counted {
    static inline std::atomic<long> live{0};
    static inline thread_local long t_made = 0;   // instances constructed by this thread
    long v;
    counted(long x) : v(x) { live++; t_made++; }
    counted(const counted &o) : v(o.v) { live++; t_made++; }
    counted(counted &&o) : v(o.v) { live++; t_made++; }
    ~counted() { live--; }
};

template <typename T>
struct traits;
template <>
struct traits<int> {
    static bool set(promise<int> &p, long v) { return p((int)v); }
    static int make(long v) { return (int)v; }
    static long get(int &x) { return x; }
};
template <>
struct traits<void> {
    static bool set(promise<void> &p, long) { return p(); }
};
template <>
struct traits<std::unique_ptr<int>> {
    static bool set(promise<std::unique_ptr<int>> &p, long v) { return p(std::make_unique<int>((int)v)); }
    static std::unique_ptr<int> make(long v) { return std::make_unique<int>((int)v); }
    static long get(std::unique_ptr<int> &x) { return x ? *x : -12345; }
};
static long g_refcells[64];
template <>
struct traits<long &> {
    static long &make(long v) {
        static std::atomic<int> n{0};
        long &cell = g_refcells[n++ % 64];
        cell = v;
        return cell;
    }
    static bool set(promise<long &> &p, long v) { return p(make(v)); }
    static long get(long &x) { return x; }
};
template <>
struct traits<counted> {
    static bool set(promise<counted> &p, long v) { return p(counted(v)); }
    static counted make(long v) { return counted(v); }
    static long get(counted &x) { return x.v; }
};

struct Seen {
    long done = 0, kind = 0, datum = 0, runs = 0, parked = 0, ready = 0;
};
static long is_ready_now(future_common &f) { return f._awaiter.load() == &awaiter::disabled ? 1 : 0; }

template <typename T>
static void read_into(future<T> &f, Seen &s) {
    s.runs++;
    s.ready = is_ready_now(f);
    try {
        if constexpr (std::is_void_v<T>) {
            f.value();
            s.kind = 1;
            s.datum = 0;
        } else {
            s.datum = traits<T>::get(f.value());
            s.kind = 1;
        }
    } catch (const await_canceled_exception &) {
        s.kind = 0;
        s.datum = 0;
    } catch (const test_exc &e) {
        s.kind = 2;
        s.datum = e.code;
    } catch (const value_not_ready_exception &) {
        s.kind = 7;
        s.datum = 0;
    }
    s.done = 1;
}

template <typename T>
static async<void> coro_waiter(future<T> &f, Seen &s) {
    try {
        if constexpr (std::is_void_v<T>) {
            co_await f;
            s.kind = 1;
        } else {
            auto &r = co_await f;
            s.datum = traits<T>::get(r);
            s.kind = 1;
        }
    } catch (const await_canceled_exception &) {
        s.kind = 0;
    } catch (const test_exc &e) {
        s.kind = 2;
        s.datum = e.code;
    } catch (const value_not_ready_exception &) {
        s.kind = 7;
    }
    s.runs++;
    s.ready = is_ready_now(f);
    s.done = 1;
}

// coroutine awaiting has_value()
template <typename T>
static async<void> coro_has_waiter(future<T> &f, Seen &s) {
    bool b = co_await f.has_value();
    s.kind = 4;
    s.datum = b;
    s.runs++;
    s.ready = is_ready_now(f);
    s.done = 1;
}

// callback awaiter: the context owns the awaiter node and deletes itself inside the callback, as a
// fire-and-forget continuation does; the resolver must not touch the node after calling resume()
template <typename T>
struct CbCtx {
    future<T> *f;
    Seen *s;
    co_awaiter<future<T>> aw;
    CbCtx(future<T> &fu, Seen &se) : f(&fu), s(&se), aw(fu) {}
    static suspend_point<void> fn(awaiter *, void *u) noexcept {
        auto *c = static_cast<CbCtx *>(u);
        read_into(*c->f, *c->s);
        delete c;
        return {};
    }
};

// async coroutine used as a resolver. The guard is a by-value parameter, so it lives in the coroutine frame and dies
// exactly when the frame is destroyed; its destructor records whether the bound future was ready at that moment
// (only for a coroutine whose body ran: a frame that lost the claim is destroyed unstarted by ~async)
struct FrameGuard {
    future_common *f;
    long *out;
    bool started = false;
    FrameGuard(future_common *fu, long *o) : f(fu), out(o) {}
    FrameGuard(FrameGuard &&o) : f(o.f), out(o.out), started(o.started) { o.out = nullptr; }
    FrameGuard(const FrameGuard &) = delete;
    ~FrameGuard() {
        if (out && started) *out = f->_awaiter.load() == &awaiter::disabled ? 1 : 0;
    }
};
template <typename T>
static async<T> async_resolver(FrameGuard g, long kind, long datum) {
    g.started = true;
    if (kind == 5) throw test_exc{datum};
    if constexpr (std::is_void_v<T>) co_return;
    else co_return traits<T>::make(datum);
}

// the factory of the call_fn waiter hands the promise to the harness: that is scenario set-up, not a step of the waiter,
// so the scheduler hooks are muted while it runs
struct MuteHooks {
    int saved;
    MuteHooks() : saved(ctl::Controller::tid()) { ctl::Controller::tid() = -1; }
    ~MuteHooks() { ctl::Controller::tid() = saved; }
};

// call_fn_future_awaiter waiter: the future under test is its internal future
template <typename T>
struct Consumer {
    Seen *s = nullptr;
    suspend_point<void> on_result(future<T> &f) noexcept {
        read_into(f, *s);
        return {};
    }
    call_fn_future_awaiter<&Consumer::on_result> awt;
    Consumer() : awt(*this) {}
};

// a coroutine that resolves by `co_await promise(value)` (suspend_point<bool>::await_suspend: pop + queue)
template <typename T>
static async<void> co_resolver(promise<T> *p, long d, long *res) {
    if constexpr (std::is_void_v<T>) {
        bool r = co_await (*p)();
        *res = r;
    } else {
        bool r = co_await (*p)(traits<T>::make(d));
        *res = r;
    }
}

template <typename T>
static void run_case(const vh::Case &cs) {
    struct Decl {
        int role;  // 1 resolver 2 waiter 3 dtor
        long kind, datum;
    };
    std::vector<Decl> decl;
    std::vector<long> sched;
    for (auto &op : cs.ops) {
        if (op.empty()) continue;
        if (op[0] == 1 && op.size() == 3 && op[1] >= 0 && op[1] <= 7) decl.push_back({1, op[1], op[2]});
        else if (op[0] == 2 && op.size() == 2 && op[1] >= 0 && op[1] <= 5) decl.push_back({2, op[1], 0});
        else if (op[0] == 9) sched.insert(sched.end(), op.begin() + 1, op.end());
    }
    decl.push_back({3, 0, 0});
    int n = (int)decl.size();
    long live0 = counted::live.load();
    {
        int callfn = -1;   // index of the call_fn waiter that owns the future under test
        for (int i = 0; i < n; i++)
            if (decl[i].role == 2 && decl[i].kind == 5 && callfn < 0) callfn = i;
        future<T> fut_own;
        std::unique_ptr<Consumer<T>> cons(callfn >= 0 ? new Consumer<T>() : nullptr);
        future<T> &fut = cons ? cons->awt._fut : fut_own;
        std::optional<promise<T>> prom;
        if (!cons) prom.emplace(fut_own.get_promise());
        std::vector<long> res(n, -1);
        std::vector<Seen> seen(n);
        std::vector<long> frame(n, -1);
        std::vector<long> trace(n, -1);
        std::atomic<int> resolvers_done{0};
        int nres = 0;
        for (auto &d : decl)
            if (d.role == 1) nres++;
        std::vector<std::function<void()>> fns;
        for (int i = 0; i < n; i++) {
            Decl d = decl[i];
            if (d.role == 1) {
                fns.push_back([&, i, d] {
                    switch (d.kind) {
                        case 0:
                            // "losers leave no trace" on the caller's side: a move-only argument is consumed, an instance
                            // of an instance-counted type is constructed (from the forwarded argument), only by the winner
                            if constexpr (std::is_same_v<T, std::unique_ptr<int>>) {
                                auto up = std::make_unique<int>((int)d.datum);
                                res[i] = (*prom)(std::move(up));
                                trace[i] = up ? 0 : 1;
                            } else if constexpr (std::is_same_v<T, counted>) {
                                long before = counted::t_made;
                                res[i] = (*prom)(d.datum);   // counted is built in place from the long
                                trace[i] = counted::t_made > before ? 1 : 0;
                            } else {
                                res[i] = traits<T>::set(*prom, d.datum);
                            }
                            break;
                        case 1: res[i] = (*prom)(std::make_exception_ptr(test_exc{d.datum})); break;
                        case 2: res[i] = (*prom)(drop); break;
                        case 3: {
                            bool got;
                            {
                                promise<T> p2(std::move(*prom));
                                got = (bool)p2;
                            }
                            res[i] = got;
                            break;
                        }
                        case 4:
                        case 5: res[i] = async_resolver<T>(FrameGuard(&fut, &frame[i]), d.kind, d.datum).start(*prom); break;
                        case 6: {
                            bool got = false;
                            try {
                                promise<T> p2(std::move(*prom));
                                got = (bool)p2;
                                throw 1;   // p2 is destroyed by stack unwinding
                            } catch (int) {
                            }
                            res[i] = got;
                            break;
                        }
                        case 7: co_resolver<T>(&*prom, d.datum, &res[i]).detach(); break;
                    }
                    resolvers_done++;
                });
            } else if (d.role == 3) {
                fns.push_back([&, i] {
                    ctl::block_until("xwait", [&] { return resolvers_done.load() == nres; });
                    bool own = (bool)*prom;
                    prom.reset();
                    res[i] = own;
                });
            } else {
                fns.push_back([&, i, d] {
                    switch (d.kind) {
                        case 0:
                            coro_waiter<T>(fut, seen[i]).detach();
                            seen[i].parked = !seen[i].done;
                            break;
                        case 4:
                            ctl::point("wstart");
                            coro_has_waiter<T>(fut, seen[i]).detach();
                            seen[i].parked = !seen[i].done;
                            break;
                        case 5:
                            if (i == callfn) {
                                cons->s = &seen[i];
                                cons->awt << [&] {
                                    MuteHooks mute;
                                    return future<T>([&](promise<T> x) { prom.emplace(std::move(x)); });
                                };
                                seen[i].parked = !seen[i].done;
                            } else {
                                auto *cb = new CbCtx<T>(fut, seen[i]);
                                if (!cb->aw.await_suspend(&CbCtx<T>::fn, cb)) {
                                    read_into(fut, seen[i]);
                                    delete cb;
                                } else {
                                    seen[i].parked = 1;
                                }
                            }
                            break;
                        case 1: {
                            fut.sync();
                            read_into(fut, seen[i]);
                            break;
                        }
                        case 2: {
                            auto *cb = new CbCtx<T>(fut, seen[i]);
                            if (cb->aw.await_ready() || !cb->aw.await_suspend(&CbCtx<T>::fn, cb)) {
                                read_into(fut, seen[i]);
                                delete cb;
                            } else {
                                seen[i].parked = 1;   // cb now belongs to the callback
                            }
                            break;
                        }
                        case 3: {
                            ctl::point("wstart");
                            bool b = fut.has_value();
                            seen[i].ready = is_ready_now(fut);
                            seen[i].runs++;
                            seen[i].done = 1;
                            seen[i].kind = 4;
                            seen[i].datum = b;
                            break;
                        }
                    }
                });
            }
        }
        ctl::Controller c;
        std::vector<int> order;   // the call_fn waiter creates the future and the promise in its init phase: it goes first
        if (callfn >= 0) {
            order.push_back(callfn);
            for (int i = 0; i < n; i++)
                if (i != callfn) order.push_back(i);
        }
        c.run(std::move(fns), sched, order);
        c.print_trace();
        for (int i = 0; i < n; i++) {
            if (decl[i].role == 2) {
                long parked = seen[i].parked;
                if (decl[i].kind == 1 || decl[i].kind == 3)   // sync(): it suspended iff it reached the flag wait
                    for (auto &p : c.trace)
                        if (p.first == i && p.second == ctl::point_code("flagwait")) parked = 1;
                vh::print_obs({(long)i, 2, seen[i].done, seen[i].kind, seen[i].datum, seen[i].runs, parked, seen[i].done ? seen[i].ready : 0});
            } else {
                vh::print_obs({(long)i, 1, res[i]});
            }
        }
        for (int i = 0; i < n; i++)
            if (trace[i] >= 0) vh::print_obs({12, (long)i, trace[i], 0});
        for (int i = 0; i < n; i++)
            if (frame[i] >= 0) vh::print_obs({11, (long)i, frame[i], 0});
        ctl::finish_case_or_restart(c);
        long ready = fut.ready();
        Seen fin;
        if (ready) read_into(fut, fin);
        vh::print_obs({9, ready, fin.kind, fin.datum});
    }
    vh::print_obs({10, counted::live.load() - live0, 0});
}

int main(int argc, char **argv) {
    if (argc < 2) return 2;
    for (auto &cs : vh::read_cases(argv[1])) {
        std::printf("CASE %s\n", cs.name.c_str());
        std::fflush(stdout);
        if (cs.engine == "cell_int") run_case<int>(cs);
        else if (cs.engine == "cell_void") run_case<void>(cs);
        else if (cs.engine == "cell_uptr") run_case<std::unique_ptr<int>>(cs);
        else if (cs.engine == "cell_ref") run_case<long &>(cs);
        else if (cs.engine == "cell_cnt") run_case<counted>(cs);
        std::printf("END\n");
        std::fflush(stdout);
    }
    return 0;
}
