// ctl_cell.cpp — controlled-schedule scenarios for one future/promise cell (C01, C02, C20 part).
// engines: cell_int cell_void cell_uptr cell_ref cell_cnt
#define VH_DEFINE_NEW
#include "ctl.h"
#define protected public
#define private public
#include <cocls/future.h>
#include <cocls/async.h>
#undef protected
#undef private

using namespace cocls;

struct test_exc {
    long code;
};

struct counted {
    static inline std::atomic<long> live{0};
    long v;
    counted(long x) : v(x) { live++; }
    counted(const counted &o) : v(o.v) { live++; }
    counted(counted &&o) : v(o.v) { live++; }
    ~counted() { live--; }
};

template <typename T>
struct traits;
template <>
struct traits<int> {
    static bool set(promise<int> &p, long v) { return p((int)v); }
    static long get(int &x) { return x; }
};
template <>
struct traits<void> {
    static bool set(promise<void> &p, long) { return p(); }
};
template <>
struct traits<std::unique_ptr<int>> {
    static bool set(promise<std::unique_ptr<int>> &p, long v) { return p(std::make_unique<int>((int)v)); }
    static long get(std::unique_ptr<int> &x) { return x ? *x : -12345; }
};
static long g_refcells[64];
template <>
struct traits<long &> {
    static bool set(promise<long &> &p, long v) {
        static std::atomic<int> n{0};
        long &cell = g_refcells[n++ % 64];
        cell = v;
        return p(cell);
    }
    static long get(long &x) { return x; }
};
template <>
struct traits<counted> {
    static bool set(promise<counted> &p, long v) { return p(counted(v)); }
    static long get(counted &x) { return x.v; }
};

struct Seen {
    long done = 0, kind = 0, datum = 0, runs = 0;
};

template <typename T>
static void read_into(future<T> &f, Seen &s) {
    s.runs++;
    try {
        if constexpr (std::is_void_v<T>) {
            f.value();
            s.kind = 1;
            s.datum = 0;
        } else {
            s.datum = traits<T>::get(f.value());
            s.kind = 1;
        }
    } catch (const await_canceled_exception &) {
        s.kind = 0;
        s.datum = 0;
    } catch (const test_exc &e) {
        s.kind = 2;
        s.datum = e.code;
    } catch (const value_not_ready_exception &) {
        s.kind = 7;
        s.datum = 0;
    }
    s.done = 1;
}

template <typename T>
static async<void> coro_waiter(future<T> &f, Seen &s) {
    try {
        if constexpr (std::is_void_v<T>) {
            co_await f;
            s.kind = 1;
        } else {
            auto &r = co_await f;
            s.datum = traits<T>::get(r);
            s.kind = 1;
        }
    } catch (const await_canceled_exception &) {
        s.kind = 0;
    } catch (const test_exc &e) {
        s.kind = 2;
        s.datum = e.code;
    } catch (const value_not_ready_exception &) {
        s.kind = 7;
    }
    s.runs++;
    s.done = 1;
}

template <typename T>
struct CbCtx {
    future<T> *f;
    Seen *s;
    co_awaiter<future<T>> aw;
    CbCtx(future<T> &fu, Seen &se) : f(&fu), s(&se), aw(fu) {}
    static suspend_point<void> fn(awaiter *, void *u) noexcept {
        auto *c = static_cast<CbCtx *>(u);
        read_into(*c->f, *c->s);
        return {};
    }
};

template <typename T>
static void run_case(const vh::Case &cs) {
    struct Decl {
        int role;  // 1 resolver 2 waiter 3 dtor
        long kind, datum;
    };
    std::vector<Decl> decl;
    std::vector<long> sched;
    for (auto &op : cs.ops) {
        if (op.empty()) continue;
        if (op[0] == 1 && op.size() == 3 && op[1] >= 0 && op[1] <= 3) decl.push_back({1, op[1], op[2]});
        else if (op[0] == 2 && op.size() == 2 && op[1] >= 0 && op[1] <= 3) decl.push_back({2, op[1], 0});
        else if (op[0] == 9) sched.insert(sched.end(), op.begin() + 1, op.end());
    }
    decl.push_back({3, 0, 0});
    int n = (int)decl.size();
    long live0 = counted::live.load();
    {
        future<T> fut;
        std::optional<promise<T>> prom(fut.get_promise());
        std::vector<long> res(n, -1);
        std::vector<Seen> seen(n);
        std::vector<std::unique_ptr<CbCtx<T>>> cbs(n);
        std::atomic<int> resolvers_done{0};
        int nres = 0;
        for (auto &d : decl)
            if (d.role == 1) nres++;
        std::vector<std::function<void()>> fns;
        for (int i = 0; i < n; i++) {
            Decl d = decl[i];
            if (d.role == 1) {
                fns.push_back([&, i, d] {
                    switch (d.kind) {
                        case 0: res[i] = traits<T>::set(*prom, d.datum); break;
                        case 1: res[i] = (*prom)(std::make_exception_ptr(test_exc{d.datum})); break;
                        case 2: res[i] = (*prom)(drop); break;
                        case 3: {
                            bool got;
                            {
                                promise<T> p2(std::move(*prom));
                                got = (bool)p2;
                            }
                            res[i] = got;
                            break;
                        }
                    }
                    resolvers_done++;
                });
            } else if (d.role == 3) {
                fns.push_back([&, i] {
                    ctl::block_until("xwait", [&] { return resolvers_done.load() == nres; });
                    bool own = (bool)*prom;
                    prom.reset();
                    res[i] = own;
                });
            } else {
                fns.push_back([&, i, d] {
                    switch (d.kind) {
                        case 0: coro_waiter<T>(fut, seen[i]).detach(); break;
                        case 1: {
                            fut.sync();
                            read_into(fut, seen[i]);
                            break;
                        }
                        case 2: {
                            cbs[i].reset(new CbCtx<T>(fut, seen[i]));
                            if (cbs[i]->aw.await_ready() || !cbs[i]->aw.await_suspend(&CbCtx<T>::fn, cbs[i].get()))
                                read_into(fut, seen[i]);
                            break;
                        }
                        case 3: {
                            bool b = fut.has_value();
                            seen[i].runs++;
                            seen[i].done = 1;
                            seen[i].kind = 4;
                            seen[i].datum = b;
                            break;
                        }
                    }
                });
            }
        }
        ctl::Controller c;
        c.run(std::move(fns), sched);
        c.print_trace();
        for (int i = 0; i < n; i++) {
            if (decl[i].role == 2) {
                vh::print_obs({(long)i, 2, seen[i].done, seen[i].kind, seen[i].datum, seen[i].runs});
            } else {
                vh::print_obs({(long)i, 1, res[i]});
            }
        }
        ctl::finish_case_or_restart(c);
        long ready = fut.ready();
        Seen fin;
        if (ready) read_into(fut, fin);
        vh::print_obs({9, ready, fin.kind, fin.datum});
    }
    vh::print_obs({10, counted::live.load() - live0, 0});
}

int main(int argc, char **argv) {
    if (argc < 2) return 2;
    for (auto &cs : vh::read_cases(argv[1])) {
        std::printf("CASE %s\n", cs.name.c_str());
        std::fflush(stdout);
        if (cs.engine == "cell_int") run_case<int>(cs);
        else if (cs.engine == "cell_void") run_case<void>(cs);
        else if (cs.engine == "cell_uptr") run_case<std::unique_ptr<int>>(cs);
        else if (cs.engine == "cell_ref") run_case<long &>(cs);
        else if (cs.engine == "cell_cnt") run_case<counted>(cs);
        std::printf("END\n");
        std::fflush(stdout);
    }
    return 0;
}
