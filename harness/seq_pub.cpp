// seq_pub.cpp — sequential differential driver for cocls::publisher<pint> / cocls::subscriber<pint> (C16; pint = poisoning int).
// engine: pub.  First line of a case: "<min> <max>" (max 0 = unlimited).  subscriber::next() is driven through its
// awaiter's public steps await_ready / subscribe|await_suspend / await_resume, one op each, so the window between
// the locked steps is reachable deterministically.  Wake-ups are observed by custom awaiters that log their id when
// resumed (and whether the queue's mutex was free at that moment).  No expected values in here.
#define VH_DEFINE_NEW
#include "common.h"
#include "pub_common.h"
#define protected public
#define private public
#include <cocls/publisher.h>
#undef protected
#undef private

using namespace cocls;
using pub_t = publisher<pint>;
using sub_t = subscriber<pint>;

struct Ctx;

// events reported by the guarded LOG hooks of queue::advance / advance_suspend / get_value (called inside the
// critical section): which locked step ran, and the subscriber's position just before it
struct Ev {
    int kind;   // 0 advance, 1 advance_suspend, 2 get_value
    long handle, pos_before;
};
static std::mutex g_ev_mx;
static std::vector<Ev> g_events;
static void on_log(const char *id, long a, long b) {
    int k = !std::strcmp(id, "pub_adv") ? 0 : !std::strcmp(id, "pub_sus") ? 1 : !std::strcmp(id, "pub_get") ? 2 : -1;
    if (k < 0) return;
    std::lock_guard _(g_ev_mx);
    g_events.push_back({k, a, b});
}

// a blocking next() runs on a helper thread; the guarded BLOCK hook in co_awaiter::sync() parks it under the
// harness's control until op 14 lets it return (only once its wait would return anyway)
struct Helper {
    std::thread th;
    std::mutex mx;
    std::condition_variable cv;
    enum St { Running, Parked, Released, Done } st = Running;
    bool (*pred)(void *) = nullptr;
    void *pctx = nullptr;
    bool ret = false;
    long id = 0;
    bool woken_reported = false;
    bool wait_returns() { return pred && pred(pctx); }
};
static thread_local Helper *t_helper = nullptr;
static void on_block(const char *, bool (*pred)(void *), void *ctx) {
    Helper *h = t_helper;
    if (!h) return;
    std::unique_lock lk(h->mx);
    h->pred = pred;
    h->pctx = ctx;
    h->st = Helper::Parked;
    h->cv.notify_all();
    h->cv.wait(lk, [&] { return h->st == Helper::Released; });
}

struct WakeRec : awaiter {
    long id;
    Ctx *ctx;
};

struct Ctx {
    std::optional<pub_t> pub;
    std::shared_ptr<pub_t::queue> q;   // diagnostics only (lock probe, UB guard)
    // subscriber objects live in never-reused raw storage so that a destroyed subscriber's address (the identity
    // publisher::kick takes) is not handed to a later subscriber
    struct Slot {
        std::unique_ptr<unsigned char[]> mem;
        sub_t *p = nullptr;
        bool live = false;
    };
    std::map<long, Slot> subs;
    std::vector<std::unique_ptr<WakeRec>> recs;
    std::vector<std::unique_ptr<sub_t::next_awt>> held;   // next_awt objects registered through await_suspend(fn,ctx)
    std::vector<long> woken;
    long nawt = 0;
    std::map<long, std::unique_ptr<Helper>> helpers;   // subscriber id -> its parked blocking call

    // blocked helper threads whose wait would return now have been woken by the op just executed
    void collect_blocked_wakes() {
        for (auto &kv : helpers) {
            Helper &h = *kv.second;
            if (!h.woken_reported && h.wait_returns()) {
                h.woken_reported = true;
                woken.push_back(h.id);
            }
        }
    }
    // free = live and no helper thread parked inside a blocking next() on it
    sub_t *free_sub(long s) { return helpers.count(s) ? nullptr : live(s); }

    Slot *find(long s) {
        auto it = subs.find(s);
        return it == subs.end() ? nullptr : &it->second;
    }
    sub_t *live(long s) {
        Slot *x = find(s);
        return (x && x->live) ? x->p : nullptr;
    }
    void *fresh(long s) {
        Slot &x = subs[s];
        x.mem.reset(new unsigned char[sizeof(sub_t) + alignof(sub_t)]);
        void *p = x.mem.get();
        std::size_t sp = sizeof(sub_t) + alignof(sub_t);
        return std::align(alignof(sub_t), sizeof(sub_t), p, sp);
    }
    void note_resumed(long id) {
        // resumed outside the lock?  (try_lock from the thread that owns a std::mutex is formally undefined, in
        // glibc it fails with EBUSY; the unmodified library never resumes under the lock)
        bool free_ = q->_mx.try_lock();
        if (free_) q->_mx.unlock();
        woken.push_back(free_ ? id : id + 1000000);
    }
    // end of case: let parked helper threads go (not observed): kick their subscribers, release, join.  If a helper
    // cannot be woken (a defect the trace has already shown) the process cannot clean up: finish the case and ask the
    // runner for a restart (exit code 42)
    void release_helpers() {
        for (auto &kv : helpers) {
            Helper &h = *kv.second;
            if (!h.wait_returns()) q->kick(subs[kv.first].p);
            if (!h.wait_returns()) {
                std::printf("END\n");
                std::fflush(stdout);
                std::_Exit(42);
            }
        }
    }
    ~Ctx() {
        for (auto &kv : helpers) {
            Helper &h = *kv.second;
            {
                std::lock_guard _(h.mx);
                h.st = Helper::Released;
            }
            h.cv.notify_all();
            h.th.join();
        }
        helpers.clear();
        for (auto &kv : subs)
            if (kv.second.live) kv.second.p->~sub_t();
    }
};

static suspend_point<void> on_resume_rec(awaiter *me, void *) noexcept {
    auto *r = static_cast<WakeRec *>(me);
    r->ctx->note_resumed(r->id);
    return {};
}
struct FnCtx {
    long id;
    Ctx *ctx;
};
static suspend_point<void> on_resume_fn(awaiter *, void *user) noexcept {
    auto *f = static_cast<FnCtx *>(user);
    f->ctx->note_resumed(f->id);
    return {};
}

static void emit(Ctx &c, long st, long a, long b, long d) {
    c.collect_blocked_wakes();
    std::vector<long> v{st, a, b, d};
    for (long x : c.woken) v.push_back(x);
    c.woken.clear();
    vh::print_obs(v);
}
static void reject(Ctx &c) {
    c.woken.clear();
    emit(c, 1, 0, 0, 0);
}
static subscribtion_type mode_of(long t) {
    return t == 1 ? subscribtion_type::skip_if_behind : t == 2 ? subscribtion_type::skip_to_recent
                                                               : subscribtion_type::all_values;
}
static bool small(long s) { return s >= 0 && s < 1000000; }

static void exec(Ctx &c, const std::vector<long> &op, std::vector<std::unique_ptr<FnCtx>> &fns) {
    if (op.empty()) return reject(c);
    const size_t n = op.size();
    switch (op[0]) {
        case 0: {  // publish v
            if (n != 2 || !c.pub) return reject(c);
            if (op[1] & 1) c.pub->publish(pint((int)op[1]));   // push(T&&)
            else { const pint v((int)op[1]); c.pub->publish(v); }   // push(const T&)
            return emit(c, 0, 0, 0, 0);
        }
        case 1: {  // publish batch
            if (!c.pub) return reject(c);
            std::vector<pint> vs;
            for (size_t i = 1; i < n; i++) vs.push_back(pint((int)op[i]));
            c.pub->publish(vs.begin(), vs.end());
            return emit(c, 0, 0, 0, 0);
        }
        case 2: {  // subscriber(pub, t)
            if (n != 3 || !small(op[1]) || c.find(op[1]) || op[2] < 0 || op[2] > 2 || !c.pub) return reject(c);
            void *mem = c.fresh(op[1]);
            Ctx::Slot &x = c.subs[op[1]];
            x.p = new (mem) sub_t(*c.pub, mode_of(op[2]));
            x.live = true;
            return emit(c, 0, (long)x.p->_h, (long)x.p->position(), 0);
        }
        case 3: {  // subscriber(pub, pos, t)
            if (n != 4 || !small(op[1]) || c.find(op[1]) || op[2] < 0 || op[2] > 2 || !c.pub || op[3] < 0 ||
                op[3] >= (1L << 62))
                return reject(c);
            void *mem = c.fresh(op[1]);
            Ctx::Slot &x = c.subs[op[1]];
            x.p = new (mem) sub_t(*c.pub, (std::size_t)op[3], mode_of(op[2]));
            x.live = true;
            return emit(c, 0, (long)x.p->_h, (long)x.p->position(), 0);
        }
        case 4: {  // subscriber(const subscriber &src)
            if (n != 3 || !small(op[1]) || !small(op[2]) || c.find(op[1])) return reject(c);
            sub_t *src = c.live(op[2]);
            if (!src) return reject(c);
            void *mem = c.fresh(op[1]);
            Ctx::Slot &x = c.subs[op[1]];
            x.p = new (mem) sub_t(*src);
            x.live = true;
            return emit(c, 0, (long)x.p->_h, (long)x.p->position(), 0);
        }
        case 5: {  // next().await_ready()
            sub_t *s = (n == 2 && small(op[1])) ? c.free_sub(op[1]) : nullptr;
            if (!s) return reject(c);
            bool r = s->next().await_ready();
            return emit(c, 0, r, (long)s->position(), 0);
        }
        case 6: {  // next().subscribe(awaiter) / next().await_suspend(fn, ctx)
            sub_t *s = (n == 2 && small(op[1])) ? c.free_sub(op[1]) : nullptr;
            if (!s) return reject(c);
            long id = c.nawt++;
            bool r;
            if (id % 2 == 0) {
                auto rec = std::make_unique<WakeRec>();
                rec->set_resume_fn(&on_resume_rec, nullptr);
                rec->id = id;
                rec->ctx = &c;
                auto awt = s->next();
                r = awt.subscribe(rec.get());
                c.recs.push_back(std::move(rec));
            } else {
                fns.push_back(std::make_unique<FnCtx>(FnCtx{id, &c}));
                c.held.push_back(std::make_unique<sub_t::next_awt>(s->next()));
                r = c.held.back()->await_suspend(&on_resume_fn, fns.back().get());
            }
            return emit(c, 0, r, (long)s->position(), id);
        }
        case 7: {  // next().await_resume()
            sub_t *s = (n == 2 && small(op[1])) ? c.free_sub(op[1]) : nullptr;
            if (!s) return reject(c);
            // guard: in the skipping modes get_value_lk indexes the deque without a bounds test; on an empty deque
            // that is undefined behaviour, which the model reports as -999 (the generator avoids it)
            {
                auto &l = c.q->_regs[s->_h];
                if (s->_t != subscribtion_type::all_values && !l._kicked && l._pos < c.q->_pos && c.q->_q.empty()) {
                    c.woken.clear();
                    return emit(c, -999, 0, 0, 0);
                }
            }
            bool r = s->next().await_resume();
            return emit(c, 0, r, r ? (long)(int)s->value() : 0, (long)s->position());
        }
        case 8: {  // kick
            if (n != 2 || !small(op[1])) return reject(c);
            Ctx::Slot *x = c.find(op[1]);
            if (!x) return reject(c);
            if (c.pub) c.pub->kick(x->p);
            else if (x->live) x->p->kick_me();
            else return reject(c);
            return emit(c, 0, 0, 0, 0);
        }
        case 9: {  // ~subscriber
            if (n != 2 || !small(op[1])) return reject(c);
            Ctx::Slot *x = c.find(op[1]);
            if (!x || !x->live || c.helpers.count(op[1])) return reject(c);
            // a subscriber destroyed while an awaiter of it is parked: the awaiter goes away with it (as the frame of a
            // destroyed coroutine would); a later resume of it is a use after free
            {
                awaiter *a = c.q->_regs[x->p->_h]._awt;
                if (a) {
                    for (auto &r : c.recs)
                        if (r.get() == a) r.reset();
                    for (auto &hh : c.held)
                        if (static_cast<awaiter *>(hh.get()) == a) hh.reset();
                }
            }
            x->p->~sub_t();
            x->live = false;
            return emit(c, 0, 0, 0, 0);
        }
        case 10: {  // close
            if (n != 1 || !c.pub) return reject(c);
            c.pub->close();
            return emit(c, 0, 0, 0, 0);
        }
        case 11: {  // position
            sub_t *s = (n == 2 && small(op[1])) ? c.live(op[1]) : nullptr;
            if (!s) return reject(c);
            return emit(c, 0, (long)s->position(), 0, 0);
        }
        case 12: {  // ~publisher
            if (n != 1 || !c.pub) return reject(c);
            c.pub.reset();
            return emit(c, 0, 0, 0, 0);
        }
        case 13: {  // bool(next()) (even awaiter id) / begin() != end() (odd awaiter id) on a helper thread
            sub_t *s = (n == 2 && small(op[1])) ? c.free_sub(op[1]) : nullptr;
            if (!s) return reject(c);
            long id = c.nawt++;
            {
                std::lock_guard _(g_ev_mx);
                g_events.clear();
            }
            auto h = std::make_unique<Helper>();
            Helper *hp = h.get();
            hp->id = id;
            hp->th = std::thread([hp, s, id] {
                t_helper = hp;
                bool r = (id % 2 == 0) ? (bool)s->next() : (s->begin() != s->end());
                std::lock_guard _(hp->mx);
                hp->ret = r;
                hp->st = Helper::Done;
                hp->cv.notify_all();
            });
            bool parked;
            {
                std::unique_lock lk(hp->mx);
                hp->cv.wait(lk, [&] { return hp->st == Helper::Parked || hp->st == Helper::Done; });
                parked = hp->st == Helper::Parked;
            }
            std::vector<Ev> evs;
            {
                std::lock_guard _(g_ev_mx);
                for (auto &e : g_events)
                    if (e.kind != 2) evs.push_back(e);
            }
            long cur = (long)c.q->_regs[s->_h]._pos;   // the helper is parked or done: nobody holds the lock
            // position after the last advance step = position before the get step if there was one
            {
                std::lock_guard _(g_ev_mx);
                for (size_t i = 0; i < g_events.size(); i++)
                    if (g_events[i].kind == 2) { cur = g_events[i].pos_before; break; }
            }
            for (size_t i = 0; i < evs.size(); i++) {
                bool last = i + 1 == evs.size();
                long pos = last ? cur : evs[i + 1].pos_before;
                long res = last ? (evs[i].kind == 0 ? 1 : (parked ? 1 : 0)) : 0;
                emit(c, 0, res, pos, evs[i].kind == 1 ? id : 0);
            }
            if (parked) {
                c.helpers[op[1]] = std::move(h);
            } else {
                hp->th.join();
                bool r = hp->ret;
                emit(c, 0, r, r ? (s->_val.has_value() ? (long)(int)*s->_val : -1) : 0, (long)s->position());
            }
            return;
        }
        case 14: {  // let the parked blocking call of subscriber s return
            if (n != 2 || !small(op[1])) return reject(c);
            auto it = c.helpers.find(op[1]);
            if (it == c.helpers.end() || !it->second->wait_returns()) return reject(c);
            Helper &h = *it->second;
            sub_t *s = c.live(op[1]);
            {
                std::lock_guard _(h.mx);
                h.st = Helper::Released;
            }
            h.cv.notify_all();
            h.th.join();
            bool r = h.ret;
            c.helpers.erase(it);
            return emit(c, 0, r, r ? (s->_val.has_value() ? (long)(int)*s->_val : -1) : 0, (long)s->position());
        }
        case 15: {  // next_ready()
            sub_t *s = (n == 2 && small(op[1])) ? c.free_sub(op[1]) : nullptr;
            if (!s) return reject(c);
            {
                std::lock_guard _(g_ev_mx);
                g_events.clear();
            }
            // guard as for op 7 (the model reports -999 for the get step)
            bool r = s->next_ready();
            bool got = false;
            long pos_after_ready = (long)s->position();
            {
                std::lock_guard _(g_ev_mx);
                for (auto &e : g_events)
                    if (e.kind == 2) { got = true; pos_after_ready = e.pos_before; }
            }
            emit(c, 0, got, pos_after_ready, 0);
            if (got) emit(c, 0, r, r ? (long)(int)s->value() : 0, (long)s->position());
            return;
        }
        default:
            return reject(c);
    }
}

static void run_one(const vh::Case &cs) {
    std::printf("CASE %s\n", cs.name.c_str());
    std::fflush(stdout);
    {
        std::vector<std::unique_ptr<FnCtx>> fns;
        Ctx c;
        bool cfg_ok = !cs.ops.empty() && cs.ops[0].size() == 2;
        long mn = 0, mx = 0;
        if (cfg_ok) {
            mn = cs.ops[0][0];
            mx = cs.ops[0][1];
            cfg_ok = mn >= 1 && (mx == 0 || mx >= mn);
        }
        if (!cfg_ok) {
            for (size_t i = 0; i < cs.ops.size(); i++) reject(c);
        } else {
            if (mn == 1 && mx == 0) c.pub.emplace();
            else c.pub.emplace(mx == 0 ? std::numeric_limits<std::size_t>::max() : (std::size_t)mx, (std::size_t)mn);
            c.q = c.pub->get_queue();
            emit(c, 0, mn, mx, 0);
            for (size_t i = 1; i < cs.ops.size(); i++) exec(c, cs.ops[i], fns);
            c.release_helpers();
        }
    }
    std::printf("END\n");
    std::fflush(stdout);
}

int main(int argc, char **argv) {
    if (argc < 2) return 2;
    cocls::verif::get_hooks().log = &on_log;
    cocls::verif::get_hooks().block = &on_block;
    // the case file is streamed (the thorough tier has millions of cases): one case is read, run and answered at a time
    std::ifstream in(argv[1]);
    std::string line;
    vh::Case cs;
    bool open = false;
    while (std::getline(in, line)) {
        if (line.empty()) continue;
        if (!open) {
            std::istringstream ss(line);
            std::string kw;
            ss >> kw;
            if (kw != "CASE") continue;
            cs = vh::Case();
            ss >> cs.engine >> cs.name;
            open = true;
            continue;
        }
        if (line != "END") {
            std::istringstream ss(line);
            std::vector<long> v;
            long x;
            while (ss >> x) v.push_back(x);
            cs.ops.push_back(v);
            continue;
        }
        open = false;
        run_one(cs);
    }
    return 0;
}
