// seq_async_deep.cpp — the same scenarios as seq_async.cpp, built WITHOUT sanitizers at -O2 (its own PART): co_await chains
// hundreds of thousands deep must not consume native stack (symmetric transfer).
#include "seq_async.cpp"
