// pub_common.h — shared by the publisher harnesses (C16).
#pragma once
// the published value type: an int whose destructor poisons the storage, so that reading an element the queue has
// already destroyed (an index one past the retained window) shows up as a wrong value instead of going unnoticed
struct pint {
    int v;
    pint(int x = 0) : v(x) {}
    pint(const pint &o) : v(o.v) {}
    pint &operator=(const pint &o) {
        v = o.v;
        return *this;
    }
    ~pint() { *(volatile int *)&v = -777777; }
    operator int() const { return v; }
};
