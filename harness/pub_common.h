// pub_common.h — shared by the publisher harnesses (C16).
#pragma once
// the published value type: an int whose destructor and whose moves poison the storage they leave behind, so that reading
// an element the queue has already destroyed (an index one past the retained window) or moved out of shows up as a wrong
// value instead of going unnoticed
struct pint {
    int v;
    pint(int x = 0) : v(x) {}
    pint(const pint &o) : v(o.v) {}
    pint &operator=(const pint &o) {
        v = o.v;
        return *this;
    }
    // a move is destructive (as for std::string): the source is left poisoned, so a queue element that was moved out
    // instead of copied is seen by the next reader of the same position
    pint(pint &&o) noexcept : v(o.v) { *(volatile int *)&o.v = -888888; }
    pint &operator=(pint &&o) noexcept {
        v = o.v;
        *(volatile int *)&o.v = -888888;
        return *this;
    }
    ~pint() { *(volatile int *)&v = -777777; }
    operator int() const { return v; }
};
