// xalloc_mutex.cpp — C20 cross-check over the C07/C08 scenarios (see xalloc.h). engine alxm
#include "xalloc.h"
#define main ctl_mutex_main
#include "ctl_mutex.cpp"
#undef main
#undef run
int main(int argc, char **argv) {
    if (argc < 2) return 2;
    for (auto &cs : vh::read_cases(argv[1])) vh::xc_case(cs, [&] { run_case(cs); });
    return 0;
}
