// seq_aw.cpp — RE-USED awaiter objects (C02, part seq_aw): one awaiter object waits several times in sequence on
// several futures, already resolved or pending.  engines: aw_int aw_void aw_uptr aw_ref aw_cnt
//   awaiters 0,1: hand-written cocls::awaiter(fn, ctx), subscribed with f.operator co_await().subscribe(&awt);
//                 when refused the owner calls awt.resume() itself (the documented protocol)
//   awaiters 2,3: cocls::call_fn_future_awaiter (awt << fn), their internal futures are cells 3,4
//   cells 0..2  : external futures, each with a promise held by the harness
// ops (one line per op; -1 rejected):
//   20 a c      awaiter a waits on future c          -> 1 (parked) | 0 a kind datum (was resolved: callback ran now)
//   21 b m v    call_fn awaiter b: awt << (m=1: future::set_value(v) | m=0: pending future)   -> same
//   22 c k d    the promise of future c is called (k: 0 value d, 1 exception d, 2 drop) -> ret (awaiter kind datum)*
//   23 c m v    external future c destroyed and re-created (m=1 resolved with v | m=0 pending)  -> 0
//   24 c        state of future c: 0 pending | 1 kind datum
// At the end every future is dropped through its promise (same lines) and the external ones are read.
#define VH_DEFINE_NEW
#include "common.h"
#include <optional>
#define protected public
#define private public
#include <cocls/future.h>
#include <cocls/async.h>
#undef protected
#undef private

using namespace cocls;
#include "cell_types.h"

static const long NAM = 2, NAB = 2, NCX = 3;

struct Rd {
    long kind = 0, datum = 0;
};
template <typename T>
static Rd read_fut(future<T> &f) {
    Rd r;
    try {
        if constexpr (std::is_void_v<T>) {
            f.value();
            r.kind = 1;
        } else {
            r.datum = traits<T>::get(f.value());
            r.kind = 1;
        }
    } catch (const await_canceled_exception &) {
        r.kind = 0;
    } catch (const test_exc &e) {
        r.kind = 2;
        r.datum = e.code;
    } catch (const value_not_ready_exception &) {
        r.kind = 7;
    }
    return r;
}

static std::vector<long> g_log;

template <typename T>
struct Manual {
    future<T> *f = nullptr;
    long id = 0;
    bool linked = false;
    awaiter awt;
    Manual() : awt(&Manual::fn, this) {}
    static suspend_point<void> fn(awaiter *, void *u) noexcept {
        auto *m = static_cast<Manual *>(u);
        m->linked = false;
        Rd r = read_fut(*m->f);
        g_log.insert(g_log.end(), {m->id, r.kind, r.datum});
        return {};
    }
};

template <typename T>
struct Consumer {
    long id = 0;
    bool linked = false;
    suspend_point<void> on_result(future<T> &f) noexcept {
        linked = false;
        Rd r = read_fut(f);
        g_log.insert(g_log.end(), {id, r.kind, r.datum});
        return {};
    }
    call_fn_future_awaiter<&Consumer::on_result> awt;
    Consumer() : awt(*this) {}
};

template <typename T>
static void run_case(const vh::Case &cs) {
    long live0 = counted::live.load();
    {
        std::optional<future<T>> F[NCX];
        promise<T> PR[NCX + NAB];
        Manual<T> M[NAM];
        // the call_fn awaiters are heap objects that are leaked when their internal future is left pending by a defect
        // (destroying a pending future aborts); on the unchanged library they are always released
        Consumer<T> *C[NAB];
        for (long b = 0; b < NAB; b++) {
            C[b] = new Consumer<T>();
            C[b]->id = NAM + b;
        }
        for (long a = 0; a < NAM; a++) M[a].id = a;
        for (long c = 0; c < NCX; c++) {
            F[c].emplace();
            PR[c] = F[c]->get_promise();
        }
        auto idx = [](long i, long n) { return i >= 0 && i < n; };
        auto rej = [&] { g_log.clear(); vh::print_obs({-1}); };
        auto emit = [&](long first) {
            std::vector<long> v{first};
            v.insert(v.end(), g_log.begin(), g_log.end());
            g_log.clear();
            vh::print_obs(v);
        };
        auto call = [&](promise<T> &p, long k, long d) -> bool {
            if (k == 0) return traits<T>::set(p, d);
            if (k == 1) return p(std::make_exception_ptr(test_exc{d}));
            return p(drop);
        };
        auto step = [&](const std::vector<long> &op) {
            g_log.clear();
            size_t n = op.size();
            long k = n ? op[0] : -1;
            if (k == 20 && n == 3) {
                long a = op[1], c = op[2];
                if (!idx(a, NAM) || !idx(c, NCX) || M[a].linked) return rej();
                M[a].f = &*F[c];
                M[a].linked = true;
                if (!F[c]->operator co_await().subscribe(&M[a].awt)) {
                    M[a].awt.resume();
                    return emit(0);
                }
                return emit(1);
            }
            if (k == 21 && n == 4) {
                long b = op[1], m = op[2], v = op[3];
                if (!idx(b, NAB) || (m != 0 && m != 1) || C[b]->linked || C[b]->awt._fut.pending()) return rej();
                size_t before = g_log.size();
                C[b]->linked = true;
                if (m == 1) {
                    C[b]->awt << [&] {
                        if constexpr (std::is_void_v<T>) return future<T>::set_value();
                        else if constexpr (std::is_reference_v<T>) return future<T>::set_value(traits<T>::make(v));
                        else return future<T>::set_value(traits<T>::make(v));
                    };
                } else {
                    C[b]->awt << [&] { return future<T>([&](promise<T> x) { PR[NCX + b] = std::move(x); }); };
                }
                return emit(g_log.size() > before ? 0 : 1);
            }
            if (k == 22 && n == 4) {
                long c = op[1];
                if (!idx(c, NCX + NAB) || op[2] < 0 || op[2] > 2) return rej();
                bool r = call(PR[c], op[2], op[3]);
                return emit(r);
            }
            if (k == 23 && n == 4) {
                long c = op[1], m = op[2], v = op[3];
                if (!idx(c, NCX) || (m != 0 && m != 1) || F[c]->pending()) return rej();
                F[c].reset();
                F[c].emplace();
                if (m == 1) {
                    *F[c] << [&] {
                        if constexpr (std::is_void_v<T>) return future<T>::set_value();
                        else return future<T>::set_value(traits<T>::make(v));
                    };
                    PR[c] = promise<T>();
                } else {
                    PR[c] = F[c]->get_promise();
                }
                return emit(0);
            }
            if (k == 24 && n == 2) {
                long c = op[1];
                if (!idx(c, NCX + NAB)) return rej();
                future<T> &f = c < NCX ? *F[c] : C[c - NCX]->awt._fut;
                if (f.pending()) return vh::print_obs({0});
                Rd r = read_fut(f);
                return vh::print_obs({1, r.kind, r.datum});
            }
            rej();
        };
        for (auto &op : cs.ops) step(op);
        for (long c = 0; c < NCX + NAB; c++) step({22, c, 2, 0});
        for (long c = 0; c < NCX; c++) step({24, c});
        for (long b = 0; b < NAB; b++)
            if (!C[b]->awt._fut.pending()) delete C[b];
    }
    vh::print_obs({10, counted::live.load() - live0, 0});
}

int main(int argc, char **argv) {
    if (argc < 2) return 2;
    for (auto &cs : vh::read_cases(argv[1])) {
        std::printf("CASE %s\n", cs.name.c_str());
        std::fflush(stdout);
        if (cs.engine == "aw_int") run_case<int>(cs);
        else if (cs.engine == "aw_void") run_case<void>(cs);
        else if (cs.engine == "aw_uptr") run_case<std::unique_ptr<int>>(cs);
        else if (cs.engine == "aw_ref") run_case<long &>(cs);
        else if (cs.engine == "aw_cnt") run_case<counted>(cs);
        std::printf("END\n");
        std::fflush(stdout);
    }
    return 0;
}
