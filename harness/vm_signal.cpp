// vm_signal.cpp — scripted-coroutine driver for cocls::signal<T> (C15).
// engines: sgn_i / sgn_v  ops issued from ordinary code        (signal<Val> / signal<void>)
//          sgc_i / sgc_v  ops issued by a coroutine running under the thread's ready queue
// ops (see coq/SignalDefs.v decode):
//   0 id limit pause retry   spawn a listener coroutine
//   1 id limit               connect a callback
//   2 kind awaited v         call the collector (kind 0 args, 1 rvalue, 2 lvalue reference; awaited: co_await the result)
//   3                        copy a strong handle        4  drop a strong handle       5  co_await pause()
//   6 kind v                 call the collector and keep the returned suspend point     7  destroy the oldest kept one
//   8                        co_await the oldest kept suspend point
//   9 id limit pause retry keep [n]   (first op only) listener awaiting signal<T>::hook_up(fn); fn calls the collector n times
//                                  (values 901..) from inside the registration call, then keeps / drops the collector
// observation: status ret news deletes {event-kind id value}*
#define VH_DEFINE_NEW
#include "common.h"
#define protected public
#define private public
#include <cocls/signal.h>
#undef protected
#undef private

using namespace cocls;

// value type with a poisoning destructor: a read after destruction / after move is visible
struct Val {
    long v;
    Val(long x) : v(x) {}
    Val(const Val &o) : v(o.v) {}
    Val(Val &&o) : v(o.v) { *(volatile long *)&o.v = -555; }
    Val &operator=(const Val &o) = default;
    ~Val() { *(volatile long *)&v = -777; }
};

struct Log {
    std::vector<long> ev;
    void add(long k, long id, long v) {
        bool saved = vh::t_count;
        vh::t_count = false;
        ev.push_back(k); ev.push_back(id); ev.push_back(v);
        vh::t_count = saved;
    }
};

// plain coroutine type for listeners and the driver: eager or lazy start, parked at final suspend,
// frame allocation outside the measured operator new
template <bool Lazy>
struct co_t {
    struct promise_type {
        co_t get_return_object() { return co_t{std::coroutine_handle<promise_type>::from_promise(*this)}; }
        auto initial_suspend() noexcept {
            struct aw {
                bool await_ready() noexcept { return !Lazy; }
                void await_suspend(std::coroutine_handle<>) noexcept {}
                void await_resume() noexcept {}
            };
            return aw{};
        }
        std::suspend_always final_suspend() noexcept { return {}; }
        void return_void() {}
        void unhandled_exception() { std::terminate(); }
        static void *operator new(std::size_t sz) { return std::malloc(sz); }
        static void operator delete(void *p) { std::free(p); }
    };
    std::coroutine_handle<promise_type> h;
};
using lco = co_t<false>;
using dco = co_t<true>;

template <typename T>
struct Ctx {
    using sig_t = signal<T>;
    std::vector<typename sig_t::collector> handles;
    std::optional<sig_t> dead;      // moved-from signal object (no state)
    typename sig_t::emitter root;   // weak; keeps the control block so that no op window sees it freed
    std::vector<lco> listeners;
    std::deque<suspend_point<void>> held;   // suspend points the driver keeps
    bool first = true;                      // no op executed yet
    std::set<long> ids;
    Log log;
    Val ext{0};
    bool coro = false;
};

template <typename T, typename E>
static lco listener(Ctx<T> *c, long id, long limit, bool pause, long retry, E e) {
    long cnt = 0;
    for (;;) {
        try {
            c->log.add(6, id, 0);
            if constexpr (std::is_void_v<T>) {
                co_await e;
                c->log.add(1, id, 0);
            } else {
                Val &v = co_await e;
                c->log.add(1, id, v.v);
            }
            if (++cnt == limit) break;
            if (pause) co_await cocls::pause();
        } catch (const await_canceled_exception &) {
            c->log.add(2, id, retry);
            if (!retry) break;
            --retry;
        }
    }
    c->log.add(5, id, 0);
}

template <typename T>
struct CbFn {
    Ctx<T> *c;
    long id, limit, cnt = 0;
    bool live = true;
    CbFn(Ctx<T> *c, long id, long limit) : c(c), id(id), limit(limit) {}
    CbFn(CbFn &&o) : c(o.c), id(o.id), limit(o.limit), cnt(o.cnt), live(o.live) { o.live = false; }
    CbFn(const CbFn &) = delete;
    ~CbFn() { if (live) c->log.add(4, id, 0); }
    bool hit(long v) {
        ++cnt;
        c->log.add(3, id, v);
        return limit == 0 || cnt < limit;
    }
};
struct CbVal : CbFn<Val> {
    using CbFn<Val>::CbFn;
    bool operator()(Val &v) { return hit(v.v); }
};
struct CbVoid : CbFn<void> {
    using CbFn<void>::CbFn;
    bool operator()() { return hit(0); }
};

template <typename T>
static void emit_line(Ctx<T> &c, long st, long ret, const vh::alloc_mark &m) {
    std::vector<long> v{st, ret, m.scalar_news(), m.scalar_dels()};
    for (long x : c.log.ev) v.push_back(x);
    c.log.ev.clear();
    vh::print_obs(v);
}
template <typename T>
static void reject(Ctx<T> &c) {
    c.log.ev.clear();
    vh::print_obs({1, 0, 0, 0});
}

static bool in(long lo, long hi, long x) { return lo <= x && x <= hi; }

// libstdc++'s deque allocates a node every 64 push_backs (C20's subject); start each op with a fresh
// deque whenever the ready queue is empty so that this never lands inside a measured window
static void fresh_queue() {
    auto &q = coro_queue::queue_impl::instance._queue;
    if (q.empty()) {
        bool saved = vh::t_count;
        vh::t_count = false;
        std::deque<std::coroutine_handle<>>().swap(q);
        vh::t_count = saved;
    }
}

template <typename T>
static bool valid(Ctx<T> &c, const std::vector<long> &op) {
    if (op.empty()) return false;
    switch (op[0]) {
        case 0: return op.size() == 5 && in(0, 63, op[1]) && in(0, 9, op[2]) && in(0, 1, op[3]) && in(0, 3, op[4]) && !c.ids.count(op[1]);
        case 1: return op.size() == 3 && in(0, 63, op[1]) && in(0, 9, op[2]) && !c.ids.count(op[1]);
        case 2:
            return op.size() == 4 && in(0, 2, op[1]) && in(0, 1, op[2]) && in(-100000, 100000, op[3]) && !c.handles.empty() &&
                   !(op[2] == 1 && !c.coro) && !(std::is_void_v<T> && op[1] != 0);
        case 3: return op.size() == 1 && !c.handles.empty();
        case 4: return op.size() == 1 && !c.handles.empty();
        case 5: return op.size() == 1 && c.coro;
        case 6:
            return op.size() == 3 && in(0, 2, op[1]) && in(-100000, 100000, op[2]) && !c.handles.empty() &&
                   !(std::is_void_v<T> && op[1] != 0);
        case 7: return op.size() == 1 && !c.held.empty();
        case 8: return op.size() == 1 && c.coro && !c.held.empty();
        case 9:
            return c.first && (op.size() == 6 || (op.size() == 7 && in(0, 3, op[6]))) && in(0, 63, op[1]) && in(0, 9, op[2]) && in(0, 1, op[3]) &&
                   in(0, 3, op[4]) && in(0, 1, op[5]);
        default: return false;
    }
}

template <typename T>
static suspend_point<void> call_collector(Ctx<T> &c, long kind, long v) {
    auto &col = c.handles.back();
    if constexpr (std::is_void_v<T>) {
        return col();
    } else {
        if (kind == 0) return col(v);          // value constructed in place from the arguments
        if (kind == 1) return col(Val(v));     // rvalue
        c.ext.v = v;
        return col(c.ext);                     // lvalue reference: pointer only
    }
}

// every op that needs no suspension of the driver
template <typename T>
static void exec_plain(Ctx<T> &c, const std::vector<long> &op) {
    switch (op[0]) {
        case 0: {
            c.ids.insert(op[1]);
            vh::t_count = false;
            c.listeners.reserve(c.listeners.size() + 1);
            vh::t_count = true;
            vh::alloc_mark m;
            lco l = listener<T, typename signal<T>::emitter>(&c, op[1], op[2], op[3] == 1, op[4], c.root);
            vh::t_count = false;
            c.listeners.push_back(l);
            vh::t_count = true;
            emit_line(c, 0, 0, m);
            break;
        }
        case 1: {
            c.ids.insert(op[1]);
            vh::alloc_mark m;
            if (!c.handles.empty()) {
                signal<T> s = c.handles.back();
                if constexpr (std::is_void_v<T>) s.connect(CbVoid(&c, op[1], op[2]));
                else s.connect(CbVal(&c, op[1], op[2]));
            } else {
                // a signal object that lost its state (moved from): connect must release the callback at once
                if constexpr (std::is_void_v<T>) c.dead->connect(CbVoid(&c, op[1], op[2]));
                else c.dead->connect(CbVal(&c, op[1], op[2]));
            }
            emit_line(c, 0, 0, m);
            break;
        }
        case 2: {
            vh::alloc_mark m;
            long n;
            {
                suspend_point<void> sp = call_collector(c, op[1], op[3]);
                n = (long)sp.size();
            }   // discarded: destroyed here
            emit_line(c, 0, n, m);
            break;
        }
        case 3: {
            vh::alloc_mark m;
            vh::t_count = false;
            c.handles.reserve(c.handles.size() + 1);
            vh::t_count = true;
            c.handles.push_back(c.handles.back());
            emit_line(c, 0, 0, m);
            break;
        }
        case 4: {
            vh::alloc_mark m;
            c.handles.pop_back();
            emit_line(c, 0, 0, m);
            break;
        }
        case 6: {
            vh::alloc_mark m;
            suspend_point<void> sp = call_collector(c, op[1], op[2]);
            long n = (long)sp.size();
            vh::t_count = false;
            c.held.emplace_back(std::move(sp));    // kept: nothing is resumed now
            vh::t_count = true;
            emit_line(c, 0, n, m);
            break;
        }
        case 7: {
            vh::t_count = false;
            suspend_point<void> sp(std::move(c.held.front()));
            c.held.pop_front();
            vh::t_count = true;
            vh::alloc_mark m;
            sp.clear();                            // what its destructor does
            emit_line(c, 0, 0, m);
            break;
        }
        case 9: {
            // the pre-made state is not used: the hook-up emitter creates the state on its first await
            vh::t_count = false;
            c.handles.clear();
            c.listeners.reserve(c.listeners.size() + 1);
            vh::t_count = true;
            c.ids.insert(op[1]);
            bool keep = op[5] == 1;
            Ctx<T> *cp = &c;
            long nemit = op.size() == 7 ? op[6] : 0;
            auto reg = [cp, keep, nemit](typename signal<T>::collector col) {
                bool saved = vh::t_count;
                vh::t_count = false;
                cp->root = signal<T>(col).get_emitter();
                vh::t_count = saved;
                // a generator that replays to its new observer from inside the registration call
                for (long j = 1; j <= nemit; j++) {
                    if constexpr (std::is_void_v<T>) col();
                    else col(900 + j);
                }
                vh::t_count = false;
                if (keep) cp->handles.push_back(std::move(col));
                vh::t_count = saved;
            };
            vh::alloc_mark m;
            long base_new = 0, base_del = 0;
            {
                // the state itself (make_shared) is allocated inside the first await: not a callback object
                auto e = signal<T>::hook_up(std::move(reg));
                long n0 = vh::g_news.load() - vh::g_news_arr.load();
                lco l = listener<T, decltype(e)>(&c, op[1], op[2], op[3] == 1, op[4], std::move(e));
                base_new = 1;   // make_shared<state>
                (void)n0;
                vh::t_count = false;
                c.listeners.push_back(l);
                vh::t_count = true;
            }
            std::vector<long> v{0, 0, m.scalar_news() - base_new, m.scalar_dels() - base_del};
            for (long x : c.log.ev) v.push_back(x);
            c.log.ev.clear();
            vh::print_obs(v);
            break;
        }
    }
}

template <typename T>
static dco driver(Ctx<T> &c, const vh::Case &cs) {
    for (auto &op : cs.ops) {
        fresh_queue();
        if (!valid(c, op)) { reject(c); c.first = false; continue; }
        c.first = false;
        if (op[0] == 2 && op[2] == 1) {
            vh::alloc_mark m;
            suspend_point<void> sp = call_collector(c, op[1], op[3]);
            long n = (long)sp.size();
            co_await sp;
            emit_line(c, 0, n, m);
        } else if (op[0] == 5) {
            vh::alloc_mark m;
            co_await cocls::pause();
            emit_line(c, 0, 0, m);
        } else if (op[0] == 8) {
            vh::t_count = false;
            suspend_point<void> sp(std::move(c.held.front()));
            c.held.pop_front();
            vh::t_count = true;
            vh::alloc_mark m;
            co_await sp;
            emit_line(c, 0, 0, m);
        } else {
            exec_plain(c, op);
        }
    }
}

template <typename T>
static void run_case(const vh::Case &cs, bool coro) {
    Ctx<T> c;
    c.coro = coro;
    vh::t_count = false;
    {
        signal<T> s;
        c.handles.push_back(s.get_collector());
        c.root = s.get_emitter();
        c.dead.emplace();
        signal<T> taken(std::move(*c.dead));
    }
    vh::t_count = true;
    if (coro) {
        dco d = driver<T>(c, cs);
        coro_queue::install_queue_and_call([&] { d.h.resume(); });
        d.h.destroy();
    } else {
        for (auto &op : cs.ops) {
            fresh_queue();
            if (!valid(c, op)) { reject(c); c.first = false; continue; }
            c.first = false;
            exec_plain(c, op);
        }
    }
    // teardown, not observed: disconnect whatever is left so that no frame is destroyed while subscribed
    vh::t_count = false;
    c.held.clear();
    c.handles.clear();
    for (auto &l : c.listeners) l.h.destroy();
    c.log.ev.clear();
    vh::t_count = true;
}

int main(int argc, char **argv) {
    if (argc < 2) return 2;
    coro_queue::install_queue_and_call([] {});
    for (auto &cs : vh::read_cases(argv[1])) {
        std::printf("CASE %s\n", cs.name.c_str());
        std::fflush(stdout);
        std::deque<std::coroutine_handle<>>().swap(coro_queue::queue_impl::instance._queue);
        const std::string &e = cs.engine;
        bool coro = e.rfind("sgc", 0) == 0;
        bool vd = e.find("_v") != std::string::npos;
        if (vd) run_case<void>(cs, coro);
        else run_case<Val>(cs, coro);
        std::printf("END\n");
        std::fflush(stdout);
    }
    return 0;
}
