// xalloc.h — C20 cross-check of the controlled-schedule scenario harnesses (ctl_cell.cpp of C01/C02, ctl_mutex.cpp of
// C07/C08): the unmodified scenario file is compiled into this TU (its main renamed); every observation line it would
// print is swallowed and counted instead, the controlled threads get their thread-local ready queue touched before the
// scenario starts (libstdc++'s deque constructor allocates: warm-up), and the only line printed per case is
//      20 <operator new calls made by the scenario threads and the library>
// = all counted news minus one per swallowed line (each line is a std::vector built from an initializer list).
#pragma once
#define VH_DEFINE_NEW
#include "common.h"
namespace vh {
inline long xc_lines = 0;
inline void xc_print_obs(const std::vector<long> &) { xc_lines++; }
}  // namespace vh
#define print_obs xc_print_obs
#include "ctl.h"
#include <cocls/coro_queue.h>
namespace vh {
inline std::vector<std::function<void()>> xc_wrap(std::vector<std::function<void()>> fns) {
    std::vector<std::function<void()>> out;
    for (auto &f : fns)
        out.push_back([g = std::move(f)] {
            {
                bool saved = t_count;
                t_count = false;
                cocls::coro_queue::install_queue_and_call([] {});
                t_count = saved;
            }
            g();
        });
    return out;
}
template <typename RunCase>
inline void xc_case(const Case &cs, RunCase &&rc) {
    std::printf("CASE %s\n", cs.name.c_str());
    std::fflush(stdout);
    t_count = false;     // the scenario's own set-up; Controller::run counts only inside the controlled threads ...
    long n0 = g_news.load();
    xc_lines = 0;
    rc();                // (a deadlocked schedule prints END and restarts the process inside: no line 20 then)
    t_count = false;     // ... and switches counting on again when it returns
    long news = g_news.load() - n0 - xc_lines;
    std::printf("20 %ld\nEND\n", news);
    std::fflush(stdout);
}
}  // namespace vh
#define run(F, ...) run(vh::xc_wrap(F), __VA_ARGS__)
