// tsan_c03.cpp — C03: real-thread scenarios run under ThreadSanitizer (clang++ -fsanitize=thread).
// Each op is `sid iters`; the scenario is executed `iters` times with fresh objects.  Observation per op:
//   0  = every iteration finished and every value-integrity check held (reader saw exactly what the writer wrote)
//   1  = a value-integrity check failed
// A ThreadSanitizer report aborts the process (halt_on_error=1): the check records it as CRASH ThreadSanitizer:data-race
// with the report (the two access stacks) as diagnostics.  The harness contains no expected values other than
// "what was written is what is read".
#include "common.h"
// ThreadSanitizer (clang 14) does not model std::atomic_thread_fence, so the one fence of the library (awaiter.h
// subscribe_check_ready, refusal branch: relaxed failed CAS + acquire fence) would be reported although the C++ memory
// model orders it.  Shim, harness only: the fence call is routed through vh_fence, which performs the real fence and, IF
// the fence is executed with an acquire order, tells TSan "acquire on the atomic that was just read" (fence-atomic
// synchronisation, [atomics.fences]/2).  The address comes from the guarded hook COCLS_VERIF_LOG("fence_tgt", &chain)
// placed just before the fence (hooks/c03.patch) or, without that hook, from the scenario (fallback_target).
// If the fence is removed or weakened in the library the shim does nothing and TSan reports the race.
extern "C" void __tsan_acquire(void *addr);
namespace vh {
inline thread_local const void *fence_target = nullptr;
inline std::atomic<const void *> fallback_target{nullptr};
}
namespace std {
inline void vh_fence(std::memory_order o) noexcept {
    std::atomic_thread_fence(o);
    if (o == std::memory_order_acquire || o == std::memory_order_acq_rel || o == std::memory_order_seq_cst) {
        const void *t = vh::fence_target ? vh::fence_target : vh::fallback_target.load(std::memory_order_relaxed);
        if (t) __tsan_acquire(const_cast<void *>(t));
    }
    vh::fence_target = nullptr;
}
}
#define atomic_thread_fence vh_fence
#define protected public
#define private public
#include <cocls/future.h>
#include <cocls/async.h>
#include <cocls/mutex.h>
#include <cocls/queue.h>
#include <cocls/coro_storage.h>
#include <cocls/generator.h>
#include <cocls/thread_pool.h>
#include <cocls/scheduler.h>
#include <cocls/publisher.h>
#undef protected
#undef private

using namespace cocls;

struct target_scope {     // scenario-provided address of the future's awaiter slot (used only when the hook is absent)
    explicit target_scope(const void *p) { vh::fallback_target.store(p, std::memory_order_relaxed); }
    ~target_scope() { vh::fallback_target.store(nullptr, std::memory_order_relaxed); }
};

struct Payload {
    long a[8];
    explicit Payload(long v) { for (auto &x : a) x = v; }
    bool all(long v) const { for (auto x : a) if (x != v) return false; return true; }
};

static void spin() { std::this_thread::yield(); }

// 1: poll ready() then read the value (future.h:159 / awaiter.h:100)
static bool sc_poll(long it) {
    future<Payload> f;
    target_scope ts_(&f._awaiter);
    auto p = f.get_promise();
    std::thread t([&] { p(it); });
    while (!f.ready()) spin();
    bool ok = f.value().all(it);
    t.join();
    return ok;
}

// 2: subscription refused because the future is already resolved, then read (awaiter.h:125-131).
// The "resolved" hint travels through a relaxed flag, which creates no happens-before edge.
static bool sc_refused(long it) {
    future<Payload> f;
    target_scope ts_(&f._awaiter);
    auto p = f.get_promise();
    std::atomic<bool> hint{false};
    std::thread t([&] { p(it); hint.store(true, std::memory_order_relaxed); });
    while (!hint.load(std::memory_order_relaxed)) spin();
    sync_awaiter awt;
    bool ok = true;
    if (!f.subscribe(&awt)) {
        ok = f.value().all(it);
    } else {
        awt.wait_sync();
        ok = f.value().all(it);
    }
    t.join();
    return ok;
}

// 3: blocking wait through a sync_awaiter (awaiter.h:317-325)
static bool sc_wait(long it) {
    future<Payload> f;
    target_scope ts_(&f._awaiter);
    auto p = f.get_promise();
    std::thread t([&] { if (it & 1) spin(); p(it); });
    bool ok = f.wait().all(it);
    t.join();
    return ok;
}

// 4: a coroutine awaits the future on one thread and is resumed by the resolver on another
static async<void> awaiting_coro(future<Payload> &f, long it, std::atomic<int> &res) {
    Payload &v = co_await f;
    res.store(v.all(it) ? 1 : 2, std::memory_order_release);
}
static bool sc_chain(long it) {
    future<Payload> f;
    target_scope ts_(&f._awaiter);
    auto p = f.get_promise();
    std::atomic<int> res{0};
    std::thread a([&] { awaiting_coro(f, it, res).detach(); });
    std::thread b([&] { if (it & 1) spin(); p(it); });
    a.join(); b.join();
    while (!res.load(std::memory_order_acquire)) spin();
    return res.load() == 1;
}

// 5: two threads alternate on one reusable_storage_mtsafe (coro_storage.h:153-182)
static bool sc_mtsafe(long it) {
    reusable_storage_mtsafe st;
    std::atomic<bool> bad{false};
    auto body = [&](long tag) {
        for (int k = 0; k < 50; k++) {
            constexpr std::size_t sz = 64;
            char *p = static_cast<char *>(st.alloc(sz));
            std::memset(p, static_cast<int>(tag), sz);
            for (std::size_t i = 0; i < sz; i++) if (p[i] != static_cast<char>(tag)) bad = true;
            reusable_storage_mtsafe::dealloc(p, sz);
        }
    };
    std::thread a(body, 1 + (it & 7)), b(body, 17 + (it & 7));
    a.join(); b.join();
    return !bad;
}

// 6: plain counter protected by the coroutine mutex, contended by threads (mutex.h)
static bool sc_mutex(long it) {
    mutex mx;
    long counter = 0;
    const int per = 40;
    auto body = [&] {
        for (int k = 0; k < per; k++) {
            if (k & 1) {
                mutex::ownership own(mx.lock());
                ++counter;
            } else {
                auto own = mx.try_lock();
                if (!own) { mutex::ownership o2(mx.lock()); ++counter; }
                else ++counter;
            }
        }
    };
    std::thread a(body), b(body), c(body);
    a.join(); b.join(); c.join();
    (void)it;
    return counter == 3L * per;
}

// 7: queue push / pop across threads (queue.h)
static bool sc_queue(long it) {
    queue<Payload> q;
    const int n = 30;
    long sum = 0; bool ok = true;
    std::thread prod([&] { for (int k = 0; k < n; k++) q.push(it + k); });
    std::thread cons([&] {
        for (int k = 0; k < n; k++) { Payload v = q.pop().wait(); ok = ok && v.all(v.a[0]); sum += v.a[0] - it; }
    });
    prod.join(); cons.join();
    return ok && sum == (long)n * (n - 1) / 2;
}

// 8: synchronous generator access while the generator continues in a pool thread (generator.h:215-232)
static generator<Payload> pool_gen(thread_pool &pool, long base) {
    for (long k = 0;; k++) {
        co_await pool;
        co_yield Payload(base + k);
    }
}
static bool sc_generator(long it) {
    thread_pool pool(1);
    bool ok = true;
    {
        auto g = pool_gen(pool, it);
        for (long k = 0; k < 5; k++) {
            if (!g.next()) { ok = false; break; }
            ok = ok && g.value().all(it + k);
        }
    }
    pool.stop();
    return ok;
}

// 9: publisher: one thread publishes, a subscriber reads, a third asks for the position while subscribers come and go
static bool sc_publisher(long it) {
    publisher<long> pub;
    subscriber<long> s0(pub);
    std::atomic<bool> stop{false};
    bool ok = true; long acc = 0;
    std::thread reader([&] {
        long last = -1;
        while (s0.next()) { long v = s0.value(); if (v <= last) ok = false; last = v; }
    });
    std::thread pos([&] { while (!stop.load(std::memory_order_relaxed)) acc += (long)s0.position(); });
    std::thread subs([&] {
        std::vector<std::unique_ptr<subscriber<long>>> v;
        for (int i = 0; i < 40; i++) v.push_back(std::make_unique<subscriber<long>>(pub));
    });
    for (long k = 0; k < 30; k++) pub.publish(it * 100 + k);
    subs.join();
    pub.close();
    reader.join();
    stop = true; pos.join();
    return ok && acc >= 0;
}

// 10: thread pool + scheduler: tasks and timers submitted and cancelled from several threads
static bool sc_pool_sched(long it) {
    thread_pool pool(2);
    std::atomic<int> ran{0};
    auto submit = [&] { for (int k = 0; k < 20; k++) pool.run_detached([&] { ran.fetch_add(1, std::memory_order_relaxed); }); };
    std::thread a(submit), b(submit);
    scheduler sch;
    int tags[8];
    std::unique_ptr<future<void>> sleeps[8];
    std::thread c([&] { for (int k = 0; k < 8; k++) sleeps[k] = std::make_unique<future<void>>([&]{return sch.sleep_for(std::chrono::seconds(100), &tags[k]);}); });
    c.join();
    std::thread d([&] { for (int k = 0; k < 8; k += 2) sch.cancel(&tags[k]); });
    std::thread e([&] { for (int k = 1; k < 8; k += 2) sch.cancel(&tags[k]); });
    a.join(); b.join(); d.join(); e.join();
    pool.stop();
    (void)it;
    return true;
}

// 11: heavy contention on the coroutine mutex: lock() and try_lock() from four threads while the owner stays inside long
// enough for requests to pile up, so that unlock() hands over and rebuilds the owner-private queue all the time
static bool sc_mutex_contended(long it) {
    mutex mx;
    long counter = 0; int inside = 0; bool bad = false;
    const int per = 60;
    std::atomic<int> started{0};
    auto body = [&](int id) {
        started.fetch_add(1);
        while (started.load() < 4) spin();
        for (int k = 0; k < per; k++) {
            if ((k + id) % 5 == 0) {
                auto own = mx.try_lock();
                if (!own) continue;
                if (++inside != 1) bad = true;
                ++counter; --inside;
                own.release();
                continue;
            }
            mutex::ownership own(mx.lock());
            if (++inside != 1) bad = true;
            ++counter;
            if ((k & 3) == 0) spin(); else for (volatile int z = 0; z < 100; z = z + 1) {}
            --inside;
            own.release();
        }
    };
    std::thread a(body, 0), b(body, 1), c(body, 2), d(body, 3);
    a.join(); b.join(); c.join(); d.join();
    (void)it;
    return !bad && counter > 0;
}

// 12: two threads call ONE promise concurrently (value vs value, value vs drop): exactly one call may win and the future
// must hold exactly the winner's payload (promise::claim, future.h)
static bool sc_promise_race(long it) {
    future<Payload> f;
    auto p = f.get_promise();
    std::atomic<int> go{0};
    bool won[2] = {false, false};
    const bool with_drop = (it % 3) == 0;
    auto call = [&](int who) {
        go.fetch_add(1);
        while (go.load() < 2) {}
        if (who == 1 && with_drop) { bool r = p(drop); won[who] = r; }
        else { bool r = p(it * 10 + who); won[who] = r; }
    };
    std::thread a(call, 0), b(call, 1);
    a.join(); b.join();
    if (won[0] == won[1]) return false;                     // none or both claimed
    if (!f.ready()) return false;
    int w = won[0] ? 0 : 1;
    if (w == 1 && with_drop) {
        try { (void)f.value(); return false; } catch (const await_canceled_exception &) { return true; }
    }
    return f.value().all(it * 10 + w);
}

// 13: two threads publish to one publisher (one of them closes it at the end) while two subscribers block in next()
static bool sc_two_publishers(long it) {
    publisher<long> pub;
    subscriber<long> s1(pub), s2(pub);
    bool ok = true;
    std::atomic<long> got{0};
    auto reader = [&](subscriber<long> *s) {
        long last[2] = {-1, -1};
        while (s->next()) {
            long v = s->value(); int src = (int)(v & 1);
            if (v <= last[src]) ok = false;       // per-publisher order
            last[src] = v; got.fetch_add(1, std::memory_order_relaxed);
        }
    };
    std::thread r1(reader, &s1), r2(reader, &s2);
    std::atomic<int> done{0};
    auto writer = [&](long src) {
        for (long k = 1; k <= 25; k++) { pub.publish(k * 2 + src); if ((k & 7) == 0) spin(); }
        if (done.fetch_add(1) == 1) pub.close();
    };
    std::thread w1(writer, 0), w2(writer, 1);
    w1.join(); w2.join(); r1.join(); r2.join();
    (void)it;
    return ok && got.load() > 0;
}

// 14: has_value() waiter: polls await_ready() / converts to bool while another thread resolves (future::awaitable_bool)
static bool sc_has_value(long it) {
    future<Payload> f;
    target_scope ts_(&f._awaiter);
    auto p = f.get_promise();
    std::thread t([&] { if (it & 1) spin(); if (it % 5 == 0) p(drop); else p(it); });
    bool ok = true;
    if (it & 2) {
        auto hv = f.has_value();
        while (!hv.await_ready()) spin();
        bool has = hv.await_resume();
        ok = (has == (it % 5 != 0)) && (!has || f.value().all(it));
    } else {
        bool has = f.has_value();
        ok = (has == (it % 5 != 0)) && (!has || f.value().all(it));
    }
    t.join();
    return ok;
}

// 15: a task running in the pool calls pool.stop() while the owner destroys the pool (thread_pool::stop, two stoppers)
static bool sc_pool_two_stoppers(long it) {
    auto *pool = new thread_pool(2);
    std::atomic<int> started{0};
    pool->run_detached([pool, &started] { started.store(1, std::memory_order_relaxed); pool->stop(); });
    if (it & 1) { while (!started.load(std::memory_order_relaxed)) spin(); }
    delete pool;
    return true;
}

// 16: discard() of a pending future that another thread resolves afterwards; the resolver is held back by a relaxed
// flag only, so the awaiter slot of the future is the only synchronisation (future.h discard helper awaiter)
static bool sc_discard(long it) {
    std::thread thr;
    std::atomic<int> go{0};
    std::atomic<int> resolved{0};
    discard([&] {
        return future<Payload>([&](promise<Payload> p) {
            thr = std::thread([&go, &resolved, it, p = std::move(p)]() mutable {
                while (!go.load(std::memory_order_relaxed)) spin();
                p(it);
                resolved.store(1, std::memory_order_relaxed);
            });
        });
    });
    go.store(1, std::memory_order_relaxed);
    thr.join();
    return resolved.load() == 1;
}

// 17: publisher with a LIMITED queue and an item that owns heap memory: a reader lagging at the limit copies the oldest
// item while publish() trims the queue (publisher.h get_value / push_lk)
struct HeapItem {
    std::vector<long> v;
    HeapItem() = default;
    explicit HeapItem(long x) : v(48, x) {}
    bool good() const { for (auto y : v) if (y != v[0]) return false; return !v.empty(); }
};
static bool sc_limited_publisher(long it) {
    publisher<HeapItem> pub(2, 1);
    bool ok = true;
    std::atomic<bool> stop{false};
    std::thread reader([&] {
        while (!stop.load(std::memory_order_relaxed)) {
            subscriber<HeapItem> s(pub);
            for (int k = 0; k < 40 && s.next(); k++) { if (!s.value().good()) ok = false; }
        }
    });
    for (long k = 1; k <= 300; k++) { pub.publish(HeapItem(it * 1000 + k)); if ((k & 15) == 0) spin(); }
    stop.store(true, std::memory_order_relaxed);
    pub.close();
    reader.join();
    return ok;
}

int main(int argc, char **argv) {
    if (argc < 2) return 2;
    cocls::verif::get_hooks().log = [](const char *id, long a, long) {
        if (std::strcmp(id, "fence_tgt") == 0) vh::fence_target = reinterpret_cast<const void *>(a);
    };
    for (auto &cs : vh::read_cases(argv[1])) {
        std::printf("CASE %s\n", cs.name.c_str());
        std::fflush(stdout);
        for (auto &op : cs.ops) {
            if (op.size() != 2 || op[0] < 1 || op[0] > 17 || op[1] < 0 || op[1] > 100000) { vh::print_obs({-1}); continue; }
            bool ok = true;
            for (long it = 1; it <= op[1] && ok; it++) {
                switch (op[0]) {
                    case 1: ok = sc_poll(it); break;
                    case 2: ok = sc_refused(it); break;
                    case 3: ok = sc_wait(it); break;
                    case 4: ok = sc_chain(it); break;
                    case 5: ok = sc_mtsafe(it); break;
                    case 6: ok = sc_mutex(it); break;
                    case 7: ok = sc_queue(it); break;
                    case 8: ok = sc_generator(it); break;
                    case 9: ok = sc_publisher(it); break;
                    case 10: ok = sc_pool_sched(it); break;
                    case 11: ok = sc_mutex_contended(it); break;
                    case 12: ok = sc_promise_race(it); break;
                    case 13: ok = sc_two_publishers(it); break;
                    case 14: ok = sc_has_value(it); break;
                    case 15: ok = sc_pool_two_stoppers(it); break;
                    case 16: ok = sc_discard(it); break;
                    case 17: ok = sc_limited_publisher(it); break;
                }
            }
            vh::print_obs({ok ? 0L : 1L});
        }
        std::printf("END\n");
        std::fflush(stdout);
    }
    return 0;
}
