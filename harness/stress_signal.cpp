// stress_signal.cpp — C15 under REAL, uncontrolled threads (no scheduler hooks installed): subscriber threads
// subscribe one-shot listeners as fast as they can while the collector thread calls the collector in a tight loop,
// so that subscription CASes really race with the collector's taking of the chain (also inside windows that no
// hook point separates).  engine: sg_stress     op: 40 per nsub cbmask jitter
//   per     subscriptions per subscriber thread        nsub    subscriber threads (1..4)
//   cbmask  bit i set: thread i connects one-shot callbacks (from its own signal object) instead of starting
//           one-shot listener coroutines           jitter  max random spins between two subscriptions
// Work is done in rounds of at most 4000 subscriptions per thread on a fresh signal; in every round the collector
// emits 1,2,3,.. until every subscriber thread has finished, then drops its handle (the state dies when the last
// connecting thread has released its own signal object; every third round it drops as soon as the first subscriber
// thread is done, so that the disconnect races with the remaining subscriptions): after that EVERY subscription must have had exactly one
// outcome — a value that was really emitted, or the cancel exception (callback: released without a call).
// The harness only COUNTS: "20 lost dup wrong order"
//   lost   never resumed / never freed          dup    resumed / called / freed more than once
//   wrong  a value that was not emitted in this round (or a destroyed object: negative)
//   order  per thread, a later subscription got an earlier value than an earlier one (or a value after a cancel)
// op: 42 iters jitter   hook-up under real threads: per iteration a listener awaits signal<T>::hook_up(fn); fn hands the
//   collector to an emitter thread (and then keeps running for up to `jitter` spins); the emitter thread emits 1 through it as
//   soon as it sees it and drops it.  The listener must receive exactly 1: lost = never resumed, wrong = cancelled / other value.
// The expected line comes from the model (all zero: c15_cross_thread_conservation / _terminal, c15_hook_up_receives).
#define VH_DEFINE_NEW
#include "common.h"
#include <cocls/signal.h>

using namespace cocls;

struct Val {
    long v;
    Val(long x) : v(x) {}
    Val(const Val &o) : v(o.v) {}
    Val(Val &&o) : v(o.v) { *(volatile long *)&o.v = -555; }
    ~Val() { *(volatile long *)&v = -777; }
};
using sig_t = signal<Val>;

static constexpr long CANCELLED = -1;

struct Slot {
    std::atomic<int> runs{0};     // coroutine resumed / callback called
    std::atomic<int> freed{0};    // callback object destroyed
    std::atomic<long> val{0};     // value seen, CANCELLED for the exception
};

struct plain_co {
    struct promise_type {
        plain_co get_return_object() { return plain_co{std::coroutine_handle<promise_type>::from_promise(*this)}; }
        std::suspend_never initial_suspend() noexcept { return {}; }
        std::suspend_always final_suspend() noexcept { return {}; }
        void return_void() {}
        void unhandled_exception() { std::terminate(); }
    };
    std::coroutine_handle<promise_type> h;
};

static plain_co listener(Slot *s, sig_t::emitter e) {
    try {
        Val &v = co_await e;
        s->val.store(v.v, std::memory_order_relaxed);
    } catch (const await_canceled_exception &) {
        s->val.store(CANCELLED, std::memory_order_relaxed);
    }
    s->runs.fetch_add(1);
}

struct CbOne {
    Slot *s;
    bool live = true;
    explicit CbOne(Slot *s) : s(s) {}
    CbOne(CbOne &&o) : s(o.s), live(o.live) { o.live = false; }
    CbOne(const CbOne &) = delete;
    ~CbOne() { if (live) s->freed.fetch_add(1); }
    bool operator()(Val &v) {
        s->val.store(v.v, std::memory_order_relaxed);
        s->runs.fetch_add(1);
        return false;     // one shot
    }
};

struct Counts { long lost = 0, dup = 0, wrong = 0, order = 0; };

static void one_round(long chunk, int nsub, long cbmask, long jitter, unsigned seed, bool early_drop, Counts &c) {
    std::optional<sig_t> sig;
    sig.emplace();
    std::optional<sig_t::collector> col(sig->get_collector());
    sig_t::emitter em = sig->get_emitter();
    std::vector<std::optional<sig_t>> own(nsub);
    for (int i = 0; i < nsub; i++)
        if (cbmask >> i & 1) own[i].emplace(*sig);
    sig.reset();
    std::vector<std::vector<Slot>> slots(nsub);
    std::vector<std::vector<plain_co>> frames(nsub);
    for (int i = 0; i < nsub; i++) {
        slots[i] = std::vector<Slot>(chunk);
        frames[i].resize(chunk);
    }
    std::atomic<int> go{0}, done_subs{0};
    std::atomic<long> emitted{0};
    std::vector<std::thread> ths;
    for (int i = 0; i < nsub; i++) {
        ths.emplace_back([&, i] {
            unsigned r = seed * 2654435761u + i * 40503u + 1;
            while (!go.load(std::memory_order_acquire)) std::this_thread::yield();
            bool cb = cbmask >> i & 1;
            for (long k = 0; k < chunk; k++) {
                if (cb) own[i]->connect(CbOne(&slots[i][k]));
                else frames[i][k] = listener(&slots[i][k], em);
                if (jitter) {
                    r = r * 1664525u + 1013904223u;
                    for (volatile long s = (r >> 8) % (jitter + 1); s > 0; s = s - 1) {}
                }
            }
            if (cb) own[i].reset();     // may be the last reference: the state then dies on this thread
            done_subs.fetch_add(1);
        });
    }
    std::thread collector([&] {
        while (!go.load(std::memory_order_acquire)) std::this_thread::yield();
        long v = 0;
        // early_drop: the handle goes while the other subscriber threads are still subscribing (disconnect races with subscribe)
        while (done_subs.load(std::memory_order_acquire) < (early_drop ? 1 : nsub)) {
            (*col)(++v);
            emitted.store(v, std::memory_order_relaxed);
        }
        (*col)(++v);
        emitted.store(v, std::memory_order_relaxed);
        col.reset();                    // disconnect: whoever still waits must get the cancel exception
    });
    go.store(1, std::memory_order_release);
    for (auto &t : ths) t.join();
    collector.join();
    long vmax = emitted.load();
    for (int i = 0; i < nsub; i++) {
        bool cb = cbmask >> i & 1;
        long last = 0;
        for (long k = 0; k < chunk; k++) {
            Slot &s = slots[i][k];
            int runs = s.runs.load(), freed = s.freed.load();
            long val = s.val.load();
            long outcome;   // value, or LONG_MAX for cancelled / released without a call
            if (cb) {
                if (freed == 0) { c.lost++; continue; }
                if (freed > 1 || runs > 1) c.dup++;
                outcome = runs ? val : std::numeric_limits<long>::max();
            } else {
                if (runs == 0) { c.lost++; continue; }
                if (runs > 1) c.dup++;
                outcome = val == CANCELLED ? std::numeric_limits<long>::max() : val;
            }
            if (outcome != std::numeric_limits<long>::max() && (outcome < 1 || outcome > vmax)) c.wrong++;
            if (outcome < last) c.order++;
            last = outcome;
        }
    }
    for (auto &f : frames)
        for (auto &p : f)
            if (p.h) p.h.destroy();
}

template <typename E>
static plain_co hook_listener(Slot *s, E e) {
    try {
        Val &v = co_await e;
        s->val.store(v.v, std::memory_order_relaxed);
    } catch (const await_canceled_exception &) {
        s->val.store(CANCELLED, std::memory_order_relaxed);
    }
    s->runs.fetch_add(1);
}

static void hook_rounds(long iters, long jitter, Counts &c) {
    std::atomic<sig_t::collector *> slot{nullptr};
    std::atomic<long> done{0};
    std::atomic<bool> stop{false};
    std::thread emitter([&] {
        for (;;) {
            sig_t::collector *col;
            while ((col = slot.exchange(nullptr, std::memory_order_acquire)) == nullptr) {
                if (stop.load(std::memory_order_acquire)) return;
                std::this_thread::yield();
            }
            (*col)(1);          // a generator thread that emits while the registration may still be running
            delete col;         // and disconnects
            done.fetch_add(1, std::memory_order_release);
        }
    });
    unsigned r = (unsigned)(iters * 7 + jitter);
    for (long it = 0; it < iters; it++) {
        Slot s;
        long spins = 0;
        if (jitter) {
            r = r * 1664525u + 1013904223u;
            spins = (r >> 8) % (jitter + 1);
        }
        auto reg = [&slot, spins](sig_t::collector col) {
            slot.store(new sig_t::collector(std::move(col)), std::memory_order_release);
            for (volatile long k = spins; k > 0; k = k - 1) {}      // the rest of the registration
        };
        plain_co co = hook_listener(&s, sig_t::hook_up(reg));
        while (done.load(std::memory_order_acquire) <= it) std::this_thread::yield();
        int runs = s.runs.load();
        if (runs == 0) c.lost++;
        else {
            if (runs > 1) c.dup++;
            if (s.val.load() != 1) c.wrong++;
        }
        co.h.destroy();
    }
    stop.store(true, std::memory_order_release);
    emitter.join();
}

static void run_case(const vh::Case &cs) {
    for (auto &op : cs.ops) {
        if (op.size() == 3 && op[0] == 42 && op[1] >= 1 && op[1] <= 1000000 && op[2] >= 0 && op[2] <= 1000) {
            Counts c;
            hook_rounds(op[1], op[2], c);
            if (c.lost || c.dup || c.wrong || c.order)
                std::fprintf(stderr, "stress_signal(hook-up): LOST=%ld DUP=%ld WRONG=%ld (op %ld %ld)\n", c.lost, c.dup, c.wrong, op[1], op[2]);
            vh::print_obs({20, c.lost, c.dup, c.wrong, c.order});
            continue;
        }
        bool ok = op.size() == 5 && op[0] == 40 && op[1] >= 1 && op[1] <= 1000000 && op[2] >= 1 && op[2] <= 4 && op[3] >= 0 &&
                  op[3] <= 15 && op[4] >= 0 && op[4] <= 1000;
        if (!ok) { vh::print_obs({1}); continue; }
        Counts c;
        long left = op[1];
        unsigned round = 0;
        while (left > 0) {
            long chunk = std::min(left, 4000L);
            one_round(chunk, (int)op[2], op[3], op[4], (unsigned)(op[1] * 31 + op[4]) + round, round % 3 == 2, c);
            round++;
            left -= chunk;
        }
        if (c.lost || c.dup || c.wrong || c.order)
            std::fprintf(stderr, "stress_signal: LOST=%ld DUP=%ld WRONG=%ld ORDER=%ld (op %ld %ld %ld %ld)\n", c.lost, c.dup, c.wrong,
                         c.order, op[1], op[2], op[3], op[4]);
        vh::print_obs({20, c.lost, c.dup, c.wrong, c.order});
    }
}

int main(int argc, char **argv) {
    if (argc < 2) return 2;
    for (auto &cs : vh::read_cases(argv[1])) {
        std::printf("CASE %s\n", cs.name.c_str());
        std::fflush(stdout);
        if (cs.engine == "sg_stress") run_case(cs);
        std::printf("END\n");
        std::fflush(stdout);
    }
    return 0;
}
