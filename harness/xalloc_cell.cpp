// xalloc_cell.cpp — C20 cross-check over the C01/C02 scenarios (see xalloc.h). engines alxc_int alxc_void alxc_ref alxc_cnt
#include "xalloc.h"
#define main ctl_cell_main
#include "ctl_cell.cpp"
#undef main
#undef run
int main(int argc, char **argv) {
    if (argc < 2) return 2;
    for (auto &cs : vh::read_cases(argv[1])) {
        if (cs.engine == "alxc_int") vh::xc_case(cs, [&] { run_case<int>(cs); });
        else if (cs.engine == "alxc_void") vh::xc_case(cs, [&] { run_case<void>(cs); });
        else if (cs.engine == "alxc_ref") vh::xc_case(cs, [&] { run_case<long &>(cs); });
        else vh::xc_case(cs, [&] { run_case<counted>(cs); });
    }
    return 0;
}
