// seq_async.cpp — direct async<T> API scenarios for C04 (engine aapi, model coq/AsyncApiDefs.v):
//  op 1 kind susp v        : async<T>::join() with result types owning heap memory; prints a checksum of what the joiner received
//  op 2 how npar start a   : with_allocator<S, async<long>> coroutines (free function / member function / lambda) with 1..4 long
//                            parameters; S records the size of every block and compares it at dealloc
// No expected values here: the harness prints what it observes.
#define VH_DEFINE_NEW
#include "common.h"
#include <cocls/async.h>
#include <cocls/future.h>
#include <cocls/with_allocator.h>
#include <cocls/thread_pool.h>

using cocls::async;
using cocls::future;
using cocls::promise;

namespace {

// ---------- join ----------
struct gate {
    future<int> f;
    promise<int> p;
    gate() : p(f.get_promise()) {}
};

async<int> resolver(gate *g) {
    g->p(1);
    co_return 0;
}

template <typename T> T make(long v);
template <> int make<int>(long v) { return (int)v; }
template <> std::string make<std::string>(long v) { return std::string(40, (char)('a' + ((v % 26) + 26) % 26)); }
template <> std::vector<int> make<std::vector<int>>(long v) { return std::vector<int>(20, (int)v); }
template <> std::unique_ptr<int> make<std::unique_ptr<int>>(long v) { return std::make_unique<int>((int)v); }

long sum(const int &x) { return x; }
long sum(const std::string &s) { long r = 0; for (char c : s) r += (unsigned char)c; return r; }
long sum(const std::vector<int> &v) { long r = 0; for (int x : v) r += x; return r; }
long sum(const std::unique_ptr<int> &p) { return p ? *p : -1; }

template <typename T> async<T> producer(long susp, long v, gate *g) {
    if (susp == 1) co_await cocls::pause();
    if (susp == 2) {
        resolver(g).detach();      // queued: runs when this coroutine suspends
        co_await g->f;
    }
    co_return make<T>(v);
}
async<void> producer_void(long susp, gate *g, long *ran) {
    if (susp == 1) co_await cocls::pause();
    if (susp == 2) {
        resolver(g).detach();
        co_await g->f;
    }
    ++*ran;
    co_return;
}

template <typename T> long do_join(long susp, long v) {
    gate g;
    if (susp != 2) g.p(0);
    T got = producer<T>(susp, v, &g).join();
    return sum(got);
}

// ---------- with_allocator ----------
struct check_storage {
    static inline std::map<void *, std::size_t> live;
    static inline long allocs = 0, deallocs = 0, bad = 0;
    void *alloc(std::size_t sz) {
        void *p = ::operator new(sz);
        live[p] = sz;
        ++allocs;
        return p;
    }
    static void dealloc(void *p, std::size_t sz) {
        auto it = live.find(p);
        if (it == live.end() || it->second != sz) ++bad;
        if (it != live.end()) live.erase(it);
        ++deallocs;
        ::operator delete(p);
    }
};
using St = check_storage;
template <typename T> using acoro = cocls::with_allocator<St, async<T>>;

acoro<long> f1(St &, long a) { co_return a; }
acoro<long> f2(St &, long a, long b) { co_return a + b; }
acoro<long> f3(St &, long a, long b, long c) { co_return a + b + c; }
acoro<long> f4(St &, long a, long b, long c, long d) { co_return a + b + c + d; }
struct Worker {
    long base = 100;
    acoro<long> m1(St &, long a) { co_return base + a; }
    acoro<long> m2(St &, long a, long b) { co_return base + a + b; }
    acoro<long> m3(St &, long a, long b, long c) { co_return base + a + b + c; }
    acoro<long> m4(St &, long a, long b, long c, long d) { co_return base + a + b + c + d; }
};

async<long> make_coro(St &s, Worker &w, long how, long npar, long a) {
    auto l1 = [](St &, long x) -> acoro<long> { co_return x; };
    auto l2 = [](St &, long x, long y) -> acoro<long> { co_return x + y; };
    auto l3 = [](St &, long x, long y, long z) -> acoro<long> { co_return x + y + z; };
    auto l4 = [](St &, long x, long y, long z, long u) -> acoro<long> { co_return x + y + z + u; };
    if (how == 0) return npar == 1 ? async<long>(f1(s, a)) : npar == 2 ? async<long>(f2(s, a, a)) : npar == 3 ? async<long>(f3(s, a, a, a)) : async<long>(f4(s, a, a, a, a));
    if (how == 1) return npar == 1 ? async<long>(w.m1(s, a)) : npar == 2 ? async<long>(w.m2(s, a, a)) : npar == 3 ? async<long>(w.m3(s, a, a, a)) : async<long>(w.m4(s, a, a, a, a));
    return npar == 1 ? async<long>(l1(s, a)) : npar == 2 ? async<long>(l2(s, a, a)) : npar == 3 ? async<long>(l3(s, a, a, a)) : async<long>(l4(s, a, a, a, a));
}

acoro<long> awaiting(St &s, Worker *w, long how, long npar, long a) {
    long r = co_await make_coro(s, *w, how, npar, a);
    co_return r;
}

// ---------- deep co_await chains (op 3) ----------
long g_levels = 0;
async<long> chain(long depth) {
    ++g_levels;
    if (depth == 0) co_return 0;
    long r = co_await chain(depth - 1);
    co_return r + 1;
}

// ---------- exceptions through co_await, all result kinds (op 4) ----------
struct api_exc { long e; };
template <typename T> async<T> thrower(long thr, long v) {
    if (thr) throw api_exc{v};
    if constexpr (std::is_void_v<T>) co_return; else co_return make<T>(v);
}
template <typename T> async<long> catcher(long thr, long v, long *after) {
    long out = 0;
    try {
        if constexpr (std::is_void_v<T>) { co_await thrower<T>(thr, v); }
        else { T x = std::move(co_await thrower<T>(thr, v)); (void)x; }
    } catch (api_exc &e) {
        out = 1000 + e.e;
    }
    ++*after;
    co_return out;
}

// ---------- thread_pool::run(async) (op 5) ----------
async<int> pool_waiter(gate *g, std::atomic<int> *ran) {
    ++*ran;
    int v = co_await g->f;
    co_return v + 1;
}
async<int> pool_setter(gate *g, int v) {
    g->p(v);
    co_return 0;
}

// ---------- op 6: self-owned operation: the frame is the only owner of the state holding the future it resolves ----------
struct OpState {
    future<int> f;
};
async<int> owned_body(std::shared_ptr<OpState> st, long susp, long v) {
    if (susp) co_await cocls::pause();
    co_return (int)v;
}
struct cb_awaiter : cocls::awaiter {
    future<int> *fut = nullptr;
    long seen = -1, calls = 0;
    cb_awaiter() {
        set_resume_fn([](cocls::awaiter *me, void *) noexcept -> cocls::suspend_point<void> {
            auto *self = static_cast<cb_awaiter *>(me);
            ++self->calls;
            try { self->seen = self->fut->value(); } catch (...) { self->seen = -2; }
            return {};
        });
    }
};

// ---------- op 7 / 8: result types whose constructor throws, bodies ending with (a type derived from) await_canceled_exception ----------
struct picky {
    long v;
    picky(long x) : v(x) { if (x < 0) throw api_exc{-x}; }
};
struct my_cancel : cocls::await_canceled_exception {
    long code;
    explicit my_cancel(long c) : code(c) {}
};
async<picky> picky_body(long v, long susp) {
    if (susp) co_await cocls::pause();
    co_return v;                       // picky is constructed inside the bound future
}
async<int> cancel_body(long kind, long code, gate *g) {
    if (kind == 0) throw my_cancel(code);
    int x = co_await g->f;             // promise dropped: await_canceled_exception leaves the body unhandled
    co_return x;
}
// outcome of reading a resolved future: v (value) | 1000+e (api_exc) | 3000+code (my_cancel) | 2000 (plain canceled, future holds an
// exception) | 2001 (canceled because the future has NO value at all)
template <typename F> long outcome(F &f, long (*val)(decltype(f.value()) &)) {
    bool has = f.has_value();
    try { return val(f.value()); }
    catch (api_exc &e) { return 1000 + e.e; }
    catch (my_cancel &e) { return 3000 + e.code; }
    catch (cocls::await_canceled_exception &) { return has ? 2000 : 2001; }
}
long val_picky(picky &p) { return p.v; }
long val_int(int &x) { return x; }

template <typename T, typename Mk, typename Val> async<long> awaiting_mode(Mk mk, Val val) {
    try {
        decltype(auto) x = co_await mk();
        co_return val(x);
    } catch (api_exc &e) { co_return 1000 + e.e; }
    catch (my_cancel &e) { co_return 3000 + e.code; }
    catch (cocls::await_canceled_exception &) { co_return 2000; }
}

// runs coroutine `mk()` (an async<T>) in start mode 0 join | 1 start() | 2 start(promise) | 3 future ctor | 4 co_await
template <typename T, typename Mk, typename Val> long run_mode(long mode, Mk mk, Val val) {
    auto rd = [&](future<T> &f) -> long {
        bool has = f.has_value();
        try { return val(f.value()); }
        catch (api_exc &e) { return 1000 + e.e; }
        catch (my_cancel &e) { return 3000 + e.code; }
        catch (cocls::await_canceled_exception &) { return has ? 2000 : 2001; }
    };
    switch (mode) {
        case 0: {
            try { decltype(auto) x = mk().join(); return val(x); }
            catch (api_exc &e) { return 1000 + e.e; }
            catch (my_cancel &e) { return 3000 + e.code; }
            catch (cocls::await_canceled_exception &) { return 2000; }
        }
        case 1: { future<T> f = mk().start(); return rd(f); }
        case 2: { future<T> f; auto p = f.get_promise(); { auto a = mk(); a.start(p); } return rd(f); }
        case 3: { future<T> f(mk()); return rd(f); }
        default: return awaiting_mode<T>(mk, val).join();
    }
}

void run_op(const std::vector<long> &op) {
    auto rej = [] { vh::print_obs({1}); };
    if (op.size() == 3 && op[0] == 6) {
        long susp = op[1], v = op[2];
        if (susp < 0 || susp > 1) return rej();
        cb_awaiter cb;
        {
            auto st = std::make_shared<OpState>();
            cb.fut = &st->f;
            auto p = st->f.get_promise();
            st->f.subscribe(&cb);
            auto a = owned_body(st, susp, v);
            st.reset();                 // from now on the coroutine frame is the only owner of the state
            a.start(p);                 // suspend point discarded: runs now
        }
        vh::print_obs({0, cb.seen, cb.calls});
        return;
    }
    if (op.size() == 4 && op[0] == 7) {
        long mode = op[1], susp = op[2], v = op[3];
        if (mode < 0 || mode > 4 || susp < 0 || susp > 1) return rej();
        long r = run_mode<picky>(mode, [&] { return picky_body(v, susp); }, [](picky &p) { return p.v; });
        vh::print_obs({0, r});
        return;
    }
    if (op.size() == 4 && op[0] == 8) {
        long mode = op[1], kind = op[2], code = op[3];
        if (mode < 0 || mode > 4 || kind < 0 || kind > 1) return rej();
        gate g;
        if (kind == 1) g.p.set_value(cocls::drop);
        long r = run_mode<int>(mode, [&] { return cancel_body(kind, code, &g); }, [](int &x) { return (long)x; });
        vh::print_obs({0, r});
        return;
    }
    if (op.size() == 2 && op[0] == 3) {
        long depth = op[1];
        if (depth < 0 || depth > 1000000) return rej();
        g_levels = 0;
        long r = chain(depth).join();
        vh::print_obs({0, r, g_levels});
        return;
    }
    if (op.size() == 4 && op[0] == 4) {
        long kind = op[1], thr = op[2], v = op[3];
        if (kind < 0 || kind > 4 || thr < 0 || thr > 1) return rej();
        long after = 0, r = 0;
        switch (kind) {
            case 0: r = catcher<int>(thr, v, &after).join(); break;
            case 1: r = catcher<std::string>(thr, v, &after).join(); break;
            case 2: r = catcher<std::vector<int>>(thr, v, &after).join(); break;
            case 3: r = catcher<std::unique_ptr<int>>(thr, v, &after).join(); break;
            case 4: r = catcher<void>(thr, v, &after).join(); break;
        }
        vh::print_obs({0, r, after});
        return;
    }
    if (op.size() == 3 && op[0] == 5) {
        long threads = op[1], v = op[2];
        if (threads < 1 || threads > 3) return rej();
        gate g;
        std::atomic<int> ran{0};
        long r;
        {
            cocls::thread_pool pool((unsigned)threads);
            future<int> fw = pool.run(pool_waiter(&g, &ran));
            future<int> fs = pool.run(pool_setter(&g, (int)v));
            r = fw.join();
            fs.join();
        }
        vh::print_obs({0, r, ran.load()});
        return;
    }
    if (op.size() == 4 && op[0] == 1) {
        long kind = op[1], susp = op[2], v = op[3];
        if (kind < 0 || kind > 4 || susp < 0 || susp > 2) return rej();
        long r = 0;
        switch (kind) {
            case 0: r = do_join<int>(susp, v); break;
            case 1: r = do_join<std::string>(susp, v); break;
            case 2: r = do_join<std::vector<int>>(susp, v); break;
            case 3: r = do_join<std::unique_ptr<int>>(susp, v); break;
            case 4: {
                gate g;
                if (susp != 2) g.p(0);
                long ran = 0;
                producer_void(susp, &g, &ran).join();
                r = ran - 1;   // 0 when the body ran exactly once
                break;
            }
        }
        vh::print_obs({0, r});
        return;
    }
    if (op.size() == 5 && op[0] == 2) {
        long how = op[1], npar = op[2], start = op[3], a = op[4];
        if (how < 0 || how > 2 || npar < 1 || npar > 4 || start < 0 || start > 3) return rej();
        St s;
        Worker w;
        St::allocs = St::deallocs = St::bad = 0;
        long res = 0;
        if (start == 0) res = make_coro(s, w, how, npar, a).join();
        else if (start == 1) make_coro(s, w, how, npar, a).detach();
        else if (start == 2) { auto c = make_coro(s, w, how, npar, a); (void)c; }
        else res = async<long>(awaiting(s, &w, how, npar, a)).join();
        vh::print_obs({0, St::allocs, St::deallocs, St::bad, res});
        return;
    }
    rej();
}

}  // namespace

int main(int argc, char **argv) {
    if (argc < 2) return 2;
    for (auto &c : vh::read_cases(argv[1])) {
        std::printf("CASE %s\n", c.name.c_str());
        std::fflush(stdout);
        for (auto &op : c.ops) run_op(op);
        std::printf("END\n");
        std::fflush(stdout);
    }
    return 0;
}
