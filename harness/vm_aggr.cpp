// vm_aggr.cpp — scripted-source driver for cocls::generator_aggregator (C14).
// engines: aggr0 = generator<int>, aggr1 = generator<int,int>.
// ops:  10 k1 a1 k2 a2 ...  define the next source generator (same script language as vm_gen.cpp)
//       0                   build the aggregate from the sources defined so far
//       1 style arg         one access of the aggregate (styles as in vm_gen.cpp)
//       2 src v thr         complete the pending await of source src with v (thr=1: on a fresh thread)
//       3                   destroy the aggregate (runs on the worker thread: it may have to wait for in-flight sources)
//       4                   value() again without advancing
// observation: st kind val done bal ev...   kind as in vm_gen.cpp plus 7 = destroyed (bal = operator new - delete over
//   the whole case, printed only then); ev = (code, source, x) triples
#define VH_DEFINE_NEW
#include "common.h"
#define protected public
#define private public
#include <cocls/generator.h>
#include <cocls/generator_aggregator.h>
#include <cocls/future.h>
#include <cocls/with_allocator.h>
#include <cocls/coro_storage.h>
#undef protected
#undef private

using namespace cocls;
#include "gen_script.h"

enum { K_DESTROYED = 7 };

template <bool A>
struct ACtx {
    Ctx<A> c;   // consumer of the aggregate (its own body fields are unused)
    std::vector<std::unique_ptr<CtxBase>> srcs;
    std::vector<Gen<A>> list;
    bool built = false, destroying = false, destroyed_flag = false;
    vh::alloc_mark start;
};

template <bool A>
static void emit(ACtx<A> &x, long st, Result r, long bal) {
    auto &c = x.c;
    long done = c.gen ? (c.gen->done() ? 1 : 0) : 2;
    if (x.destroying) done = 2;
    std::vector<long> v{st, r.kind, r.val, done, bal};
    for (int i = 0; i < c.sink->nev; i++) v.push_back(c.sink->ev[i]);
    c.sink->nev = 0;
    vh::print_obs(v);
}
template <bool A>
static void reject(ACtx<A> &x) {
    x.c.sink->nev = 0;
    vh::print_obs({1, 0, 0, 0, 0});
}

template <bool A>
static void finish_op(ACtx<A> &x, bool settled) {
    auto &c = x.c;
    if (x.destroying) {
        if (settled) {
            x.destroying = false;
            c.outstanding = false;
            x.destroyed_flag = true;
            Result r;
            r.kind = K_DESTROYED;
            emit(x, 0, r, x.start.news() - x.start.dels());
        } else {
            c.outstanding = true;
            Result r;
            r.kind = K_PEND;
            emit(x, 0, r, 0);
        }
        return;
    }
    if (settled && c.res_ready) {
        c.outstanding = false;
        c.res_ready = false;
        emit(x, 0, c.res, 0);
    } else {
        c.outstanding = true;
        Result r;
        r.kind = K_PEND;
        emit(x, 0, r, 0);
    }
}

template <bool A>
static void run_case(const vh::Case &cs, Worker &w) {
    vh::t_count = false;
    auto xp = std::make_unique<ACtx<A>>();
    ACtx<A> &x = *xp;
    auto &c = x.c;
    c.sink->with_src = true;
    x.srcs.reserve(16);
    vh::t_count = true;
    x.start = vh::alloc_mark();
    for (auto &op : cs.ops) {
        Watchdog::inst().tick();
        if (op.empty()) { reject(x); continue; }
        switch (op[0]) {
            case 10: {
                if (x.built || (op.size() % 2) != 1 || x.srcs.size() >= 12) { reject(x); break; }
                vh::t_count = false;
                x.srcs.emplace_back(new CtxBase());
                CtxBase *s = x.srcs.back().get();
                s->sink = c.sink;
                s->src = (long)x.srcs.size() - 1;
                s->script.assign(op.begin() + 1, op.end());
                vh::t_count = true;
                x.list.push_back(body<A>(s, s->script.data(), (int)s->script.size()));
                emit(x, 0, Result{}, 0);
                break;
            }
            case 0: {
                if (x.built || op.size() != 1) { reject(x); break; }
                x.built = true;
                c.gen.emplace(generator_aggregator<int, std::conditional_t<A, int, void>>(std::move(x.list)));
                emit(x, 0, Result{}, 0);
                break;
            }
            case 1: {
                if (op.size() < 3 || !c.gen || c.outstanding || op[1] < 0 || op[1] > 6 || (A && op[1] == 1)) { reject(x); break; }   // fields after the argument = pop preference, used by the model only
                int style = (int)op[1];
                c.argv = (int)op[2];
                c.res_ready = false;
                if (style == 6) {
                    c.on_thread = false;
                    c.sub_access();
                    finish_op(x, true);
                } else if (style == 3 || style == 4) {
                    c.on_thread = false;
                    c.async_access(style);
                    finish_op(x, true);
                } else {
                    c.on_thread = true;
                    bool settled = w.run([&] { c.sync_access(style); });
                    finish_op(x, settled);
                }
                break;
            }
            case 2: {
                if (op.size() < 4 || !x.built || op[1] < 0 || (size_t)op[1] >= x.srcs.size() || !x.srcs[op[1]]->prom) { reject(x); break; }
                int v = (int)op[2];
                promise<int> p = std::move(x.srcs[op[1]]->prom);
                if (op[3] == 1) {
                    vh::t_count = false;
                    std::thread t([&] {
                        vh::t_count = false;
                        coro_queue::install_queue_and_call([] {});
                        vh::t_count = true;
                        p(v);
                        vh::t_count = false;
                    });
                    t.join();
                    vh::t_count = true;
                } else {
                    p(v);
                }
                if (c.outstanding) {
                    bool settled = true;
                    if (c.on_thread) settled = w.recheck();
                    c.sub_poll();
                    finish_op(x, settled);
                } else {
                    emit(x, 0, Result{}, 0);
                }
                break;
            }
            case 3: {
                if (op.size() != 1 || !c.gen || c.outstanding) { reject(x); break; }
                x.destroying = true;
                c.on_thread = true;
                bool settled = w.run([&] {
                    c.it.reset();
                    c.gen.reset();
                });
                finish_op(x, settled);
                break;
            }
            case 4: {
                if (op.size() != 1 || !c.gen || c.outstanding) { reject(x); break; }
                Result r = c.read_value();
                emit(x, 0, r, 0);
                break;
            }
            default: reject(x); break;
        }
    }
    // never leave a blocked consumer / destructor behind: release every pending source until things settle
    for (int guard = 0; guard < 256 && c.outstanding; guard++) {
        bool any = false;
        for (auto &s : x.srcs)
            if (s->prom) {
                promise<int> p = std::move(s->prom);
                p(0);
                any = true;
                break;
            }
        bool settled = true;
        if (c.on_thread) settled = w.recheck();
        c.sub_poll();
        if (x.destroying) {
            if (settled) { x.destroying = false; c.outstanding = false; }
        } else if (settled && c.res_ready) {
            c.outstanding = false;
        }
        if (!any && c.outstanding) break;
    }
    if (c.outstanding) {
        // the consumer / destructor can never be released (no source is suspended): the worker thread is lost.
        // Finish the case output and ask for a fresh process (vlib.run_impl restarts on exit code 42).
        std::printf("END\n");
        std::fflush(stdout);
        std::_Exit(42);
    }
    if (c.gen) {
        // destroy the aggregate on the worker, releasing pending sources as needed
        x.destroying = true;
        bool settled = w.run([&] { c.it.reset(); c.gen.reset(); });
        for (int guard = 0; guard < 256 && !settled; guard++) {
            for (auto &s : x.srcs)
                if (s->prom) {
                    promise<int> p = std::move(s->prom);
                    p(0);
                    break;
                }
            settled = w.recheck();
        }
        if (!settled) {
            std::printf("END\n");
            std::fflush(stdout);
            std::_Exit(42);
        }
    }
    x.list.clear();
    c.sink->nev = 0;
    vh::t_count = false;
    xp.reset();
    vh::t_count = true;
}

int main(int argc, char **argv) {
    if (argc < 2) return 2;
    coro_queue::install_queue_and_call([] {});
    Watchdog::inst().start();
    Worker w;
    Worker::inst() = &w;
    cocls::verif::get_hooks().block = &Worker::hook_block;
    w.start();
    w.run([] { coro_queue::install_queue_and_call([] {}); });
    for (auto &cs : vh::read_cases(argv[1])) {
        Watchdog::inst().tick();
        std::printf("CASE %s\n", cs.name.c_str());
        std::fflush(stdout);
        if (cs.engine == "aggr1") run_case<true>(cs, w);
        else run_case<false>(cs, w);
        std::printf("END\n");
        std::fflush(stdout);
    }
    Watchdog::inst().tick();
    w.stop();
    Watchdog::inst().finish();
    return 0;
}
