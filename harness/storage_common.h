// storage_common.h — shared pieces of the C19 harnesses (seq_storage.cpp, ctl_storage.cpp).
// Replaces global operator new/delete (instead of common.h's VH_DEFINE_NEW versions) with versions that also keep
// a registry of live heap blocks (base, size, serial), so that a harness can ask which block a frame pointer lies in,
// how much room follows it and whether that block is still allocated.  No expected values here.
#pragma once
#include "common.h"
#include <cocls/with_allocator.h>
#include <cocls/coro_storage.h>
#include <cocls/alloca_storage.h>

namespace sh {

// ---- registry of live heap blocks (counted allocations only) ----
struct Block {
    char *base;
    std::size_t size;
    long serial;
    bool heap;
    bool found;
};
struct Registry {
    static constexpr int N = 8192;
    struct E {
        char *base;
        std::size_t size;
        long serial;
    } e[N];
    int n = 0;
    long serial = 0;
    std::atomic_flag lk = ATOMIC_FLAG_INIT;
    void lock() {
        while (lk.test_and_set(std::memory_order_acquire)) {
        }
    }
    void unlock() { lk.clear(std::memory_order_release); }
    void add(void *p, std::size_t sz) {
        lock();
        if (n < N) e[n++] = {static_cast<char *>(p), sz, ++serial};
        unlock();
    }
    long del(void *p) {   // returns the size of the block, -1 if it was not registered
        long sz = -1;
        lock();
        for (int i = n - 1; i >= 0; i--)
            if (e[i].base == p) {
                sz = (long)e[i].size;
                e[i] = e[--n];
                break;
            }
        unlock();
        return sz;
    }
    Block find(const void *q) {
        const char *p = static_cast<const char *>(q);
        Block b{nullptr, 0, 0, true, false};
        lock();
        for (int i = 0; i < n; i++)
            if (p >= e[i].base && (p < e[i].base + e[i].size || p == e[i].base)) {
                b = {e[i].base, e[i].size, e[i].serial, true, true};
                break;
            }
        unlock();
        return b;
    }
    bool has(const char *base, long ser) {
        bool r = false;
        lock();
        for (int i = 0; i < n; i++)
            if (e[i].base == base && e[i].serial == ser) r = true;
        unlock();
        return r;
    }
    long mark() {
        lock();
        long s = serial;
        unlock();
        return s;
    }
};
inline Registry g_reg;

// recycling mode (ctl_storage engine st_mtr): a freed block is kept and handed out again, most recently freed first, to the
// next request of exactly the same size - what a real malloc does and ASan's allocator deliberately never does. Needed to
// expose code that compares a pointer with a dangling one (the defect repaired by 1b5a79f).
struct Recycler {
    static constexpr int N = 4096;
    struct E {
        void *p;
        std::size_t sz;
    } e[N];
    int n = 0;
    bool on = false;
    std::atomic_flag lk = ATOMIC_FLAG_INIT;
    void lock() {
        while (lk.test_and_set(std::memory_order_acquire)) {
        }
    }
    void unlock() { lk.clear(std::memory_order_release); }
    void *take(std::size_t sz) {
        void *r = nullptr;
        lock();
        for (int i = n - 1; i >= 0; i--)
            if (e[i].sz == sz) {
                r = e[i].p;
                for (int j = i; j + 1 < n; j++) e[j] = e[j + 1];
                n--;
                break;
            }
        unlock();
        return r;
    }
    bool give(void *p, std::size_t sz) {
        bool ok = false;
        lock();
        if (n < N) {
            e[n++] = {p, sz};
            ok = true;
        }
        unlock();
        return ok;
    }
    void flush() {
        lock();
        for (int i = 0; i < n; i++) std::free(e[i].p);
        n = 0;
        unlock();
    }
};
inline Recycler g_rec;
inline thread_local long tl_news = 0, tl_dels = 0;   // per-thread tallies (ctl: another thread may run in the middle of an op)
struct tl_mark {
    long n = tl_news, d = tl_dels;
    long news() const { return tl_news - n; }
    long dels() const { return tl_dels - d; }
};

// ---- own (non-heap) areas: user buffer of placement_alloc, alloca areas of stack_storage ----
struct Area {
    char *base;
    std::size_t size;
};
inline std::vector<Area> g_areas;
inline Block block_of(const void *q) {
    Block b = g_reg.find(q);
    if (b.found) return b;
    const char *p = static_cast<const char *>(q);
    for (auto &a : g_areas)
        if (p >= a.base && (p < a.base + a.size || p == a.base)) return {a.base, a.size, 0, false, true};
    return {nullptr, 0, 0, false, false};
}

// ---- event log of one op: 1 Base::alloc returned, 2 extra object constructed, 3 promise constructed,
//      6 promise destroyed, 4 extra object destroyed, 5 Base::dealloc entered ----
inline thread_local long tl_evs[64];
inline thread_local int tl_nev = 0;
inline void ev(long c) {
    if (tl_nev < 64) tl_evs[tl_nev++] = c;
}

struct xobj {
    long serial;
    long pad[2];
    explicit xobj(long s) : serial(s), pad{s + 1, s + 2} { ev(2); }
    xobj(const xobj &o) : serial(o.serial), pad{o.pad[0], o.pad[1]} { ev(2); }
    ~xobj() { ev(4); }
};
// an over-aligned extra object (alignment 16, like anything holding a long double / __int128 / SSE value) ...
struct alignas(16) xobj16 {
    long serial;
    long pad[3];
    explicit xobj16(long s) : serial(s), pad{s + 1, s + 2, s + 3} { ev(2); }
    xobj16(const xobj16 &o) : serial(o.serial), pad{o.pad[0], o.pad[1], o.pad[2]} { ev(2); }
    ~xobj16() { ev(4); }
};
// ... and a small one whose size is not a multiple of the pointer size
struct xobj4 {
    int serial;
    explicit xobj4(long s) : serial((int)s) { ev(2); }
    xobj4(const xobj4 &o) : serial(o.serial) { ev(2); }
    ~xobj4() { ev(4); }
};

// ---- the coroutine type: a plain task, frame lifetime under the harness's control ----
struct task {
    struct promise_type {
        promise_type() { ev(3); }
        ~promise_type() { ev(6); }
        task get_return_object() { return task{std::coroutine_handle<promise_type>::from_promise(*this)}; }
        std::suspend_never initial_suspend() noexcept { return {}; }
        std::suspend_always final_suspend() noexcept { return {}; }
        void return_void() {}
        void unhandled_exception() { std::terminate(); }
    };
    std::coroutine_handle<promise_type> h;
    task(std::coroutine_handle<promise_type> hh) : h(hh) {}
};

// what the outermost storage saw (thread-local: in ctl runs a thread may be paused inside alloc)
inline thread_local void *tl_top_ptr = nullptr;
inline thread_local std::size_t tl_top_sz = 0;
inline thread_local std::size_t tl_top_dsz = 0;   // size the promise's operator delete handed to the storage

// logs the calls that reach the base policy
template <typename B>
struct spy : B {
    using B::B;
    using B::operator=;
    void *alloc(std::size_t n) {
        void *p = B::alloc(n);
        ev(1);
        return p;
    }
    static void dealloc(void *p, std::size_t n) {
        ev(5);
        B::dealloc(p, n);
    }
};
// records what the coroutine machinery asked for and got
template <typename S>
struct top : S {
    using S::S;
    using S::operator=;
    void *alloc(std::size_t sz) {
        void *p = S::alloc(sz);
        tl_top_ptr = p;
        tl_top_sz = sz;
        return p;
    }
    static void dealloc(void *p, std::size_t sz) {
        tl_top_dsz = sz;
        S::dealloc(p, sz);
    }
};

// coroutines with differently sized frames: N bytes of locals that live across the suspension
template <typename A, std::size_t N>
cocls::with_allocator<A, task> sized_coro(A &, long *canary_ok, unsigned char seed) {
    volatile unsigned char buf[N];
    for (std::size_t i = 0; i < N; i++) buf[i] = static_cast<unsigned char>(seed + 7 * i);
    co_await std::suspend_always{};
    long ok = 1;
    for (std::size_t i = 0; i < N; i++)
        if (buf[i] != static_cast<unsigned char>(seed + 7 * i)) ok = 0;
    *canary_ok = ok;
}

// the same body as a non-static member function and as a lambda: for these the promise's
// `operator new(sz, This&, Allocator&, ...)` overload (with_allocator.h:21-24) is selected instead of the first one.
// Extra parameters make the frame sizes differ from the free-function classes.
struct host {
    long tag = 0;
    template <typename A, std::size_t N>
    cocls::with_allocator<A, task> member_coro(A &, long *canary_ok, unsigned char seed, long extra) {
        volatile unsigned char buf[N];
        for (std::size_t i = 0; i < N; i++) buf[i] = static_cast<unsigned char>(seed + 7 * i + extra);
        co_await std::suspend_always{};
        long ok = 1;
        for (std::size_t i = 0; i < N; i++)
            if (buf[i] != static_cast<unsigned char>(seed + 7 * i + extra)) ok = 0;
        *canary_ok = ok;
    }
};
inline host g_host;

template <typename A, std::size_t N>
std::coroutine_handle<> lambda_coro(A &a, long *canary_ok, unsigned char seed) {
    static auto lam = [](A &, long *cok, unsigned char sd, long e1, long e2, long e3) -> cocls::with_allocator<A, task> {
        volatile unsigned char buf[N];
        for (std::size_t i = 0; i < N; i++) buf[i] = static_cast<unsigned char>(sd + 3 * i + e1 + e2 + e3);
        co_await std::suspend_always{};
        long ok = 1;
        for (std::size_t i = 0; i < N; i++)
            if (buf[i] != static_cast<unsigned char>(sd + 3 * i + e1 + e2 + e3)) ok = 0;
        *cok = ok;
    };
    return lam(a, canary_ok, seed, 1, 2, 3).h;
}

constexpr int n_sizes = 9;
constexpr int n_classes = 3 * n_sizes;   // class k: kind k / 9 (0 free function, 1 member function, 2 lambda), size index k % 9
template <typename A, std::size_t N>
std::coroutine_handle<> start_kind(A &a, int kind, long *ok, unsigned char seed) {
    switch (kind) {
        case 0: return sized_coro<A, N>(a, ok, seed).h;
        case 1: return g_host.member_coro<A, N>(a, ok, seed, 5).h;
        default: return lambda_coro<A, N>(a, ok, seed);
    }
}
template <typename A>
std::coroutine_handle<> start(A &a, int k, long *ok, unsigned char seed) {
    int kind = k / n_sizes;
    switch (k % n_sizes) {
        case 0: return start_kind<A, 1>(a, kind, ok, seed);
        case 1: return start_kind<A, 9>(a, kind, ok, seed);
        case 2: return start_kind<A, 24>(a, kind, ok, seed);
        case 3: return start_kind<A, 40>(a, kind, ok, seed);
        case 4: return start_kind<A, 100>(a, kind, ok, seed);
        case 5: return start_kind<A, 200>(a, kind, ok, seed);
        case 6: return start_kind<A, 500>(a, kind, ok, seed);
        case 7: return start_kind<A, 1000>(a, kind, ok, seed);
        default: return start_kind<A, 3000>(a, kind, ok, seed);
    }
}

// frame size of class k as the compiler requests it (measured, never assumed)
struct measure_storage {
    static inline std::size_t last = 0;
    void *alloc(std::size_t sz) {
        last = sz;
        return ::operator new(sz);
    }
    static void dealloc(void *p, std::size_t) { ::operator delete(p); }
};
inline std::size_t class_size(int k) {
    static std::size_t tbl[n_classes] = {};
    if (k < 0 || k >= n_classes) return 0;
    if (!tbl[k]) {
        bool saved = vh::t_count;
        vh::t_count = false;
        measure_storage m;
        long ok = 0;
        auto h = start(m, k, &ok, 0);
        tbl[k] = measure_storage::last;
        h.resume();
        h.destroy();
        vh::t_count = saved;
    }
    return tbl[k];
}

[[noreturn]] inline void size_mismatch(int k, long given, std::size_t real) {
    std::fprintf(stderr, "SIZE-TABLE-MISMATCH class %d: case file says %ld, compiler says %zu (regenerate the cases)\n", k,
                 given, real);
    std::fflush(stderr);
    std::_Exit(3);
}

}  // namespace sh

void *operator new(std::size_t sz) {
    void *p = (vh::t_count && sh::g_rec.on) ? sh::g_rec.take(sz) : nullptr;
    if (!p) p = std::malloc(sz ? sz : 1);
    if (!p) throw std::bad_alloc();
    if (vh::t_count) {
        vh::g_news.fetch_add(1, std::memory_order_relaxed);
        sh::tl_news++;
        sh::g_reg.add(p, sz);
    }
    return p;
}
void *operator new[](std::size_t sz) {
    if (vh::t_count) vh::g_news_arr.fetch_add(1, std::memory_order_relaxed);
    return ::operator new(sz);
}
void operator delete(void *p) noexcept {
    if (!p) return;
    if (vh::t_count) {
        vh::g_deletes.fetch_add(1, std::memory_order_relaxed);
        sh::tl_dels++;
        long sz = sh::g_reg.del(p);
        if (sh::g_rec.on && sz >= 0 && sh::g_rec.give(p, (std::size_t)sz)) return;
    }
    std::free(p);
}
void operator delete[](void *p) noexcept {
    if (p && vh::t_count) vh::g_deletes_arr.fetch_add(1, std::memory_order_relaxed);
    ::operator delete(p);
}
// sized deallocation: the size must be the size the block was allocated with (what ASan's new-delete-type-mismatch checks
// when operator delete is not replaced); a mismatch ends the case like a sanitizer report would
void operator delete(void *p, std::size_t sz) noexcept {
    if (p && vh::t_count) {
        sh::Block b = sh::g_reg.find(p);
        if (b.found && b.base == p && b.size != sz) {
            std::fprintf(stderr, "==SIZED-DELETE== AddressSanitizer: new-delete-type-mismatch (harness): block of %zu bytes released with size %zu\n", b.size, sz);
            std::fflush(stderr);
            std::_Exit(77);
        }
    }
    ::operator delete(p);
}
void operator delete[](void *p, std::size_t) noexcept { ::operator delete[](p); }
