// ctl.h — controlled-schedule driver: real std::threads (the library uses thread_local state),
// exactly one runnable at a time. Yield points are the guarded COCLS_VERIF_POINT / _BLOCK hooks
// inside the library (and ctl::point / ctl::block_until calls in scenarios). A schedule is a list
// of naturals: choice k selects the (k mod |enabled|)-th enabled thread (ascending tid), in the
// driver and in the Coq model alike, so every list is a valid schedule and replays exactly.
#pragma once
#include "common.h"
#include <cocls/common.h>

namespace ctl {

inline int point_code(const char *id) {
    static const std::pair<const char *, int> tbl[] = {
        {"claim", 1},   {"dtor", 2},    {"resolve", 3}, {"walk", 4},     {"ready", 5},   {"sub", 6},
        {"sub_retry", 7}, {"flagwait", 8}, {"xwait", 9}, {"asub", 10},   {"apub", 11},   {"rchain", 12},
        {"m_try", 20},  {"m_sub", 21},  {"m_pub", 22},  {"m_unlock", 23}, {"m_bq", 24},  {"cs", 25},
        {"step", 30},   {"busy_x", 40}, {"busy_s", 41}, {"sf_dec", 50},   {"sf_sub", 51},
        {"p_lock", 60}, {"p_wait", 61}, {"p_join", 62}, {"q_lock", 70},
        {"p_peek", 63},
        {"q_res", 71},  {"q_wait", 72},
        {"q_res", 71},  {"q_wait", 72}, {"q_destroy", 73},
        {"busy_g", 42},
        {"sf_set", 52}, {"sf_clr", 53}, {"sf_inc", 54},
        {"busy_n", 43},
        {"a_ld", 44},   {"a_st", 45},   {"a_x", 46},    {"a_cas", 47},
        {"wstart", 13},
    };
    for (auto &p : tbl)
        if (!std::strcmp(p.first, id)) return p.second;
    return 99;
}

enum State { NotStarted, AtPoint, Blocked, Finished, Running };

struct Thread {
    std::thread th;
    State state = NotStarted;
    int point = 0;
    bool (*pred)(void *) = nullptr;
    void *ctx = nullptr;
    std::function<void()> fn;
};

struct Controller {
    std::mutex mx;
    std::condition_variable cv;
    int current = -1;  // -1: controller runs
    std::vector<std::unique_ptr<Thread>> ths;
    std::vector<std::pair<int, int>> trace;
    bool deadlock = false;
    std::vector<int> stuck;

    static Controller *&active() {
        static Controller *c = nullptr;
        return c;
    }
    static int &tid() {
        static thread_local int t = -1;
        return t;
    }

    // called on a controlled thread: hand the baton back and wait to be scheduled again
    void yield(State st, int point, bool (*pred)(void *), void *ctx) {
        bool saved = vh::t_count;
        vh::t_count = false;
        {
            std::unique_lock lk(mx);
            Thread &t = *ths[tid()];
            t.state = st;
            t.point = point;
            t.pred = pred;
            t.ctx = ctx;
            current = -1;
            cv.notify_all();
            cv.wait(lk, [&] { return current == tid(); });
            t.state = Running;
        }
        vh::t_count = saved;
    }

    static void hook_point(const char *id) {
        Controller *c = active();
        if (!c || tid() < 0) return;
        c->yield(AtPoint, point_code(id), nullptr, nullptr);
    }
    static void hook_block(const char *id, bool (*pred)(void *), void *ctx) {
        Controller *c = active();
        if (!c || tid() < 0) return;
        c->yield(Blocked, point_code(id), pred, ctx);
    }

    void wait_controller(std::unique_lock<std::mutex> &lk) {
        cv.wait(lk, [&] { return current == -1; });
    }

    // runs the threads under the schedule; returns when no thread is enabled
    // init_order (optional): the order in which the threads run up to their first yield point; default 0..n-1
    void run(std::vector<std::function<void()>> fns, const std::vector<long> &sched,
             const std::vector<int> &init_order = {}) {
        vh::t_count = false;
        active() = this;
        auto &h = cocls::verif::get_hooks();
        h.point = &hook_point;
        h.block = &hook_block;
        int n = (int)fns.size();
        for (int i = 0; i < n; i++) {
            ths.emplace_back(new Thread());
            ths[i]->fn = std::move(fns[i]);
        }
        for (int i = 0; i < n; i++) {
            ths[i]->th = std::thread([this, i] {
                tid() = i;
                {
                    std::unique_lock lk(mx);
                    cv.wait(lk, [&] { return current == i; });
                    ths[i]->state = Running;
                }
                vh::t_count = true;
                ths[i]->fn();
                vh::t_count = false;
                std::unique_lock lk(mx);
                ths[i]->state = Finished;
                current = -1;
                cv.notify_all();
            });
        }
        std::unique_lock lk(mx);
        // init phase: every thread runs up to its first yield point (no trace entry)
        for (int j = 0; j < n; j++) {
            current = (int)init_order.size() == n ? init_order[j] : j;
            cv.notify_all();
            wait_controller(lk);
        }
        size_t si = 0;
        for (;;) {
            std::vector<int> en;
            for (int i = 0; i < n; i++) {
                Thread &t = *ths[i];
                if (t.state == AtPoint) en.push_back(i);
                else if (t.state == Blocked && t.pred(t.ctx)) en.push_back(i);
            }
            if (en.empty()) break;
            long k = si < sched.size() ? sched[si] : 0;
            si++;
            if (k < 0) k = -k;
            int pick = en[k % en.size()];
            trace.push_back({pick, ths[pick]->point});
            current = pick;
            cv.notify_all();
            wait_controller(lk);
        }
        for (int i = 0; i < n; i++)
            if (ths[i]->state != Finished) {
                deadlock = true;
                stuck.push_back(i);
            }
        lk.unlock();
        h.point = nullptr;
        h.block = nullptr;
        active() = nullptr;
        if (!deadlock)
            for (auto &t : ths) t->th.join();
        vh::t_count = true;
    }

    void print_trace() {
        for (auto &p : trace) vh::print_obs({(long)p.first, (long)p.second});
        if (deadlock) {
            std::vector<long> v{777};
            for (int s : stuck) v.push_back(s);
            vh::print_obs(v);
        }
    }
};

inline void point(const char *id) { Controller::hook_point(id); }
template <typename P>
inline void block_until(const char *id, P &&pred) {
    Controller::hook_block(
        id, [](void *c) -> bool { return (*static_cast<std::remove_reference_t<P> *>(c))(); }, &pred);
}

// after a deadlocked case the blocked threads cannot be joined: finish the case output and restart the process
inline void finish_case_or_restart(Controller &c) {
    if (c.deadlock) {
        std::printf("END\n");
        std::fflush(stdout);
        std::_Exit(42);
    }
}

}  // namespace ctl
