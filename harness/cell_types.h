// cell_types.h — value types and payload helpers shared by the future/promise harnesses (seq_prom.cpp).
// (ctl_cell.cpp carries its own identical copy.)
#pragma once
struct test_exc {
    long code;
};

struct counted {
    static inline std::atomic<long> live{0};
    long v;
    counted(long x) : v(x) { live++; }
    counted(const counted &o) : v(o.v) { live++; }
    counted(counted &&o) : v(o.v) { live++; }
    ~counted() { live--; }
};

template <typename T>
struct traits;
template <>
struct traits<int> {
    static bool set(promise<int> &p, long v) { return p((int)v); }
    static int make(long v) { return (int)v; }
    static long get(int &x) { return x; }
};
template <>
struct traits<void> {
    static bool set(promise<void> &p, long) { return p(); }
};
template <>
struct traits<std::unique_ptr<int>> {
    static bool set(promise<std::unique_ptr<int>> &p, long v) { return p(std::make_unique<int>((int)v)); }
    static std::unique_ptr<int> make(long v) { return std::make_unique<int>((int)v); }
    static long get(std::unique_ptr<int> &x) { return x ? *x : -12345; }
};
static long g_refcells[64];
template <>
struct traits<long &> {
    static long &make(long v) {
        static std::atomic<int> n{0};
        long &cell = g_refcells[n++ % 64];
        cell = v;
        return cell;
    }
    static bool set(promise<long &> &p, long v) { return p(make(v)); }
    static long get(long &x) { return x; }
};
template <>
struct traits<counted> {
    static bool set(promise<counted> &p, long v) { return p(counted(v)); }
    static counted make(long v) { return counted(v); }
    static long get(counted &x) { return x.v; }
};

