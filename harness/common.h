// common.h — shared pieces of the correspondence harnesses (built from /repo's working tree).
// The harness never contains expected values; it only executes ops and prints observations.
#pragma once
#include <algorithm>
#include <atomic>
#include <cassert>
#include <chrono>
#include <condition_variable>
#include <coroutine>
#include <cstdio>
#include <cstdlib>
#include <cstring>
#include <deque>
#include <exception>
#include <fstream>
#include <functional>
#include <iostream>
#include <map>
#include <memory>
#include <mutex>
#include <new>
#include <optional>
#include <queue>
#include <set>
#include <sstream>
#include <stop_token>
#include <string>
#include <thread>
#include <tuple>
#include <utility>
#include <variant>
#include <vector>

// ---- allocation accounting (global operator new/delete replaced) ----
namespace vh {
inline std::atomic<long> g_news{0}, g_deletes{0};          // every operator new / delete (scalar + array)
inline std::atomic<long> g_news_arr{0}, g_deletes_arr{0};  // operator new[] / delete[] only
inline thread_local bool t_count = true;
struct alloc_mark {
    long n, d, na, da;
    alloc_mark() : n(g_news.load()), d(g_deletes.load()), na(g_news_arr.load()), da(g_deletes_arr.load()) {}
    long news() const { return g_news.load() - n; }
    long dels() const { return g_deletes.load() - d; }
    long arr_news() const { return g_news_arr.load() - na; }
    long arr_dels() const { return g_deletes_arr.load() - da; }
    long scalar_news() const { return news() - arr_news(); }
    long scalar_dels() const { return dels() - arr_dels(); }
};
}  // namespace vh

#ifdef VH_DEFINE_NEW
void *operator new(std::size_t sz) {
    if (vh::t_count) vh::g_news.fetch_add(1, std::memory_order_relaxed);
    void *p = std::malloc(sz ? sz : 1);
    if (!p) throw std::bad_alloc();
    return p;
}
void *operator new[](std::size_t sz) {
    if (vh::t_count) vh::g_news_arr.fetch_add(1, std::memory_order_relaxed);
    return ::operator new(sz);
}
void operator delete(void *p) noexcept {
    if (!p) return;
    if (vh::t_count) vh::g_deletes.fetch_add(1, std::memory_order_relaxed);
    std::free(p);
}
void operator delete[](void *p) noexcept {
    if (p && vh::t_count) vh::g_deletes_arr.fetch_add(1, std::memory_order_relaxed);
    ::operator delete(p);
}
void operator delete(void *p, std::size_t) noexcept { ::operator delete(p); }
void operator delete[](void *p, std::size_t) noexcept { ::operator delete[](p); }
#endif

namespace vh {

struct Case {
    std::string engine, name;
    std::vector<std::vector<long>> ops;
};

inline std::vector<Case> read_cases(const char *path) {
    std::vector<Case> out;
    std::ifstream in(path);
    std::string line;
    Case cur;
    bool open = false;
    while (std::getline(in, line)) {
        if (line.empty()) continue;
        std::istringstream ss(line);
        if (!open) {
            std::string kw;
            ss >> kw;
            if (kw != "CASE") continue;
            cur = Case();
            ss >> cur.engine >> cur.name;
            open = true;
        } else if (line == "END") {
            out.push_back(cur);
            open = false;
        } else {
            std::vector<long> v;
            long x;
            while (ss >> x) v.push_back(x);
            cur.ops.push_back(v);
        }
    }
    return out;
}

inline void print_obs(const std::vector<long> &v) {
    for (size_t i = 0; i < v.size(); i++) std::printf(i ? " %ld" : "%ld", v[i]);
    std::printf("\n");
    std::fflush(stdout);
}

// ---- a plain test coroutine: every resume logs its id and suspends again ----
struct tco {
    struct promise_type {
        tco get_return_object() { return tco{std::coroutine_handle<promise_type>::from_promise(*this)}; }
        std::suspend_always initial_suspend() noexcept { return {}; }
        std::suspend_always final_suspend() noexcept { return {}; }
        void return_void() {}
        void unhandled_exception() { std::terminate(); }
    };
    std::coroutine_handle<promise_type> h;
};

inline tco logging_coro(long id, std::vector<long> *log) {
    for (;;) {
        {
            bool saved = t_count;
            t_count = false;   // the harness's own log is not part of the measured allocations
            log->push_back(id);
            t_count = saved;
        }
        co_await std::suspend_always{};
    }
}

}  // namespace vh
