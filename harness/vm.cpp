// vm.cpp — correspondence engine "vm": scripted async<int> coroutines on one thread.
// One generic coroutine `run_script(ctx,id,guard)` interprets the script of coroutine `id`; normal code interprets
// the script of owner 0. Both log the events of coq/CoroVMDefs.v (one line per event, flushed at once).
// Case file line:  owner opcode args...   (see decode_instr in CoroVMDefs.v)
// The harness contains no expected values: it executes instructions, checks only API preconditions
// (object exists / coroutine not started yet) and prints what it sees.
#define VH_DEFINE_NEW
#include "common.h"
#include <unistd.h>
#define protected public
#define private public
#include <cocls/async.h>
#include <cocls/future.h>
#undef protected
#undef private

using cocls::async;
using cocls::future;
using cocls::promise;
using cocls::suspend_point;

namespace {

struct test_exc {
    long e;
};

enum Why { W_DISCARD = 0, W_SPAWAIT = 1, W_SELF = 2, W_PAUSE = 3, W_FINAL = 4, W_NONE = 9 };
enum Stat { Unmade, Created, Started, Done };

struct Ctx;
Ctx *g_ctx = nullptr;

// argument guard: the instance living in the coroutine frame reports the destruction of the frame
struct guard {
    Ctx *ctx;
    long id;
    bool in_frame;
    guard(Ctx *c, long i) : ctx(c), id(i), in_frame(false) {}
    guard(guard &&o) : ctx(o.ctx), id(o.id), in_frame(true) {}
    guard(const guard &) = delete;
    ~guard();
};

async<int> run_script(Ctx *ctx, long id, guard g);

struct Coro {
    Stat st = Unmade;
    std::optional<async<int>> obj;
    bool finished = false;
};

struct Ctx {
    std::map<long, std::vector<std::vector<long>>> scripts;
    std::map<long, Coro> coros;
    std::map<void *, long> addr2id;
    std::map<long, std::unique_ptr<future<int>>> futs;
    std::map<long, promise<int>> proms;
    long current = 0;
    int phase = W_NONE;
    bool quiet = false;

    void event(std::initializer_list<long> l) {
        if (quiet) return;
        bool saved = vh::t_count;
        vh::t_count = false;
        vh::print_obs(std::vector<long>(l));
        vh::t_count = saved;
    }
    void on_run(long id) {
        current = id;
        phase = W_NONE;
        event({1, id});
    }
    void bad(long me) { event({8, me}); }
    bool created(long c) { return coros.count(c) && coros[c].st == Created; }
    bool fut_exists(long f) { return futs.count(f) != 0; }

    void make(long c) {
        bool saved = vh::t_count;
        vh::t_count = false;
        Coro &k = coros[c];
        vh::t_count = saved;
        k.obj.emplace(run_script(this, c, guard(this, c)));
        k.st = Created;
        vh::t_count = false;
        addr2id[k.obj->_h.address()] = c;
        vh::t_count = saved;
        event({9, c});
    }
    void ensure_made(long c) {
        if (c != 0 && (!coros.count(c) || coros[c].st == Unmade)) make(c);
    }
    // hands the async object over to the caller (it is about to be started)
    async<int> take(long c) {
        Coro &k = coros[c];
        async<int> a(std::move(*k.obj));
        k.obj.reset();
        k.st = Started;
        return a;
    }
    static long qlen() { return (long)cocls::coro_queue::queue_impl::instance._queue.size(); }

    // instructions that never suspend the caller; returns false if the instruction is not one of them
    bool plain(long me, const std::vector<long> &I);
    void fin(long me, long kind, long v) {
        coros[me].finished = true;
        coros[me].st = Done;
        event({3, me, kind, v});
        phase = W_FINAL;
    }
};

guard::~guard() {
    if (in_frame) ctx->event({10, id});
}

void hook_log(const char *id, long a, long) {
    Ctx *c = g_ctx;
    if (!c) return;
    bool saved = vh::t_count;
    vh::t_count = false;
    auto it = c->addr2id.find(reinterpret_cast<void *>(a));
    long who = it == c->addr2id.end() ? -1 : it->second;
    vh::t_count = saved;
    if (!std::strcmp(id, "q_enq")) {
        long why = c->phase;
        if (why == W_SPAWAIT && who == c->current) why = W_SELF;
        c->event({5, who, c->current, why});
    } else if (!std::strcmp(id, "q_deq")) {
        c->event({6, who});
    } else if (!std::strcmp(id, "q_unq")) {
        c->event({18, who});
    }
}

long nat(long x) { return x < 0 ? 0 : x; }

// decoded instruction: op = 0 means IBad
struct Ins {
    long op = 0, a = 0, b = 0, c = 0, d = 0;
};
Ins decode(const std::vector<long> &l) {
    // l = owner opcode args...
    static const int arity[] = {-1, 1, 0, 1, 1, 2, 2, 3, 1, 1, 4, 1, 1, 1};
    Ins r;
    if (l.size() < 2) return r;
    long op = l[1];
    if (op < 1 || op > 13 || (long)l.size() - 2 != arity[op]) return r;
    r.op = op;
    if (l.size() > 2) r.a = l[2];
    if (l.size() > 3) r.b = l[3];
    if (l.size() > 4) r.c = l[4];
    if (l.size() > 5) r.d = l[5];
    return r;
}

suspend_point<bool> do_resolve(promise<int> &p, long kind, long v) {
    if (kind == 0) return p((int)v);
    if (kind == 1) return p.set_exception(std::make_exception_ptr(test_exc{v}));
    return p.set_value(cocls::drop);
}
long res_kind(long k) { return k == 0 ? 0 : k == 1 ? 1 : 2; }

bool Ctx::plain(long me, const std::vector<long> &line) {
    Ins I = decode(line);
    switch (I.op) {
        case 0: bad(me); return true;
        case 1: event({4, me, I.a}); return true;
        case 3: {
            long c = nat(I.a);
            if (c == 0 || (coros.count(c) && coros[c].st != Unmade)) bad(me);
            else make(c);
            return true;
        }
        case 4: {
            long c = nat(I.a);
            if (!created(c)) { bad(me); return true; }
            coros[c].st = Done;
            coros[c].obj.reset();   // ~async
            return true;
        }
        case 5: {
            long c = nat(I.a);
            bool aw = I.b != 0;
            ensure_made(c);
            if (!created(c) || (aw && me == 0)) { bad(me); return true; }
            if (aw) return false;
            async<int> a = take(c);
            event({16, c, 0, 0});
            phase = W_DISCARD;
            a.detach();
            phase = W_NONE;
            return true;
        }
        case 6: {
            long c = nat(I.a), f = nat(I.b);
            ensure_made(c);
            if (!created(c) || fut_exists(f)) { bad(me); return true; }
            async<int> a = take(c);
            event({16, c, 1, f});
            bool nested = cocls::coro_queue::is_active();
            if (nested) event({15, me, c});
            {
                bool saved = vh::t_count;
                vh::t_count = false;
                auto &slot = futs[f];
                proms[f];
                vh::t_count = saved;
                slot.reset(new future<int>(a.start()));
            }
            if (nested) {
                current = me;
                phase = W_NONE;
                event({13, me});
            }
            return true;
        }
        case 7: {
            long c = nat(I.a), f = nat(I.b);
            bool aw = I.c != 0;
            ensure_made(c);
            if (!created(c) || (aw && me == 0) || !fut_exists(f)) { bad(me); return true; }
            if (aw) return false;
            {
                suspend_point<bool> sp = coros[c].obj->start(proms[f]);
                bool ok = sp;
                if (ok) {
                    coros[c].st = Started;
                    coros[c].obj.reset();
                    event({16, c, 1, f});
                }
                event({12, me, ok ? 1 : 0});
                phase = W_DISCARD;
            }
            phase = W_NONE;
            return true;
        }
        case 9: {
            long f = nat(I.a);
            if (fut_exists(f)) { bad(me); return true; }
            bool saved = vh::t_count;
            vh::t_count = false;
            auto &slot = futs[f];
            auto &p = proms[f];
            vh::t_count = saved;
            slot.reset(new future<int>());
            p = slot->get_promise();
            return true;
        }
        case 10: {
            long f = nat(I.a);
            bool aw = I.d != 0;
            if (aw && me == 0) { bad(me); return true; }
            if (!fut_exists(f)) { bad(me); return true; }
            if (aw) return false;
            {
                suspend_point<bool> sp = do_resolve(proms[f], I.b, I.c);
                bool ok = sp;
                if (ok) event({17, me, f, res_kind(I.b), I.b == 0 || I.b == 1 ? I.c : 0});
                event({12, me, ok ? 1 : 0});
                phase = W_DISCARD;
            }
            phase = W_NONE;
            return true;
        }
        case 2: case 8: case 11: case 12: case 13:
            if (me == 0) { bad(me); return true; }
            return false;
    }
    bad(me);
    return true;
}

async<int> run_script(Ctx *ctx, long id, guard g) {
    ctx->on_run(id);
    const auto &sc = ctx->scripts[id];
    for (size_t pc = 0; pc < sc.size(); ++pc) {
        const auto &line = sc[pc];
        if (ctx->plain(id, line)) continue;
        Ins I = decode(line);
        switch (I.op) {
            case 2:
                ctx->event({2, id});
                ctx->phase = W_PAUSE;
                co_await cocls::pause();
                ctx->on_run(id);
                break;
            case 5: {   // co_await c.detach()
                long c = nat(I.a);
                async<int> a = ctx->take(c);
                ctx->event({16, c, 0, 0});
                suspend_point<void> sp = a.detach();
                if (!sp.empty()) {
                    ctx->event({2, id});
                    ctx->phase = W_SPAWAIT;
                    co_await sp;
                    ctx->on_run(id);
                }
                break;
            }
            case 7: {   // co_await c.start(promise f)
                long c = nat(I.a), f = nat(I.b);
                suspend_point<bool> sp = ctx->coros[c].obj->start(ctx->proms[f]);
                bool ok = sp;
                if (ok) {
                    ctx->coros[c].st = Started;
                    ctx->coros[c].obj.reset();
                    ctx->event({16, c, 1, f});
                }
                ctx->event({12, id, ok ? 1 : 0});
                if (!sp.empty()) {
                    ctx->event({2, id});
                    ctx->phase = W_SPAWAIT;
                    co_await sp;
                    ctx->on_run(id);
                }
                break;
            }
            case 8: {   // co_await child
                long c = nat(I.a);
                ctx->ensure_made(c);
                if (!ctx->created(c)) { ctx->bad(id); break; }
                async<int> a = ctx->take(c);
                ctx->event({16, c, 2, id});
                ctx->event({2, id});
                long k = 0, v = 0;
                try {
                    v = co_await a;
                } catch (test_exc &e) {
                    k = 1; v = e.e;
                } catch (cocls::await_canceled_exception &) {
                    k = 2; v = 0;
                }
                ctx->on_run(id);
                ctx->event({11, id, 2 * c + 1, k, v});
                break;
            }
            case 10: {  // co_await promise(...)
                long f = nat(I.a);
                suspend_point<bool> sp = do_resolve(ctx->proms[f], I.b, I.c);
                bool ok = sp;
                if (ok) ctx->event({17, id, f, res_kind(I.b), I.b == 0 || I.b == 1 ? I.c : 0});
                ctx->event({12, id, ok ? 1 : 0});
                if (!sp.empty()) {
                    ctx->event({2, id});
                    ctx->phase = W_SPAWAIT;
                    co_await sp;
                    ctx->on_run(id);
                }
                break;
            }
            case 11: {  // co_await future
                long f = nat(I.a);
                if (!ctx->fut_exists(f)) { ctx->bad(id); break; }
                future<int> &F = *ctx->futs[f];
                bool susp = !F.ready();
                if (susp) ctx->event({2, id});
                long k = 0, v = 0;
                try {
                    v = co_await F;
                } catch (test_exc &e) {
                    k = 1; v = e.e;
                } catch (cocls::await_canceled_exception &) {
                    k = 2; v = 0;
                }
                if (susp) ctx->on_run(id);
                ctx->event({11, id, 2 * f, k, v});
                break;
            }
            case 12:
                ctx->fin(id, 0, I.a);
                co_return (int)I.a;
            case 13:
                ctx->fin(id, 1, I.a);
                throw test_exc{I.a};
        }
    }
    ctx->fin(id, 0, 0);
    co_return 0;
}

// returns true when the case left coroutines that can never finish (the process must be restarted)
bool run_case(const vh::Case &cs) {
    bool stuck_any = false;
    {
        vh::t_count = false;
        auto *ctx = new Ctx();
        g_ctx = ctx;
        for (auto &l : cs.ops) {
            long owner = l.empty() ? 0 : nat(l[0]);
            ctx->scripts[owner].push_back(l);
        }
        vh::t_count = true;
        for (auto &line : ctx->scripts[0]) {
            ctx->current = 0;
            ctx->phase = W_NONE;
            ctx->plain(0, line);
            ctx->event({7, cocls::coro_queue::is_active() ? 1 : 0, Ctx::qlen()});
        }
        long stuck = 0, unstarted = 0;
        for (auto &kv : ctx->coros) {
            if (kv.second.st == Started) stuck++;
            if (kv.second.st == Created) unstarted++;
        }
        ctx->event({14, stuck, unstarted});
        ctx->quiet = true;
        stuck_any = stuck > 0;
        if (!stuck_any) {
            ctx->coros.clear();   // unstarted frames go away with their async objects
            ctx->proms.clear();   // unresolved promises resolve their (waiter-less) futures
            ctx->futs.clear();
            g_ctx = nullptr;
            vh::t_count = false;
            delete ctx;
            vh::t_count = true;
        }
    }
    return stuck_any;
}

}  // namespace

int main(int argc, char **argv) {
    if (argc < 2) return 2;
    cocls::verif::get_hooks().log = &hook_log;
    auto cases = vh::read_cases(argv[1]);
    for (auto &c : cases) {
        std::printf("CASE %s\n", c.name.c_str());
        std::fflush(stdout);
        bool stuck = run_case(c);
        std::printf("END\n");
        std::fflush(stdout);
        if (stuck) _exit(42);
    }
    return 0;
}
