// ctl_signal.cpp — controlled-schedule scenarios for cocls::signal<T> used across threads (C15: listeners
// subscribing on another thread than the collector).  Model: coq/SignalXDefs.v (engine sx_i).
// threads: 1 kind limit   subscriber (kind 0 plain coroutine co_await e; 1 blocking: future coroutine + .wait();
//                                     2 sig.connect(callback staying for `limit` calls, 0 = for ever);
//                                     3 detached cocls::async<void> coroutine co_await e;
//                                     4 plain coroutine awaiting signal<T>::hook_up(fn): fn hands the collector to the collector
//                                       thread, which is blocked until then and emits while the hook-up is still running;
//                                       only together with exactly one collector thread and nothing else)
//          2 a1 a2 ...    collector thread (1 = collector(next value 1,2,..), 0 = drop the handle, ends the list)
//          9 ...          schedule
// yield points: asub / apub / rchain / walk in awaiter.h, the flag wait of co_awaiter::sync, and the scenario's
// own "step" before each collector action; every other library hook point is passed without yielding.
// output: "tid point" per step, "777 tids" when threads are stuck, "8 kind id value" per event
// (1 Recv, 2 Cancel, 3 Call, 4 Free), "9 strong chainlen" at the end
#define VH_DEFINE_NEW
#include "ctl.h"
#define protected public
#define private public
#include <cocls/signal.h>
#include <cocls/future.h>
#include <cocls/async.h>
#undef protected
#undef private

using namespace cocls;

struct Val {
    long v;
    Val(long x) : v(x) {}
    Val(const Val &o) : v(o.v) {}
    Val(Val &&o) : v(o.v) { *(volatile long *)&o.v = -555; }
    ~Val() { *(volatile long *)&v = -777; }
};
using sig_t = signal<Val>;

static std::vector<std::vector<long>> g_events;
static void ev(long k, long id, long v) {
    bool saved = vh::t_count;
    vh::t_count = false;
    g_events.push_back({8, k, id, v});
    vh::t_count = saved;
}

// only the points the model treats as steps yield
static void filtered_point(const char *id) {
    int c = ctl::point_code(id);
    if (c == 10 || c == 11 || c == 12 || c == 4) ctl::Controller::hook_point(id);
}

struct plain_co {
    struct promise_type {
        plain_co get_return_object() { return plain_co{std::coroutine_handle<promise_type>::from_promise(*this)}; }
        std::suspend_never initial_suspend() noexcept { return {}; }
        std::suspend_always final_suspend() noexcept { return {}; }
        void return_void() {}
        void unhandled_exception() { std::terminate(); }
    };
    std::coroutine_handle<promise_type> h;
};

template <typename E>
static plain_co hook_listener(long id, E e) {
    try {
        Val &v = co_await e;
        ev(1, id, v.v);
    } catch (const await_canceled_exception &) {
        ev(2, id, 0);
    }
}
static plain_co plain_listener(long id, sig_t::emitter e) {
    try {
        Val &v = co_await e;
        ev(1, id, v.v);
    } catch (const await_canceled_exception &) {
        ev(2, id, 0);
    }
}
static async<void> detached_listener(long id, sig_t::emitter e) {
    try {
        Val &v = co_await e;
        ev(1, id, v.v);
    } catch (const await_canceled_exception &) {
        ev(2, id, 0);
    }
}
static future<long> future_listener(sig_t::emitter e) {
    Val &v = co_await e;
    co_return v.v;
}

struct Cb {
    long id, limit, cnt = 0;
    bool live = true;
    Cb(long id, long limit) : id(id), limit(limit) {}
    Cb(Cb &&o) : id(o.id), limit(o.limit), cnt(o.cnt), live(o.live) { o.live = false; }
    Cb(const Cb &) = delete;
    ~Cb() { if (live) ev(4, id, 0); }
    bool operator()(Val &v) {
        ++cnt;
        ev(3, id, v.v);
        return limit == 0 || cnt < limit;
    }
};

static void run_case(const vh::Case &cs) {
    struct Decl { int role; long kind, limit; std::vector<long> acts; };
    std::vector<Decl> decl;
    std::vector<long> sched;
    for (auto &op : cs.ops) {
        if (op.empty()) continue;
        if (op[0] == 1 && op.size() == 3 && op[1] >= 0 && op[1] <= 4 && op[2] >= 0 && op[2] <= 9) decl.push_back({1, op[1], op[2], {}});
        else if (op[0] == 2) {
            Decl d{2, 0, 0, {}};
            for (size_t i = 1; i < op.size(); i++) {
                if (op[i] == 1) d.acts.push_back(1);
                else { d.acts.push_back(0); break; }
            }
            decl.push_back(d);
        } else if (op[0] == 9) sched.insert(sched.end(), op.begin() + 1, op.end());
    }
    int ncoll = 0, nhook = 0;
    for (auto &d : decl) { ncoll += d.role == 2; nhook += d.role == 1 && d.kind == 4; }
    if (ncoll != 1 || decl.size() > 6 || (nhook && decl.size() != 2)) { vh::print_obs({1}); return; }
    bool hook = nhook > 0;
    int n = (int)decl.size();
    g_events.clear();
    vh::t_count = false;
    std::optional<sig_t> sig;
    std::optional<sig_t::collector> col;
    sig_t::emitter em;
    std::atomic<bool> registered{false};
    if (!hook) {     // hook-up case: the state is created by the listener's first await
        sig.emplace();
        col.emplace(sig->get_collector());
        em = sig->get_emitter();
    }
    std::vector<std::optional<sig_t>> own(n);     // a connecting thread's own signal object
    for (int i = 0; i < n; i++)
        if (decl[i].role == 1 && decl[i].kind == 2) own[i].emplace(*sig);
    sig.reset();
    std::vector<plain_co> plain(n);
    std::weak_ptr<std::remove_reference_t<decltype(*std::declval<sig_t::collector &>()._state)>> probe;
    if (!hook) probe = col->_state;
    long nextv = 1;
    vh::t_count = true;
    std::vector<std::function<void()>> fns;
    for (int i = 0; i < n; i++) {
        Decl d = decl[i];
        if (d.role == 2) {
            fns.push_back([&, d] {
                if (hook) ctl::block_until("xwait", [&] { return registered.load(); });
                for (long a : d.acts) {
                    ctl::point("step");
                    if (a == 1) {
                        (*col)(nextv++);      // result discarded in ordinary code: listeners resumed here
                    } else {
                        col.reset();
                    }
                }
            });
        } else {
            fns.push_back([&, i, d] {
                cocls::verif::get_hooks().point = &filtered_point;
                switch (d.kind) {
                    case 0: plain[i] = plain_listener(i, em); break;
                    case 3: detached_listener(i, em).detach(); break;
                    case 1: {
                        future<long> f = future_listener(em);
                        try {
                            long v = f.wait();
                            ev(1, i, v);
                        } catch (const await_canceled_exception &) {
                            ev(2, i, 0);
                        }
                        break;
                    }
                    case 4: {
                        auto reg = [&](sig_t::collector c) {
                            bool saved = vh::t_count;
                            vh::t_count = false;
                            probe = c._state;
                            col.emplace(std::move(c));      // from now on the collector thread can call it
                            vh::t_count = saved;
                            registered.store(true);
                        };
                        auto e = sig_t::hook_up(reg);
                        plain[i] = hook_listener(i, std::move(e));
                        break;
                    }
                    case 2: {
                        sig_t s(std::move(*own[i]));
                        own[i].reset();
                        s.connect(Cb(i, d.limit));
                        break;
                    }
                }
            });
        }
    }
    // the collector thread may be thread 0: install the filter from it as well, before its first point
    for (int i = 0; i < n; i++)
        if (decl[i].role == 2) {
            auto inner = std::move(fns[i]);
            fns[i] = [inner = std::move(inner)] {
                cocls::verif::get_hooks().point = &filtered_point;
                inner();
            };
        }
    ctl::Controller c;
    c.run(std::move(fns), sched);
    c.print_trace();
    for (auto &e : g_events) vh::print_obs(e);
    ctl::finish_case_or_restart(c);
    long strong = probe.use_count();
    long chainlen = 0;
    if (auto sp = probe.lock()) {
        strong = probe.use_count() - 1;
        for (awaiter *a = sp->_chain.load(); a; a = a->_next) chainlen++;
    }
    vh::print_obs({9, strong, chainlen});
    // teardown (not observed)
    vh::t_count = false;
    col.reset();
    for (auto &o : own) o.reset();
    for (auto &p : plain)
        if (p.h) p.h.destroy();
    g_events.clear();
    vh::t_count = true;
}

int main(int argc, char **argv) {
    if (argc < 2) return 2;
    for (auto &cs : vh::read_cases(argv[1])) {
        std::printf("CASE %s\n", cs.name.c_str());
        std::fflush(stdout);
        run_case(cs);
        std::printf("END\n");
        std::fflush(stdout);
    }
    return 0;
}
