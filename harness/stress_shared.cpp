// stress_shared.cpp — free-running (uncontrolled) stress scenario for C17: two threads drop the LAST TWO handles of a
// still pending shared_future at the same time (spin barrier, real parallelism), the future is resolved afterwards.
// The window between "decide whether I am the last owner" and "release my reference" of a handle drop is inside
// std::shared_ptr / the handle's destructor and cannot be reached by the hook points of the controlled engine.
// engine: sf_stress    op: [7 rounds mode rkind dropkind]
//    mode      0 ctor(fn(promise))  1 ctor(fn -> future)  2 default + get_promise()  3 init_if_needed + copy + get_promise() on the copy
//    rkind     0 value  1 exception  2 drop
//    dropkind  0 destructor  1 move assignment of an empty handle  2 copy assignment from a handle of another (ready) state
// observation: [7 ok live leak]   ok = every round left no stored value alive after the resolution (state freed, once);
// the number of rounds actually run is bounded by time and deliberately not part of the observation.
// A premature free shows as the library's assertion "Destroy of pending future" or an ASan report (CRASH line).
// The harness contains no expected values.
#define VH_DEFINE_NEW
#include "common.h"
#include <sanitizer/lsan_interface.h>
#include <cocls/future.h>
#include <cocls/shared_future.h>

using namespace cocls;

struct counted {
    static inline std::atomic<long> live{0};
    long v;
    char pad[96];
    counted(long x) : v(x) { std::memset(pad, 0x5a, sizeof(pad)); live++; }
    counted(const counted &o) : v(o.v) { std::memset(pad, 0x5a, sizeof(pad)); live++; }
    ~counted() { live--; }
};
struct test_exc {
    long code;
    counted c;
    explicit test_exc(long x) : code(x), c(x) {}
};
using SF = shared_future<counted>;

struct Holder {
    promise<counted> p;
    explicit Holder(promise<counted> &&x) : p(std::move(x)) {}
    explicit Holder(SF &s) : p(s.get_promise()) {}
};

static inline void spin_until(const std::function<bool()> &f) {
    for (unsigned n = 0; !f(); n++)
        if ((n & 1023) == 1023) std::this_thread::yield();
}

static void run_case(const vh::Case &cs) {
    for (auto &op : cs.ops) {
        if (!(op.size() == 5 && op[0] == 7 && op[1] >= 0 && op[2] >= 0 && op[2] <= 3 && op[3] >= 0 && op[3] <= 2 && op[4] >= 0 &&
              op[4] <= 2))
            continue;
        long rounds = op[1], mode = op[2], rkind = op[3], dk = op[4];
        long budget_ms = rounds >= 100000 ? 5000 : 2000;
        SF h[2];
        SF other[2] = {SF::set_value(1), SF::set_value(2)};
        long live0 = counted::live.load();
        std::atomic<long> go{0}, done{0};
        std::atomic<bool> stop{false};
        auto dropper = [&](int k) {
            long round = 0;
            for (;;) {
                ++round;
                for (unsigned n = 0; go.load(std::memory_order_acquire) < round; n++) {
                    if (stop.load()) return;
                    if ((n & 1023) == 1023) std::this_thread::yield();
                }
                switch (dk) {
                    case 0: { SF tmp(std::move(h[k])); } break;
                    case 1: h[k] = SF(); break;
                    case 2: h[k] = other[k]; break;
                }
                done.fetch_add(1, std::memory_order_acq_rel);
            }
        };
        std::thread t1(dropper, 0), t2(dropper, 1);
        long bad = 0;
        auto t0 = std::chrono::steady_clock::now();
        for (long i = 0; i < rounds; i++) {
            if ((i & 255) == 0 &&
                std::chrono::duration_cast<std::chrono::milliseconds>(std::chrono::steady_clock::now() - t0).count() > budget_ms)
                break;
            std::optional<Holder> prom;
            switch (mode) {
                case 0: {
                    SF f([&](promise<counted> p) { prom.emplace(std::move(p)); });
                    h[0] = f;
                    h[1] = f;
                    break;
                }
                case 1: {
                    SF f([&] { return future<counted>([&](promise<counted> p) { prom.emplace(std::move(p)); }); });
                    h[0] = f;
                    h[1] = std::move(f);
                    break;
                }
                case 2: {
                    SF f;
                    prom.emplace(f);
                    h[0] = f;
                    h[1] = f;
                    break;
                }
                case 3: {
                    SF f;
                    f.init_if_needed();
                    SF f2(f);
                    prom.emplace(f2);
                    h[0] = std::move(f);
                    h[1] = std::move(f2);
                    break;
                }
            }
            done.store(0);
            go.fetch_add(1, std::memory_order_acq_rel);
            spin_until([&] { return done.load(std::memory_order_acquire) == 2; });
            // every handle is gone (dropkind 2: replaced): resolve now
            switch (rkind) {
                case 0: prom->p(counted(i)); break;
                case 1: prom->p(std::make_exception_ptr(test_exc(i))); break;
                case 2: prom->p(drop); break;
            }
            prom.reset();
            if (counted::live.load() != live0) bad++;
        }
        stop = true;
        t1.join();
        t2.join();
        h[0] = SF();
        h[1] = SF();
        long live = counted::live.load() - live0;
        long leak = __lsan_do_recoverable_leak_check() ? 1 : 0;
        vh::print_obs({7, bad == 0 ? 1 : 0, live, leak});
    }
}

int main(int argc, char **argv) {
    if (argc < 2) return 2;
    for (auto &cs : vh::read_cases(argv[1])) {
        std::printf("CASE %s\n", cs.name.c_str());
        std::fflush(stdout);
        if (cs.engine == "sf_stress") run_case(cs);
        std::printf("END\n");
        std::fflush(stdout);
    }
    return 0;
}
