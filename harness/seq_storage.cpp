// seq_storage.cpp — sequential differential driver for the coroutine storage policies (C19).
// engines: st_def st_reu st_mts st_stk st_plc st_buf   (Init op: x = sizeof(extra object) or 0, a, b = policy parameters)
// ops:  0 x a b  Init | 1 slot class sz  Create | 2 slot  Finish | 9  Destroy storage
// `seq_storage --sizes` prints the frame size the compiler requests for every coroutine class and sizeof(extra object).
#include "storage_common.h"

using namespace cocls;
using sh::spy;
using sh::top;
using sh::xobj;

static long g_next_serial = 0;

struct item3 { char c[3]; };
struct item7 { char c[7]; };
struct item24 { long v[3]; };

struct Slot {
    bool live = false;
    std::coroutine_handle<> h;
    char *ptr = nullptr;
    std::size_t n = 0;   // bytes used by the frame and the extra object behind it
    long ok = -1;
    void *keep = nullptr;   // stack policy: the stack_storage object
    void *area = nullptr;   // stack policy: the "alloca" area
};

struct IStore {
    virtual ~IStore() {}
    virtual std::coroutine_handle<> create(int k, Slot &s, unsigned char seed) = 0;
    virtual long xval() { return 0; }
    virtual long xoff(const char *) { return 0; }
    virtual void after_finish(Slot &) {}
};

// XT = void: the bare policy; otherwise promise_extra_storage<XT, Base>
template <typename Base, typename XT>
struct sto_sel {
    using type = top<promise_extra_storage<XT, spy<Base>>>;
};
template <typename Base>
struct sto_sel<Base, void> {
    using type = top<spy<Base>>;
};
template <typename Base, typename XT = void>
using sto_t = typename sto_sel<Base, XT>::type;

template <typename Base, typename XT = void>
struct PlainStore : IStore {
    sto_t<Base, XT> s;
    template <typename... A>
    PlainStore(A &&...a) : s(std::forward<A>(a)...) {}
    std::coroutine_handle<> create(int k, Slot &sl, unsigned char seed) override { return sh::start(s, k, &sl.ok, seed); }
    long xval() override {
        if constexpr (!std::is_void_v<XT>) return s->serial;   // the attached object, read through the storage right after creation
        else return 0;
    }
    long xoff(const char *frame) override {   // where the attached object lies relative to the frame
        if constexpr (!std::is_void_v<XT>) return (long)(reinterpret_cast<const char *>(s.inventory) - frame);
        else return 0;
    }
};

template <typename Item>
struct BufStore : IStore {
    std::vector<Item> v;
    sto_t<reusable_buffer_storage<std::vector<Item>>> s;
    BufStore(std::size_t n0) : v(n0), s(v) {}
    std::coroutine_handle<> create(int k, Slot &sl, unsigned char seed) override { return sh::start(s, k, &sl.ok, seed); }
};

struct StackStore : IStore {
    std::size_t state;
    using S = sto_t<stack_storage>;
    StackStore(std::size_t st) : state(st) {}
    std::coroutine_handle<> create(int k, Slot &sl, unsigned char seed) override {
        bool saved = vh::t_count;
        vh::t_count = false;   // the storage object and its alloca area live on the caller's stack in real use
        S *so = new S(state);
        std::size_t asz = static_cast<std::size_t>(*so);
        void *area = std::malloc(asz ? asz : 1);
        sh::g_areas.push_back({static_cast<char *>(area), asz});
        vh::t_count = saved;
        *so = area;
        sl.keep = so;
        sl.area = area;
        return sh::start(*so, k, &sl.ok, seed);
    }
    void after_finish(Slot &sl) override {
        bool saved = vh::t_count;
        vh::t_count = false;
        delete static_cast<S *>(sl.keep);
        for (auto it = sh::g_areas.begin(); it != sh::g_areas.end(); ++it)
            if (it->base == sl.area) {
                sh::g_areas.erase(it);
                break;
            }
        std::free(sl.area);
        sl.keep = sl.area = nullptr;
        vh::t_count = saved;
    }
};

alignas(64) static unsigned char g_arena[8192];

struct Env {
    std::string engine;
    IStore *store = nullptr;
    bool up = false, ever = false;
    long x = 0, a = 0, xal = 8;
    std::vector<Slot> slots;
    void *plc_buf = nullptr;
    int live() const {
        int c = 0;
        for (auto &s : slots) c += s.live;
        return c;
    }
};

static void reject() { vh::print_obs({1}); }

// allocations are counted (and registered) only inside the measured window of an op
struct counted {
    counted() { vh::t_count = true; }
    ~counted() { vh::t_count = false; }
};

template <typename T, typename... A>
static IStore *make(A &&...a) {
    static_assert(sizeof(T) <= sizeof(g_arena));
    return new (g_arena) T(std::forward<A>(a)...);
}

template <typename Base>
static IStore *make_x(long x, long xal, bool &ok) {
    ok = true;
    if (x == 0) return make<PlainStore<Base>>();
    if (x == (long)sizeof(xobj) && xal == (long)alignof(xobj)) return make<PlainStore<Base, xobj>>([] { return xobj(g_next_serial++); });
    if (x == (long)sizeof(sh::xobj16) && xal == (long)alignof(sh::xobj16)) return make<PlainStore<Base, sh::xobj16>>([] { return sh::xobj16(g_next_serial++); });
    if (x == (long)sizeof(sh::xobj4) && xal == (long)alignof(sh::xobj4)) return make<PlainStore<Base, sh::xobj4>>([] { return sh::xobj4(g_next_serial++); });
    ok = false;
    return nullptr;
}

static bool do_init(Env &e, long x, long a, long b, long xal) {
    // refuse what this harness has no instantiation for (the generator never produces it)
    const std::string &g = e.engine;
    bool X = x != 0, ok = true;
    if (g == "st_def") e.store = make_x<default_storage>(x, xal, ok);
    else if (g == "st_reu") e.store = make_x<reusable_storage>(x, xal, ok);
    else if (g == "st_mts") e.store = make_x<reusable_storage_mtsafe>(x, xal, ok);
    else if (X) return false;
    else if (g == "st_stk") e.store = make<StackStore>((std::size_t)a);
    else if (g == "st_plc") {
        bool saved = vh::t_count;
        vh::t_count = false;
        e.plc_buf = std::malloc(a ? a : 1);
        sh::g_areas.push_back({static_cast<char *>(e.plc_buf), (std::size_t)a});
        vh::t_count = saved;
        e.store = make<PlainStore<placement_alloc>>(e.plc_buf);
    } else if (g == "st_buf") {
        if (a == 1) e.store = make<BufStore<char>>((std::size_t)b);
        else if (a == 8) e.store = make<BufStore<long>>((std::size_t)b);
        else if (a == 3) e.store = make<BufStore<item3>>((std::size_t)b);      // sizes that do not divide the frame size
        else if (a == 7) e.store = make<BufStore<item7>>((std::size_t)b);
        else if (a == 24) e.store = make<BufStore<item24>>((std::size_t)b);
        else return false;
    } else return false;
    return ok;
}

static void run_case(const vh::Case &cs) {
    Env e;
    e.engine = cs.engine;
    e.slots.resize(64);
    g_next_serial = 0;
    const std::string &g = cs.engine;
    bool single = g == "st_reu" || g == "st_plc" || g == "st_buf";   // documented one-live-frame policies
    for (auto &op : cs.ops) {
        if (op.empty()) { reject(); continue; }
        if (op[0] == 0 && (op.size() == 4 || op.size() == 5)) {
            long x = op[1], a = op[2], b = op[3], xal = op.size() == 5 ? op[4] : 8;
            if (e.up || e.ever || x < 0 || a < 0 || b < 0 || xal <= 0 || (g == "st_buf" && a <= 0)) { reject(); continue; }
            sh::tl_mark m;
            sh::tl_nev = 0;
            bool okinit;
            {
                counted c_;
                okinit = do_init(e, x, a, b, xal);
            }
            if (!okinit) {
                std::fprintf(stderr, "UNSUPPORTED-INIT %s %ld %ld %ld %ld\n", g.c_str(), x, a, b, xal);
                std::_Exit(3);
            }
            e.up = e.ever = true;
            e.x = x;
            e.a = a;
            e.xal = xal;
            vh::print_obs({0, m.news(), m.dels()});
        } else if (op[0] == 1 && op.size() == 4) {
            long slot = op[1], k = op[2], sz = op[3];
            if (!e.up || slot < 0 || slot >= 64 || sz <= 0 || e.slots[slot].live) { reject(); continue; }
            if (single && e.live() > 0) { reject(); continue; }
            if (g == "st_plc" && sz + e.x > e.a) { reject(); continue; }   // (extra object never used with placement here)
            if (k < 0 || k >= sh::n_classes || (long)sh::class_size((int)k) != sz) sh::size_mismatch((int)k, sz, sh::class_size((int)k));
            Slot &s = e.slots[slot];
            sh::tl_mark m;
            long ser = sh::g_reg.mark();
            sh::tl_nev = 0;
            s.ok = -1;
            {
                counted c_;
                s.h = e.store->create((int)k, s, (unsigned char)(slot * 37 + 11));
            }
            s.ptr = static_cast<char *>(sh::tl_top_ptr);
            if ((long)sh::tl_top_sz != sz) sh::size_mismatch((int)k, sz, sh::tl_top_sz);
            long xv = e.store->xval();
            long xo = e.store->xoff(s.ptr);
            s.n = e.x ? (std::size_t)(xo + e.x) : sh::tl_top_sz;   // bytes used: frame, gap, extra object
            sh::Block b = sh::block_of(s.ptr);
            long room = b.found ? (long)((b.base + b.size) - s.ptr) : -1;
            long fresh = b.found && b.heap && b.serial > ser;
            long ovl = 0;
            for (auto &o : e.slots)
                if (o.live && s.ptr < o.ptr + o.n && o.ptr < s.ptr + s.n) ovl++;
            s.live = true;
            std::vector<long> v{0, m.news(), m.dels(), fresh, room, ovl, xv, xo};
            for (int i = 0; i < sh::tl_nev; i++) v.push_back(sh::tl_evs[i]);
            vh::print_obs(v);
        } else if (op[0] == 2 && op.size() == 2) {
            long slot = op[1];
            if (!e.up || slot < 0 || slot >= 64 || !e.slots[slot].live) { reject(); continue; }
            Slot &s = e.slots[slot];
            sh::Block b = sh::block_of(s.ptr);
            sh::tl_mark m;
            sh::tl_nev = 0;
            sh::tl_top_dsz = 0;
            {
                counted c_;
                s.h.resume();    // the body checks its canaries and runs to the final suspend
                s.h.destroy();   // promise destroyed, operator delete -> Allocator::dealloc
            }
            long rel = b.found && b.heap && !sh::g_reg.has(b.base, b.serial);
            s.live = false;
            std::vector<long> v{0, m.news(), m.dels(), rel, s.ok, (long)sh::tl_top_dsz};
            for (int i = 0; i < sh::tl_nev; i++) v.push_back(sh::tl_evs[i]);
            vh::print_obs(v);
            e.store->after_finish(s);
        } else if (op[0] == 9 && op.size() == 1) {
            if (!e.up || e.live() > 0) { reject(); continue; }
            sh::tl_mark m;
            {
                counted c_;
                e.store->~IStore();
            }
            e.store = nullptr;
            e.up = false;
            vh::print_obs({0, m.news(), m.dels()});
        } else reject();
    }
    // leftovers of an unclosed case (not measured)
    vh::t_count = false;
    for (auto &s : e.slots)
        if (s.live) {
            s.h.resume();
            s.h.destroy();
            if (e.store) e.store->after_finish(s);
        }
    if (e.store) e.store->~IStore();
    if (e.plc_buf) std::free(e.plc_buf);
    sh::g_areas.clear();
}

int main(int argc, char **argv) {
    if (argc < 2) return 2;
    vh::t_count = false;
    if (std::string(argv[1]) == "--sizes") {
        std::printf("x %zu %zu\n", sizeof(xobj), alignof(xobj));
        std::printf("x %zu %zu\n", sizeof(sh::xobj16), alignof(sh::xobj16));
        std::printf("x %zu %zu\n", sizeof(sh::xobj4), alignof(sh::xobj4));
        for (int k = 0; k < sh::n_classes; k++) std::printf("%d %zu\n", k, sh::class_size(k));
        return 0;
    }
    vh::t_count = false;
    sh::g_areas.reserve(256);
    for (auto &cs : vh::read_cases(argv[1])) {
        std::printf("CASE %s\n", cs.name.c_str());
        std::fflush(stdout);
        run_case(cs);
        std::printf("END\n");
        std::fflush(stdout);
    }
    return 0;
}
