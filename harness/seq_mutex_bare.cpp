// seq_mutex_bare.cpp — coroutines using cocls::mutex WITHOUT an installed coro_queue (C07).  engine: mxb
// A coroutine is started and later continued by plain handle.resume() from the driver, the way a foreign event
// source (user awaitable, callback, cocls::parallel) would do it.  Body: co_await lock(); enter; wait at its gate;
// leave; release (0 destruction, 1 release() discarded, 2 co_await release()); done.
// ops:  1 c r   start coroutine c (ids 0,1,2.. in order) with release flavour r      2 c   open the gate of c
// output per op:  1 (c event)*   with event 1 enter, 2 leave, 3 done      or  -1 rejected
// final line:     9 locked waiting inside done
#define VH_DEFINE_NEW
#include "common.h"
#define protected public
#define private public
#include <cocls/mutex.h>
#include <cocls/async.h>
#include <cocls/future.h>
#undef protected
#undef private

using namespace cocls;

struct Gate {
    std::coroutine_handle<> h;
    struct Aw {
        Gate *g;
        bool await_ready() const noexcept { return false; }
        void await_suspend(std::coroutine_handle<> x) noexcept { g->h = x; }
        void await_resume() const noexcept {}
    };
    Aw operator co_await() noexcept { return Aw{this}; }
};

struct Ctx {
    mutex mx;
    std::vector<std::unique_ptr<Gate>> gates;
    std::vector<int> state;   // 0 waiting, 1 inside, 2 done
    std::vector<long> ev;
    void log(long c, long e) {
        bool saved = vh::t_count;
        vh::t_count = false;
        ev.push_back(c);
        ev.push_back(e);
        vh::t_count = saved;
    }
};

static async<void> body(Ctx &cx, int id, int rel) {
    mutex::ownership own = co_await cx.mx.lock();
    cx.state[id] = 1;
    cx.log(id, 1);
    co_await *cx.gates[id];
    cx.log(id, 2);
    if (rel == 0) {
        mutex::ownership gone(std::move(own));
    } else if (rel == 1) {
        own.release();
    } else {
        co_await own.release();
    }
    cx.state[id] = 2;
    cx.log(id, 3);
}

static void flush(Ctx &cx, long r) {
    std::vector<long> v{r};
    v.insert(v.end(), cx.ev.begin(), cx.ev.end());
    cx.ev.clear();
    vh::print_obs(v);
}

static void run_case(const vh::Case &cs) {
    auto *cxp = new Ctx();
    Ctx &cx = *cxp;
    cx.ev.reserve(256);
    for (auto &op : cs.ops) {
        if (op.size() == 3 && op[0] == 1 && op[1] == (long)cx.state.size() && op[2] >= 0 && op[2] <= 2) {
            int id = (int)op[1];
            cx.gates.emplace_back(new Gate());
            cx.state.push_back(0);
            suspend_point<void> sp = body(cx, id, (int)op[2]).detach();
            std::coroutine_handle<> h = sp.pop();
            h.resume();   // no coro_queue installed
            flush(cx, 1);
        } else if (op.size() == 2 && op[0] == 2 && op[1] >= 0 && op[1] < (long)cx.state.size() && cx.state[op[1]] == 1 &&
                   cx.gates[op[1]]->h) {
            auto h = std::exchange(cx.gates[op[1]]->h, {});
            h.resume();   // no coro_queue installed
            flush(cx, 1);
        } else {
            cx.ev.clear();
            vh::print_obs({-1});
        }
    }
    long w = 0, i = 0, d = 0;
    for (int s : cx.state) (s == 0 ? w : s == 1 ? i : d)++;
    vh::print_obs({9, (long)(cx.mx._requests.load() != nullptr), w, i, d});
    // coroutines still parked keep their frames (and the mutex would assert): leave the scenario alone then
    if (w == 0 && i == 0 && cx.mx._requests.load() == nullptr && cx.mx._queue == nullptr) delete cxp;
}

int main(int argc, char **argv) {
    if (argc < 2) return 2;
    bool leaked = false;
    for (auto &cs : vh::read_cases(argv[1])) {
        std::printf("CASE %s\n", cs.name.c_str());
        std::fflush(stdout);
        if (cs.engine == "mxb") run_case(cs);
        std::printf("END\n");
        std::fflush(stdout);
    }
    std::fflush(stdout);
    std::_Exit(0);   // unfinished coroutines of cut-off scenarios are still parked
    return leaked;
}
