// seq_prom.cpp — sequential differential driver for promise OBJECTS over a few futures (C01, part prom):
// move construction / assignment, explicit drop, calls through empty and moved-from promises, bind closures,
// destruction, with callback and coroutine waiters attached.  engines: prom_int prom_void prom_uptr prom_ref prom_cnt
// ops (one observation line per op; -1 = rejected; deliveries = (waiter kind datum)* released by this op):
//   1 p c   new P[p](F[c].get_promise())      -> 0
//   2 p q   new P[p](std::move(P[q]))         -> 0
//   3 p q   P[p] = std::move(P[q])            -> 0 deliveries
//   4 p c   P[p] = F[c].get_promise()         -> 0 deliveries
//   5 p     P[p].~promise()                   -> 0 deliveries
//   12 p    { promise<T> local(std::move(P[p])); throw; }  the local dies by stack unwinding -> 0 deliveries
//   6 p v   P[p](v)   7 p e  P[p](exception)   8 p  P[p](drop)   -> ret deliveries
//   9 q p v Q[q] = P[p].bind(v)  -> 0      10 q  Q[q]() -> ret deliveries      11 q  destroy Q[q] -> 0 deliveries
//   14 w c k  waiter w awaits F[c] (k = 0 callback awaiter, 1 detached coroutine) -> 0 parked | 1 kind datum (was ready)
//   15 c    state of F[c]: 2 no promise taken | 0 pending | 1 kind datum
//   16 p    bool(P[p])
// At the end every closure and promise is destroyed and every future read (same lines), then "10 live 0".
#define VH_DEFINE_NEW
#include "common.h"
#include <optional>
#define protected public
#define private public
#include <cocls/future.h>
#include <cocls/async.h>
#undef protected
#undef private

using namespace cocls;
#include "cell_types.h"

static const long NCELL = 3, NPROM = 4, NCLO = 2;

struct Rd {
    long kind = 0, datum = 0;
};
template <typename T>
static Rd read_fut(future<T> &f) {
    Rd r;
    try {
        if constexpr (std::is_void_v<T>) {
            f.value();
            r.kind = 1;
        } else {
            r.datum = traits<T>::get(f.value());
            r.kind = 1;
        }
    } catch (const await_canceled_exception &) {
        r.kind = 0;
    } catch (const test_exc &e) {
        r.kind = 2;
        r.datum = e.code;
    } catch (const value_not_ready_exception &) {
        r.kind = 7;
    }
    return r;
}

static std::vector<long> g_log;   // deliveries of the current op

template <typename T>
static async<void> coro_waiter(future<T> &f, long w) {
    Rd r;
    try {
        if constexpr (std::is_void_v<T>) {
            co_await f;
            r.kind = 1;
        } else {
            auto &x = co_await f;
            r.datum = traits<T>::get(x);
            r.kind = 1;
        }
    } catch (const await_canceled_exception &) {
        r.kind = 0;
    } catch (const test_exc &e) {
        r.kind = 2;
        r.datum = e.code;
    } catch (const value_not_ready_exception &) {
        r.kind = 7;
    }
    g_log.insert(g_log.end(), {w, r.kind, r.datum});
}

template <typename T>
struct Cb {
    future<T> *f;
    long w;
    co_awaiter<future<T>> aw;
    Cb(future<T> &fu, long id) : f(&fu), w(id), aw(fu) {}
    static suspend_point<void> fn(awaiter *, void *u) noexcept {
        auto *c = static_cast<Cb *>(u);
        Rd r = read_fut(*c->f);
        g_log.insert(g_log.end(), {c->w, r.kind, r.datum});
        delete c;
        return {};
    }
};

template <typename T>
static auto make_clo(promise<T> &p, long v) {
    if constexpr (std::is_void_v<T>) return p.bind();
    else if constexpr (std::is_reference_v<T>) return [] { return false; };   // not used: bind decays its arguments
    else return p.bind(traits<T>::make(v));
}

template <typename T>
static void run_case(const vh::Case &cs) {
    long live0 = counted::live.load();
    {
        std::optional<future<T>> F[NCELL];
        std::optional<promise<T>> P[NPROM];
        using Clo = decltype(make_clo<T>(std::declval<promise<T> &>(), 0L));
        std::optional<Clo> Q[NCLO];
        for (auto &f : F) f.emplace();
        auto idx = [](long i, long n) { return i >= 0 && i < n; };
        auto emit = [&](long first) {
            std::vector<long> v{first};
            v.insert(v.end(), g_log.begin(), g_log.end());
            g_log.clear();
            vh::print_obs(v);
        };
        auto rej = [&] { g_log.clear(); vh::print_obs({-1}); };
        auto step = [&](const std::vector<long> &op) {
            g_log.clear();
            if (op.empty()) return rej();
            long k = op[0];
            size_t n = op.size();
            if (k == 1 && n == 3) {
                long p = op[1], c = op[2];
                if (!idx(p, NPROM) || !idx(c, NCELL) || P[p] || !F[c]->initialized()) return rej();
                P[p].emplace(F[c]->get_promise());
                return emit(0);
            }
            if (k == 2 && n == 3) {
                long p = op[1], q = op[2];
                if (!idx(p, NPROM) || !idx(q, NPROM) || P[p] || !P[q]) return rej();
                P[p].emplace(std::move(*P[q]));
                return emit(0);
            }
            if (k == 3 && n == 3) {
                long p = op[1], q = op[2];
                if (!idx(p, NPROM) || !idx(q, NPROM) || !P[p] || !P[q]) return rej();
                *P[p] = std::move(*P[q]);
                return emit(0);
            }
            if (k == 4 && n == 3) {
                long p = op[1], c = op[2];
                if (!idx(p, NPROM) || !idx(c, NCELL) || !P[p] || !F[c]->initialized()) return rej();
                *P[p] = F[c]->get_promise();
                return emit(0);
            }
            if (k == 5 && n == 2) {
                long p = op[1];
                if (!idx(p, NPROM) || !P[p]) return rej();
                P[p].reset();
                return emit(0);
            }
            if (k == 12 && n == 2) {
                long p = op[1];
                if (!idx(p, NPROM) || !P[p]) return rej();
                try {
                    promise<T> local(std::move(*P[p]));
                    throw 1;
                } catch (int) {
                }
                return emit(0);
            }
            if ((k == 6 || k == 7) && n == 3) {
                long p = op[1];
                if (!idx(p, NPROM) || !P[p]) return rej();
                bool r = k == 6 ? (bool)traits<T>::set(*P[p], op[2]) : (bool)(*P[p])(std::make_exception_ptr(test_exc{op[2]}));
                return emit(r);
            }
            if (k == 8 && n == 2) {
                long p = op[1];
                if (!idx(p, NPROM) || !P[p]) return rej();
                bool r = (*P[p])(drop);
                return emit(r);
            }
            if (k == 9 && n == 4) {
                long q = op[1], p = op[2];
                if (!idx(q, NCLO) || !idx(p, NPROM) || Q[q] || !P[p] || std::is_reference_v<T>) return rej();
                Q[q].emplace(make_clo<T>(*P[p], op[3]));
                return emit(0);
            }
            if (k == 10 && n == 2) {
                long q = op[1];
                if (!idx(q, NCLO) || !Q[q]) return rej();
                bool r = (*Q[q])();
                return emit(r);
            }
            if (k == 11 && n == 2) {
                long q = op[1];
                if (!idx(q, NCLO) || !Q[q]) return rej();
                Q[q].reset();
                return emit(0);
            }
            if (k == 14 && n == 4) {
                long w = op[1], c = op[2], kind = op[3];
                if (w < 0 || !idx(c, NCELL) || (kind != 0 && kind != 1) || F[c]->initialized()) return rej();
                if (kind == 0) {
                    auto *cb = new Cb<T>(*F[c], w);
                    if (cb->aw.await_ready() || !cb->aw.await_suspend(&Cb<T>::fn, cb)) {
                        Rd r = read_fut(*F[c]);
                        delete cb;
                        return vh::print_obs({1, r.kind, r.datum});
                    }
                    return emit(0);
                }
                coro_waiter<T>(*F[c], w).detach();
                if (!g_log.empty()) {   // it did not suspend: the future was ready
                    std::vector<long> v{1, g_log[1], g_log[2]};
                    g_log.clear();
                    return vh::print_obs(v);
                }
                return emit(0);
            }
            if (k == 15 && n == 2) {
                long c = op[1];
                if (!idx(c, NCELL)) return rej();
                if (F[c]->initialized()) return vh::print_obs({2});
                if (F[c]->pending()) return vh::print_obs({0});
                Rd r = read_fut(*F[c]);
                return vh::print_obs({1, r.kind, r.datum});
            }
            if (k == 16 && n == 2) {
                long p = op[1];
                if (!idx(p, NPROM) || !P[p]) return rej();
                return vh::print_obs({(long)(bool)*P[p]});
            }
            rej();
        };
        for (auto &op : cs.ops) step(op);
        for (long q = 0; q < NCLO; q++) step({11, q});
        for (long p = 0; p < NPROM; p++) step({5, p});
        for (long c = 0; c < NCELL; c++) step({15, c});
    }
    vh::print_obs({10, counted::live.load() - live0, 0});
}

int main(int argc, char **argv) {
    if (argc < 2) return 2;
    for (auto &cs : vh::read_cases(argv[1])) {
        std::printf("CASE %s\n", cs.name.c_str());
        std::fflush(stdout);
        if (cs.engine == "prom_int") run_case<int>(cs);
        else if (cs.engine == "prom_void") run_case<void>(cs);
        else if (cs.engine == "prom_uptr") run_case<std::unique_ptr<int>>(cs);
        else if (cs.engine == "prom_ref") run_case<long &>(cs);
        else if (cs.engine == "prom_cnt") run_case<counted>(cs);
        std::printf("END\n");
        std::fflush(stdout);
    }
    return 0;
}
