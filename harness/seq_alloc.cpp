// seq_alloc.cpp — C20: executes programs over the core synchronisation primitives on the real headers and
// reports, PER STEP, the allocations and frees (count and bytes) that happened, split into
//   frame  = blocks allocated while a coroutine object was being created (the coroutine frame)
//   other  = everything else (must be none)
// engines: al0h / al1h = normal / coroutine mode, frames on the heap; al0s / al1s = frames in a preallocated pool
// (with_allocator).  Blocking waits run on pre-started helper threads parked at the library's COCLS_VERIF_BLOCK hook.
// The harness contains no expected values.
#include "common.h"   // (own operator new below: sizes are needed, VH_DEFINE_NEW is not used)
#include <cstdint>
#include <fcntl.h>
#include <sys/syscall.h>
#include <unistd.h>

namespace am {
inline std::atomic<long> fa{0}, ff{0}, oa{0}, oab{0}, of{0}, ofb{0};
inline thread_local bool t_count = true;   // false: the harness's own bookkeeping
inline thread_local bool t_frame = false;  // true: inside a call that creates a coroutine, until its first allocation
constexpr std::size_t HDR = 16;
enum : std::uint64_t { TAG_NONE = 0x11, TAG_FRAME = 0x22, TAG_OTHER = 0x33 };
struct snap {
    long v[6];
    snap() : v{fa.load(), ff.load(), oa.load(), oab.load(), of.load(), ofb.load()} {}
};
struct quiet {
    bool saved;
    quiet() : saved(t_count) { t_count = false; }
    ~quiet() { t_count = saved; }
};
}  // namespace am

void *operator new(std::size_t sz) {
    char *p = static_cast<char *>(std::malloc(sz + am::HDR));
    if (!p) throw std::bad_alloc();
    std::uint64_t tag = am::TAG_NONE;
    if (am::t_count) {
        if (am::t_frame) {
            am::t_frame = false;   // the frame is the FIRST block a coroutine-creating call allocates; anything after it is not
            tag = am::TAG_FRAME;
            am::fa.fetch_add(1);
        } else {
            tag = am::TAG_OTHER;
            am::oa.fetch_add(1);
            am::oab.fetch_add((long)sz);
        }
    }
    reinterpret_cast<std::uint64_t *>(p)[0] = sz;
    reinterpret_cast<std::uint64_t *>(p)[1] = tag;
    return p + am::HDR;
}
void *operator new[](std::size_t sz) { return ::operator new(sz); }
void operator delete(void *q) noexcept {
    if (!q) return;
    char *p = static_cast<char *>(q) - am::HDR;
    std::uint64_t sz = reinterpret_cast<std::uint64_t *>(p)[0], tag = reinterpret_cast<std::uint64_t *>(p)[1];
    if (tag == am::TAG_FRAME) am::ff.fetch_add(1);
    else if (tag == am::TAG_OTHER) {
        am::of.fetch_add(1);
        am::ofb.fetch_add((long)sz);
    }
    std::free(p);
}
void operator delete[](void *p) noexcept { ::operator delete(p); }
void operator delete(void *p, std::size_t) noexcept { ::operator delete(p); }
void operator delete[](void *p, std::size_t) noexcept { ::operator delete(p); }

#define protected public
#define private public
#include <cocls/async.h>
#include <cocls/callback_awaiter.h>
#include <cocls/future.h>
#include <cocls/generator.h>
#include <cocls/mutex.h>
#include <cocls/with_allocator.h>
#undef protected
#undef private

using namespace cocls;

constexpr long NF = 8, NM = 4, NG = 4, NS = 4, NH = 6, NC = 32, NK = 4;

// ---- non-heap storage policy: frames live in a preallocated pool ----
struct pool_storage {
    static constexpr std::size_t SLOT = 2048, N = 256;
    static inline char *arena = nullptr;
    static inline std::vector<void *> *freel = nullptr;
    static void init() {
        arena = static_cast<char *>(std::malloc(SLOT * N));
        freel = new std::vector<void *>();
        freel->reserve(N);
        for (std::size_t i = 0; i < N; i++) freel->push_back(arena + i * SLOT);
    }
    void *alloc(std::size_t sz) {
        if (sz > SLOT || freel->empty()) std::abort();
        void *p = freel->back();
        freel->pop_back();   // capacity was reserved: no allocation
        return p;
    }
    static void dealloc(void *p, std::size_t) { freel->push_back(p); }
};
static pool_storage g_pool;
static std::exception_ptr g_exc;

struct Event {
    long who, out, val;
};

// a move-only payload that does not allocate
struct MoveOnly {
    int v;
    explicit MoveOnly(int x) : v(x) {}
    MoveOnly(MoveOnly &&o) noexcept : v(o.v) {}
    MoveOnly &operator=(MoveOnly &&o) noexcept { v = o.v; return *this; }
    MoveOnly(const MoveOnly &) = delete;
    MoveOnly &operator=(const MoveOnly &) = delete;
};
// a small non-allocating value with a user-provided copy constructor (hence no noexcept move constructor)
struct CopyTag {
    int id;
    static inline int copies = 0;
    explicit CopyTag(int i) : id(i) {}
    CopyTag(const CopyTag &o) : id(o.id) { ++copies; }
};
// bulky payloads that do not allocate
template <std::size_t N>
struct Big {
    int v;
    char pad[N - sizeof(int)];
};
static_assert(sizeof(Big<264>) == 264 && sizeof(Big<1024>) == 1024);
static long to_long(int &x) { return x; }
static long to_long(MoveOnly &x) { return x.v; }
template <std::size_t N>
static long to_long(Big<N> &x) { return x.v; }

struct Ctx;
struct CbSlot : malleable_awaiter {
    Ctx *c = nullptr;
    long idx = 0, kind = 0, obj = 0;
    bool busy = false;
};

// a consumer without a coroutine: the handler is a member function (call_fn_future_awaiter, future.h)
struct CfObj {
    Ctx *c = nullptr;
    long idx = 0, rearm = 0;
    int next_v = 0;
    bool pending = false;
    std::optional<promise<int>> pend;
    suspend_point<void> on_value(future<int> &f) noexcept;
    call_fn_future_awaiter<&CfObj::on_value> awt;
    CfObj() : awt(*this) {}
    void read_sync(long mode, int v);
    void read_pending();
};

struct Ctx {
    bool coro = false, heap = true;
    CfObj cf[NK];
    std::optional<future<int>> fi[NF];
    std::optional<future<void>> fv[NF];
    std::optional<future<int &>> fr[NF];
    std::optional<future<MoveOnly>> fm[NF];
    std::optional<future<Big<264>>> fb[NF];
    std::optional<future<Big<1024>>> fB[NF];
    std::optional<promise<Big<264>>> pb[NF];
    std::optional<promise<Big<1024>>> pB[NF];
    std::optional<promise<int>> pi[NF];
    std::optional<promise<void>> pv[NF];
    std::optional<promise<int &>> pr[NF];
    std::optional<promise<MoveOnly>> pm[NF];
    int refstore[NF] = {};
    long fstate[NF] = {}, fty[NF] = {}, readers[NF] = {};
    mutex mx[NM];
    mutex::ownership own[NM];
    std::optional<generator<int>> gens[NG];
    std::optional<generator<int, int>> gens2[NG];
    std::optional<generator<int>::iterator> git[NG];
    long gsteps[NG] = {};
    long gkind[NG] = {};   // 0 none, 1 generator<int>, 2 generator<int,int>
    int garg = 0;
    bool gtmp = false;
    suspend_point<void> slots[NS];
    CbSlot cbs[NC];
    std::vector<Event> events;
    // what the driver coroutine has to co_await to finish the current step
    std::optional<suspend_point<void>> pending;
    suspend_point<void> *await_ptr = nullptr;
    bool do_pause = false;
    long await_gen = -1;

    Ctx() {
        events.reserve(4096);
        for (long i = 0; i < NC; i++) {
            cbs[i].c = this;
            cbs[i].idx = i;
        }
        for (long i = 0; i < NK; i++) {
            cf[i].c = this;
            cf[i].idx = i;
        }
    }
    void log(long who, long out, long val) {
        am::quiet q;
        events.push_back({who, out, val});
    }
};

template <typename Fn>
static void with_fut(Ctx &c, long f, Fn &&fn) {
    switch (c.fty[f]) {
        case 0: fn(*c.fi[f], c.pi[f]); break;
        case 1: fn(*c.fv[f], c.pv[f]); break;
        case 2: fn(*c.fr[f], c.pr[f]); break;
        case 3: fn(*c.fm[f], c.pm[f]); break;
        case 4: fn(*c.fb[f], c.pb[f]); break;
        default: fn(*c.fB[f], c.pB[f]); break;
    }
}

template <typename T>
static void read_future(future<T> &fut, long &out, long &val) {
    out = 0;
    val = 0;
    try {
        if constexpr (std::is_void_v<T>) fut.value();
        else val = to_long(fut.value());
    } catch (const await_canceled_exception &) {
        out = 2;
    } catch (...) {
        out = 1;
    }
}

inline void CfObj::read_sync(long mode, int v) {
    if (mode == 0) awt << [&] { return future<int>::set_value(v); };
    else if (mode == 1) awt << [&] { return future<int>::set_exception(g_exc); };
    else awt << [&] { return future<int>::set_not_value(); };
}
inline void CfObj::read_pending() {
    pending = true;
    awt << [&] { return future<int>([&](promise<int> p) { pend.emplace(std::move(p)); }); };
}
inline suspend_point<void> CfObj::on_value(future<int> &f) noexcept {
    long out, val;
    read_future(f, out, val);
    c->log(3000 + idx, out, val);
    pending = false;
    if (rearm > 0) {   // the handler starts the next read itself; the source completes synchronously
        rearm--;
        read_sync(0, ++next_v);
    }
    return {};
}

// ---- the program's coroutines ----
#define WAITER_BODY                                            \
    long out = 0, val = 0;                                     \
    try {                                                      \
        if constexpr (std::is_void_v<T>) co_await fut;         \
        else val = to_long(co_await fut);                      \
    } catch (const await_canceled_exception &) {               \
        out = 2;                                               \
    } catch (...) {                                            \
        out = 1;                                               \
    }                                                          \
    c.readers[f]--;                                            \
    c.log(id, out, val);                                       \
    co_return;

template <typename T>
static async<void> waiter_heap(Ctx &c, long id, long f, future<T> &fut) { WAITER_BODY }
template <typename T>
static with_allocator<pool_storage, async<void>> waiter_pool(pool_storage &, Ctx &c, long id, long f, future<T> &fut) { WAITER_BODY }

#define LOCKER_BODY                                   \
    mutex::ownership o = co_await c.mx[m].lock();     \
    c.own[m] = std::move(o);                          \
    c.log(id, 3, 0);                                  \
    co_return;
static async<void> locker_heap(Ctx &c, long id, long m) { LOCKER_BODY }
static with_allocator<pool_storage, async<void>> locker_pool(pool_storage &, Ctx &c, long id, long m) { LOCKER_BODY }

#define GEN_BODY \
    for (long i = 1; i <= k; i++) co_yield (int)(100 * g + i);
static generator<int> gen_heap(long g, long k) { GEN_BODY }
static with_allocator<pool_storage, generator<int>> gen_pool(pool_storage &, long g, long k) { GEN_BODY }
// generator with an argument: the i-th value depends on the argument of the call that asked for it
#define GEN2_BODY                     \
    int a = co_yield nullptr;         \
    for (long i = 1; i <= k; i++) a = co_yield (int)(100 * g + i + 1000 * a);
static generator<int, int> gen2_heap(long g, long k) { GEN2_BODY }
static with_allocator<pool_storage, generator<int, int>> gen2_pool(pool_storage &, long g, long k) { GEN2_BODY }

// ---- callback awaiter ----
static suspend_point<void> cb_fn(awaiter *me, void *) noexcept {
    CbSlot *s = static_cast<CbSlot *>(me);
    Ctx &c = *s->c;
    s->busy = false;
    if (s->kind == 0) {
        long out, val;
        with_fut(c, s->obj, [&](auto &fut, auto &) { read_future(fut, out, val); });
        c.log(2000 + s->idx, out, val);
    } else {
        c.own[s->obj] = c.mx[s->obj].lock().await_resume();
        c.log(2000 + s->idx, 3, 0);
    }
    return {};
}

// ---- helper threads for blocking waits ----
// A blocking wait really blocks: the helper passes the library's flag-wait hook (which only marks it H_INWAIT) and goes
// into the library's own wait.  The main thread treats a helper as settled when it is idle again, or when it is inside
// the wait AND the kernel reports the thread as sleeping (/proc/self/task/<tid>/stat state 'S') on consecutive polls:
// everything the blocking thread allocates on its way to sleep (spin phases, parking structures) falls into the
// measured step, and a wake-up issued by the current step has either not reached it (still 'S') or is waited for.
enum { H_IDLE = 0, H_RUNNING = 1, H_INWAIT = 2 };
struct Helper {
    std::thread th;
    std::atomic<int> cmd{0};     // 0 none, 1 run, 2 exit
    std::atomic<int> state{H_IDLE};
    std::atomic<long> tid{0};
    std::atomic<int> ready{0};
    Ctx *c = nullptr;
    long kind = 0, obj = 0;
    bool has_ev = false;
    Event ev{};
};
static Helper g_helpers[NH];
static thread_local int t_helper = -1;

static void hook_block(const char *, bool (*)(void *), void *) {
    if (t_helper < 0) return;
    g_helpers[t_helper].state.store(H_INWAIT);
}

static void helper_main(int t) {
    t_helper = t;
    Helper &h = g_helpers[t];
    h.tid.store((long)syscall(SYS_gettid));
    coro_queue::install_queue_and_call([] {});   // thread-local queue warm-up
    h.ready.store(1);
    h.ready.notify_all();
    for (;;) {
        h.cmd.wait(0);
        int cmd = h.cmd.exchange(0);
        if (cmd == 2) return;
        Ctx &c = *h.c;
        if (h.kind == 0) {
            long out = 0, val = 0;
            with_fut(c, h.obj, [&](auto &fut, auto &) {
                using T = typename std::decay_t<decltype(fut)>::value_type;
                try {
                    if constexpr (std::is_void_v<T>) {
                        if (t % 2) fut.join();
                        else fut.wait();
                    } else {
                        val = (t % 2) ? to_long(fut.join()) : to_long(fut.wait());
                    }
                } catch (const await_canceled_exception &) {
                    out = 2;
                } catch (...) {
                    out = 1;
                }
            });
            h.ev = {1000 + t, out, val};
        } else {
            if (t % 2) {
                mutex::ownership o(c.mx[h.obj].lock());   // blocking constructor flavour
                c.own[h.obj] = std::move(o);
            } else {
                mutex::ownership o = c.mx[h.obj].lock().wait();
                c.own[h.obj] = std::move(o);
            }
            h.ev = {1000 + t, 3, 0};
        }
        h.has_ev = true;
        h.state.store(H_IDLE);
        h.state.notify_all();
    }
}

static bool thread_sleeping(long tid) {
    char path[64], buf[256];
    std::snprintf(path, sizeof path, "/proc/self/task/%ld/stat", tid);
    int fd = ::open(path, O_RDONLY);
    if (fd < 0) return false;
    ssize_t k = ::read(fd, buf, sizeof buf - 1);
    ::close(fd);
    if (k <= 0) return false;
    buf[k] = 0;
    const char *p = std::strrchr(buf, ')');
    return p && p[1] == ' ' && p[2] == 'S';
}

static void quiesce(Helper &h) {
    int asleep = 0;
    for (;;) {
        int s = h.state.load();
        if (s == H_IDLE) return;
        if (s == H_INWAIT && thread_sleeping(h.tid.load())) {
            if (++asleep >= 3 && h.state.load() == H_INWAIT) return;
        } else {
            asleep = 0;
        }
        ::usleep(100);
    }
}

static void helper_run(Ctx &c, int t, long kind, long obj) {
    Helper &h = g_helpers[t];
    h.c = &c;
    h.kind = kind;
    h.obj = obj;
    h.state.store(H_RUNNING);
    h.cmd.store(1);
    h.cmd.notify_all();
    quiesce(h);
}

// wait until every helper is idle or asleep inside its blocking wait; collect the reports in helper order
static void settle(Ctx &c) {
    for (int t = 0; t < NH; t++) quiesce(g_helpers[t]);
    for (int t = 0; t < NH; t++) {
        Helper &h = g_helpers[t];
        if (h.has_ev && h.state.load() == H_IDLE) {
            h.has_ev = false;
            c.log(h.ev.who, h.ev.out, h.ev.val);
        }
    }
}

// ---- one step ----
struct Step {
    bool rejected = false;
    long res = 0, sps = 0;
    am::snap snap;
};

static void emit(Ctx &c, Step &s) {
    settle(c);
    am::snap now;
    std::vector<long> v;
    {
        am::quiet q;
        if (s.rejected) v = {1, 0, 0, 0, 0, 0, 0, 0, 0};
        else {
            v = {0, s.res, s.sps, now.v[0] - s.snap.v[0], now.v[1] - s.snap.v[1], now.v[2] - s.snap.v[2],
                 now.v[3] - s.snap.v[3], now.v[4] - s.snap.v[4], now.v[5] - s.snap.v[5]};
            for (auto &e : c.events) {
                v.push_back(e.who);
                v.push_back(e.out);
                v.push_back(e.val);
            }
        }
        c.events.clear();
        vh::print_obs(v);
    }
}

static bool inr(long i, long b) { return i >= 0 && i < b; }
static bool how_ok(Ctx &c, long how, long s) { return how == 0 || (how == 1 && c.coro) || (how == 2 && inr(s, NS)); }
static bool mode_ok(Ctx &c, long mode) { return mode == 0 || ((mode == 1 || mode == 2) && c.coro); }

// what to do with a suspend point produced by the step
static void dispose(Ctx &c, Step &st, suspend_point<void> &&sp, long how, long s) {
    if (how == 2) {
        c.slots[s] << std::move(sp);
        st.sps = std::max<long>(st.sps, (long)c.slots[s].size());
    } else if (how == 1) {
        c.pending.emplace(std::move(sp));
        c.await_ptr = &*c.pending;
    }
    // how == 0: the caller lets it go out of scope
}

static void start_coro(Ctx &c, async<void> &&a, long mode) {
    if (!c.coro) {
        a.detach();   // discarded: resumed at once
    } else if (mode == 0) {
        auto sp = a.detach();
        sp.pop().resume();
    } else if (mode == 2) {
        a.detach();   // discarded under the active queue: the start is queued
    } else {
        c.pending.emplace(a.detach());
        c.await_ptr = &*c.pending;
    }
}

static Step begin(Ctx &c, const std::vector<long> &op) {
    Step st;
    auto rej = [&]() -> Step & {
        st.rejected = true;
        return st;
    };
    if (op.empty()) return rej();
    auto arity = [&](size_t k) { return op.size() == k; };
    switch (op[0]) {
        case 1: {  // FNew f ty
            if (!arity(3) || !inr(op[1], NF) || !inr(op[2], 6) || c.fstate[op[1]] != 0) return rej();
            long f = op[1];
            c.fty[f] = op[2];
            st.snap = am::snap();
            switch (op[2]) {
                case 0: c.fi[f].emplace(); break;
                case 1: c.fv[f].emplace(); break;
                case 2: c.fr[f].emplace(); break;
                case 3: c.fm[f].emplace(); break;
                case 4: c.fb[f].emplace(); break;
                default: c.fB[f].emplace(); break;
            }
            c.fstate[f] = 1;
            return st;
        }
        case 2: {  // FGetP f
            if (!arity(2) || !inr(op[1], NF) || c.fstate[op[1]] != 1) return rej();
            long f = op[1];
            st.snap = am::snap();
            with_fut(c, f, [&](auto &fut, auto &prom) { prom.emplace(fut.get_promise()); });
            c.fstate[f] = 2;
            return st;
        }
        case 3: {  // FAwaitCoro f w mode
            if (!arity(4) || !inr(op[1], NF) || !mode_ok(c, op[3]) || (c.fstate[op[1]] != 2 && c.fstate[op[1]] != 3)) return rej();
            long f = op[1], w = op[2], mode = op[3];
            st.snap = am::snap();
            c.readers[f]++;
            if (mode == 2) st.sps = 1;
            with_fut(c, f, [&](auto &fut, auto &) {
                if (c.heap) {
                    am::t_frame = c.heap;
                    auto a = waiter_heap(c, w, f, fut);
                    am::t_frame = false;
                    start_coro(c, std::move(a), mode);
                } else {
                    am::t_frame = c.heap;
                    async<void> a = waiter_pool(g_pool, c, w, f, fut);
                    am::t_frame = false;
                    start_coro(c, std::move(a), mode);
                }
            });
            return st;
        }
        case 9: {  // FAwaitCbA f w cap : callback_await / callback_await_alloc with closures of different kinds
            if (!arity(4) || !inr(op[1], NF) || !inr(op[3], 3) || (c.fstate[op[1]] != 2 && c.fstate[op[1]] != 3)) return rej();
            long f = op[1], w = op[2], cap = op[3];
            st.snap = am::snap();
            c.readers[f]++;
            if (c.coro) st.sps = 1;   // the library detaches its coroutine: under the active queue the start is queued
            with_fut(c, f, [&](auto &fut, auto &) {
                using FT = std::decay_t<decltype(fut)>;
                using T = typename FT::value_type;
                using R = await_result<std::decay_t<T>>;
                Ctx *cp = &c;
                auto report = [cp, w, f](R r) {
                    long out = 0, val = 0;
                    try {
                        if constexpr (std::is_void_v<T>) r.get();
                        else val = to_long(*r);
                    } catch (const await_canceled_exception &) {
                        out = 2;
                    } catch (...) {
                        out = 1;
                    }
                    cp->readers[f]--;
                    cp->log(w, out, val);
                };
                auto call = [&](auto cb) {
                    am::t_frame = c.heap;
                    if (c.heap) callback_await<FT &>(std::move(cb), fut);
                    else callback_await_alloc<pool_storage, FT &>(g_pool, std::move(cb), fut);
                    am::t_frame = false;
                };
                if (cap == 0) {
                    call([report, tag = (int)w](R r) { (void)tag; report(r); });                    // trivially copyable captures
                } else if (cap == 1) {
                    call([report, tag = CopyTag((int)w)](R r) { (void)tag; report(r); });           // not nothrow-movable capture
                } else {
                    call([report, p = promise<int>()](R r) mutable { (void)p; report(r); });        // a captured promise
                }
            });
            return st;
        }
        case 4: {  // FAwaitSync f t
            if (!arity(3) || !inr(op[1], NF) || !inr(op[2], NH) || g_helpers[op[2]].state.load() != H_IDLE ||
                (c.fstate[op[1]] != 2 && c.fstate[op[1]] != 3))
                return rej();
            st.snap = am::snap();
            helper_run(c, (int)op[2], 0, op[1]);
            return st;
        }
        case 5: {  // FAwaitCb f c
            if (!arity(3) || !inr(op[1], NF) || !inr(op[2], NC) || c.cbs[op[2]].busy || (c.fstate[op[1]] != 2 && c.fstate[op[1]] != 3))
                return rej();
            long f = op[1];
            CbSlot &s = c.cbs[op[2]];
            st.snap = am::snap();
            s.kind = 0;
            s.obj = f;
            s.busy = true;
            s.set_resume_fn(&cb_fn, nullptr);
            with_fut(c, f, [&](auto &fut, auto &) {
                auto a = fut.operator co_await();
                if (!a.subscribe(&s)) {
                    s.busy = false;
                    long out, val;
                    read_future(fut, out, val);
                    c.log(2000 + s.idx, out, val);
                }
            });
            return st;
        }
        case 6: {  // FResolve f kind how s v
            if (!arity(6) || !inr(op[1], NF) || c.fstate[op[1]] != 2 || !inr(op[2], 5) || op[3] < 0 || op[3] >= 20) return rej();
            long f = op[1], kind = op[2], how = op[3], h = op[3] % 10, s = op[4], v = op[5];
            bool csp = how != h;
            if (!how_ok(c, h, s) || !(kind < 3 || how == 0)) return rej();
            st.snap = am::snap();
            c.fstate[f] = 3;
            with_fut(c, f, [&](auto &fut, auto &prom) {
                using T = typename std::decay_t<decltype(fut)>::value_type;
                using P = std::decay_t<decltype(*prom)>;
                if (kind >= 3) {
                    // the suspend point is internal to the promise: its size = coroutine awaiters in the chain (diagnostic read)
                    for (awaiter *a = fut._awaiter.load(); a && a != &awaiter::disabled && a != &awaiter::instance; a = a->_next)
                        if (!a->_resume_fn) st.sps++;
                    st.res = 1;
                    if (kind == 3) prom.reset();         // ~promise
                    else {
                        *prom = P();                     // move-assignment of an empty promise drops the old one
                        prom.reset();
                    }
                    return;
                }
                auto resolve = [&]() -> suspend_point<bool> {
                    if (kind == 0) {
                        if constexpr (std::is_void_v<T>) return (*prom)();
                        else if constexpr (std::is_reference_v<T>) {
                            c.refstore[f] = (int)v;
                            return (*prom)(c.refstore[f]);
                        } else if constexpr (std::is_same_v<T, MoveOnly>) return (*prom)(MoveOnly((int)v));
                        else if constexpr (std::is_class_v<T>) {
                            T big{};
                            big.v = (int)v;
                            return (*prom)(big);
                        }
                        else return (*prom)((int)v);
                    } else if (kind == 1) return prom->set_exception(g_exc);
                    else return (*prom)(drop);
                };
                auto run = [&](suspend_point<bool> sp) {
                    st.res = (bool)sp ? 1 : 0;
                    st.sps = (long)sp.size();
                    dispose(c, st, std::move(static_cast<suspend_point<void> &>(sp)), h, s);
                };
                if (csp) run(coro_queue::create_suspend_point([&] { return (bool)resolve(); }));
                else run(resolve());
                prom.reset();
            });
            return st;
        }
        case 7: {  // FDestroy f
            if (!arity(2) || !inr(op[1], NF) || (c.fstate[op[1]] != 1 && c.fstate[op[1]] != 3) || c.readers[op[1]] != 0) return rej();
            long f = op[1];
            st.snap = am::snap();
            with_fut(c, f, [&](auto &, auto &prom) { prom.reset(); });
            c.fi[f].reset();
            c.fv[f].reset();
            c.fr[f].reset();
            c.fm[f].reset();
            c.fb[f].reset();
            c.fB[f].reset();
            c.fstate[f] = 0;
            return st;
        }
        case 8: {  // PMove f
            if (!arity(2) || !inr(op[1], NF) || c.fstate[op[1]] != 2) return rej();
            st.snap = am::snap();
            with_fut(c, op[1], [&](auto &, auto &prom) {
                using P = std::decay_t<decltype(*prom)>;
                P q(std::move(*prom));
                *prom = std::move(q);
                st.res = (bool)*prom ? 1 : 0;
            });
            return st;
        }
        case 10: {  // MTry m
            if (!arity(2) || !inr(op[1], NM)) return rej();
            long m = op[1];
            st.snap = am::snap();
            mutex::ownership o = c.mx[m].try_lock();
            if (o) {
                c.own[m] = std::move(o);
                st.res = 1;
            }
            return st;
        }
        case 11: {  // MLockCoro m w mode
            if (!arity(4) || !inr(op[1], NM) || !mode_ok(c, op[3])) return rej();
            long m = op[1], w = op[2], mode = op[3];
            st.snap = am::snap();
            if (mode == 2) st.sps = 1;
            if (c.heap) {
                am::t_frame = c.heap;
                auto a = locker_heap(c, w, m);
                am::t_frame = false;
                start_coro(c, std::move(a), mode);
            } else {
                am::t_frame = c.heap;
                async<void> a = locker_pool(g_pool, c, w, m);
                am::t_frame = false;
                start_coro(c, std::move(a), mode);
            }
            return st;
        }
        case 12: {  // MLockSync m t
            if (!arity(3) || !inr(op[1], NM) || !inr(op[2], NH) || g_helpers[op[2]].state.load() != H_IDLE) return rej();
            st.snap = am::snap();
            helper_run(c, (int)op[2], 1, op[1]);
            return st;
        }
        case 13: {  // MLockCb m c
            if (!arity(3) || !inr(op[1], NM) || !inr(op[2], NC) || c.cbs[op[2]].busy) return rej();
            long m = op[1];
            CbSlot &s = c.cbs[op[2]];
            st.snap = am::snap();
            s.kind = 1;
            s.obj = m;
            s.busy = true;
            s.set_resume_fn(&cb_fn, nullptr);
            auto a = c.mx[m].lock();
            if (a.await_ready() || !a.subscribe(&s)) {
                s.busy = false;
                c.own[m] = a.await_resume();
                c.log(2000 + s.idx, 3, 0);
            }
            return st;
        }
        case 14: {  // MUnlock m how s
            if (!arity(4) || !inr(op[1], NM) || !c.own[op[1]] || !how_ok(c, op[2], op[3])) return rej();
            long m = op[1], how = op[2], s = op[3];
            st.snap = am::snap();
            {
                suspend_point<void> sp = c.own[m].release();
                st.sps = (long)sp.size();
                dispose(c, st, std::move(sp), how, s);
            }
            return st;
        }
        case 20: {  // GNew g k a
            if (!arity(4) || !inr(op[1], NG) || !inr(op[2], 9) || !inr(op[3], 2) || c.gkind[op[1]]) return rej();
            long g = op[1], k = op[2];
            st.snap = am::snap();
            am::t_frame = c.heap;
            if (op[3] == 0) {
                if (c.heap) c.gens[g].emplace(gen_heap(g, k));
                else c.gens[g].emplace(gen_pool(g_pool, g, k));
            } else {
                if (c.heap) c.gens2[g].emplace(gen2_heap(g, k));
                else c.gens2[g].emplace(gen2_pool(g_pool, g, k));
            }
            am::t_frame = false;
            c.gkind[g] = 1 + op[3];
            return st;
        }
        case 21: {  // GNext g how arg   (how % 3: 0 next as bool, 1 gen() as future, 2 co_await next; 3..5: temporary argument;
                   //                    6 iterator ++it, 7 iterator it++, 8 range-for over the rest)
            if (!arity(4) || !inr(op[1], NG) || !inr(op[2], 9) || !(inr(op[2] % 3, 2) || (op[2] % 3 == 2 && c.coro) || op[2] >= 6) || !c.gkind[op[1]]) return rej();
            long g = op[1], how = op[2] % 3;
            bool tmp = op[2] >= 3;
            bool done = c.gkind[g] == 1 ? c.gens[g]->done() : c.gens2[g]->done();
            if (op[2] >= 6) {
                if (c.gkind[g] != 1 || (op[2] < 8 && done)) return rej();
                generator<int> &gen = *c.gens[g];
                st.snap = am::snap();
                if (op[2] == 8) {
                    long last = -1;
                    for (int v : gen) last = v;
                    st.res = last;
                } else {
                    if (c.gsteps[g] == 0 || !c.git[g]) c.git[g].emplace(c.gsteps[g] == 0 ? gen.begin() : generator<int>::iterator(gen, true));
                    if (c.gsteps[g] != 0) {
                        if (op[2] == 6) ++*c.git[g];
                        else (*c.git[g])++;
                    }
                    st.res = gen.done() ? -1 : **c.git[g];
                }
                c.gsteps[g]++;
                return st;
            }
            if (how == 1 && done) return rej();
            c.gsteps[g]++;
            st.snap = am::snap();
            c.garg = (int)op[3];
            c.gtmp = tmp;
            if (how == 2) {
                c.await_gen = g;
            } else if (c.gkind[g] == 1) {
                generator<int> &gen = *c.gens[g];
                if (how == 0) {
                    bool b = gen.next();
                    st.res = b ? gen.value() : -1;
                } else {
                    future<int> fut = gen();
                    bool b = fut.has_value();
                    st.res = b ? *fut : -1;
                }
            } else {
                generator<int, int> &gen = *c.gens2[g];
                if (how == 0) {
                    bool b = tmp ? (bool)gen.next(int(c.garg)) : (bool)gen.next(c.garg);
                    st.res = b ? gen.value() : -1;
                } else if (tmp) {
                    future<int> fut = gen(c.garg + 0);
                    bool b = fut.has_value();
                    st.res = b ? *fut : -1;
                } else {
                    future<int> fut = gen(c.garg);
                    bool b = fut.has_value();
                    st.res = b ? *fut : -1;
                }
            }
            return st;
        }
        case 22: {  // GDestroy g
            if (!arity(2) || !inr(op[1], NG) || !c.gkind[op[1]]) return rej();
            st.snap = am::snap();
            c.git[op[1]].reset();
            c.gens[op[1]].reset();
            c.gens2[op[1]].reset();
            c.gkind[op[1]] = 0;
            c.gsteps[op[1]] = 0;
            return st;
        }
        case 40: {  // CfStart k mode v r
            if (!arity(5) || !inr(op[1], NK) || !inr(op[2], 4) || !inr(op[4], 6) || c.cf[op[1]].pending) return rej();
            CfObj &o = c.cf[op[1]];
            st.snap = am::snap();
            o.rearm = op[4];
            o.next_v = (int)op[3];
            if (op[2] == 3) o.read_pending();
            else o.read_sync(op[2], (int)op[3]);
            return st;
        }
        case 41: {  // CfResolve k kind v
            if (!arity(4) || !inr(op[1], NK) || !inr(op[2], 3) || !c.cf[op[1]].pending) return rej();
            CfObj &o = c.cf[op[1]];
            st.snap = am::snap();
            o.next_v = (int)op[3];
            st.res = 1;
            if (op[2] == 0) (*o.pend)((int)op[3]);
            else if (op[2] == 1) o.pend->set_exception(g_exc);
            else (*o.pend)(drop);
            o.pend.reset();
            return st;
        }
        case 30: {  // SpFlush s how
            if (!arity(3) || !inr(op[1], NS) || !(op[2] == 0 || (op[2] == 1 && c.coro))) return rej();
            long s = op[1];
            st.snap = am::snap();
            st.sps = (long)c.slots[s].size();
            if (op[2] == 0) c.slots[s].clear();
            else c.await_ptr = &c.slots[s];
            return st;
        }
        case 31: {  // Pause
            if (!arity(1) || !c.coro) return rej();
            st.snap = am::snap();
            c.do_pause = true;
            return st;
        }
        default:
            return rej();
    }
}

// leave nothing pending / locked / suspended behind (no observations are printed for this part)
static bool cleanup_round(Ctx &c) {
    bool changed = false;
    for (long m = 0; m < NM; m++)
        if (c.own[m]) {
            c.own[m].release();
            changed = true;
        }
    for (long f = 0; f < NF; f++)
        if (c.fstate[f] == 2) {
            with_fut(c, f, [&](auto &, auto &prom) { prom.reset(); });
            c.fstate[f] = 3;
            changed = true;
        }
    for (long k = 0; k < NK; k++)
        if (c.cf[k].pending) {
            c.cf[k].rearm = 0;
            c.cf[k].pend.reset();
            changed = true;
        }
    for (long s = 0; s < NS; s++)
        if (!c.slots[s].empty()) {
            c.slots[s].clear();
            changed = true;
        }
    settle(c);
    return changed;
}
static void cleanup_final(Ctx &c) {
    for (long g = 0; g < NG; g++) {
        c.gens[g].reset();
        c.gens2[g].reset();
    }
    for (long f = 0; f < NF; f++) {
        c.fi[f].reset();
        c.fv[f].reset();
        c.fr[f].reset();
        c.fm[f].reset();
        c.fb[f].reset();
        c.fB[f].reset();
    }
    am::quiet q;
    c.events.clear();
}

static vh::tco driver_coro(Ctx &c, const vh::Case &cs) {
    for (auto &op : cs.ops) {
        Step st = begin(c, op);
        if (c.await_ptr) {
            co_await *c.await_ptr;
            c.await_ptr = nullptr;
            c.pending.reset();
        } else if (c.do_pause) {
            c.do_pause = false;
            co_await cocls::pause();
        } else if (c.await_gen >= 0) {
            long g = c.await_gen;
            c.await_gen = -1;
            if (c.gkind[g] == 1) {
                generator<int> &gen = *c.gens[g];
                bool b = co_await gen.next();
                st.res = b ? gen.value() : -1;
            } else {
                generator<int, int> &gen = *c.gens2[g];
                bool b = c.gtmp ? co_await gen.next(int(c.garg)) : co_await gen.next(c.garg);
                st.res = b ? gen.value() : -1;
            }
        }
        emit(c, st);
    }
    for (int i = 0, idle = 0; i < 200 && idle < 2; i++) {
        bool ch = cleanup_round(c);
        co_await cocls::pause();
        idle = ch ? 0 : idle + 1;
    }
}

int main(int argc, char **argv) {
    if (argc < 2) return 2;
    cocls::verif::get_hooks().block = &hook_block;
    pool_storage::init();
    try {
        throw std::runtime_error("payload");
    } catch (...) {
        g_exc = std::current_exception();
    }
    // warm-up: touch the thread-local ready queue (libstdc++ deque constructor allocates) and start the helper threads
    coro_queue::install_queue_and_call([] {});
    for (int t = 0; t < NH; t++) g_helpers[t].th = std::thread(helper_main, t);
    for (int t = 0; t < NH; t++) g_helpers[t].ready.wait(0);   // their warm-up allocations must not fall into a measured step
    auto cases = vh::read_cases(argv[1]);
    for (auto &cs : cases) {
        std::printf("CASE %s\n", cs.name.c_str());
        std::fflush(stdout);
        {
            // every case starts with a fresh deque (cursor at the beginning of its first node), as a new thread would.
            // Outside every measured window, but counted blocks: freeing the warm-up node later IS an observable free.
            std::deque<std::coroutine_handle<>>().swap(coro_queue::queue_impl::instance._queue);
        }
        {
            Ctx c;
            c.coro = cs.engine.size() >= 3 && cs.engine[2] == '1';
            c.heap = cs.engine.size() < 4 || cs.engine[3] != 's';
            if (c.coro) {
                auto d = driver_coro(c, cs);
                coro_queue::install_queue_and_call([&] { d.h.resume(); });
                d.h.destroy();
            } else {
                for (auto &op : cs.ops) {
                    Step st = begin(c, op);
                    emit(c, st);
                }
                for (int i = 0; i < 64; i++)
                    if (!cleanup_round(c)) break;
            }
            cleanup_final(c);
        }
        std::printf("END\n");
        std::fflush(stdout);
    }
    for (int t = 0; t < NH; t++) {
        g_helpers[t].cmd.store(2);
        g_helpers[t].cmd.notify_all();
        g_helpers[t].th.join();
    }
    return 0;
}
