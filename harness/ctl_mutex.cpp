// ctl_mutex.cpp — controlled-schedule scenarios for cocls::mutex (C07, C08).  engine: mx
// ops:  1 kind a1 r1 a2 r2 ...   contender: kind 0 coroutine / 1 plain thread; per round: acquisition
//                                 a = 0 lock (co_await lock() / lock().wait()), 1 try_lock;
//                                 release r = 0 destruction of the ownership, 1 release() discarded,
//                                 2 co_await release() (plain thread: same as 1)
//       9 k1 k2 ...              schedule
// output: one line "tid point task" per executed step, followed by "6 task" for every critical-section
// entry that happened during that step; then the ctl deadlock line, one line per contender
// "task 7 rounds entries failed_try done" and "8 overlap requests_null queue_null".
#define VH_DEFINE_NEW
#include "ctl.h"
#define protected public
#define private public
#include <cocls/mutex.h>
#include <cocls/async.h>
#include <cocls/future.h>
#undef protected
#undef private

using namespace cocls;

struct Round {
    long acq, rel;
};
struct Decl {
    long kind;
    std::vector<Round> rounds;
};

struct Ctx {
    mutex mx;
    ctl::Controller *c = nullptr;
    std::vector<Decl> decl;
    std::vector<long> nround, nent, nfail, done;
    std::atomic<int> in_cs{0};
    bool overlap = false;
    // (stamp, tid, task): from trace index `stamp` on, OS thread `tid` executes task `task`
    std::vector<std::array<long, 3>> marks;
    // (stamp, task): critical-section entry during step `stamp`
    std::vector<std::array<long, 2>> entries;

    long stamp() { return (long)c->trace.size(); }
    void mark(int id) {
        bool saved = vh::t_count;
        vh::t_count = false;
        marks.push_back({stamp(), (long)ctl::Controller::tid(), (long)id});
        vh::t_count = saved;
    }
    void enter(int id) {
        mark(id);
        if (in_cs.fetch_add(1) != 0) overlap = true;
        nent[id]++;
        bool saved = vh::t_count;
        vh::t_count = false;
        entries.push_back({stamp() - 1, (long)id});
        vh::t_count = saved;
    }
    void leave(int) { in_cs.fetch_sub(1); }
    void step(int id) {
        mark(id);
        ctl::point("step");
    }
};

static void critical(Ctx &cx, int id) {
    cx.enter(id);
    ctl::point("cs");
    cx.leave(id);
}

static async<void> coro_body(Ctx &cx, int id) {
    for (Round r : cx.decl[id].rounds) {
        cx.step(id);
        mutex::ownership own;
        if (r.acq == 0) {
            own = co_await cx.mx.lock();
        } else {
            own = cx.mx.try_lock();
            if (!own) {
                cx.nfail[id]++;
                cx.nround[id]++;
                continue;
            }
        }
        critical(cx, id);
        if (r.rel == 0) {
            mutex::ownership gone(std::move(own));
        } else if (r.rel == 1) {
            own.release();
        } else {
            co_await own.release();
        }
        cx.nround[id]++;
    }
    cx.step(id);
    cx.done[id] = 1;
}

static void plain_body(Ctx &cx, int id) {
    for (Round r : cx.decl[id].rounds) {
        cx.step(id);
        mutex::ownership own;
        if (r.acq == 0) {
            own = cx.mx.lock().wait();
        } else {
            own = cx.mx.try_lock();
            if (!own) {
                cx.nfail[id]++;
                cx.nround[id]++;
                continue;
            }
        }
        critical(cx, id);
        if (r.rel == 0) {
            mutex::ownership gone(std::move(own));
        } else {
            own.release();
        }
        cx.nround[id]++;
    }
    cx.step(id);
    cx.done[id] = 1;
}

static bool parse_decl(const std::vector<long> &op, Decl &d) {
    if (op.size() < 2 || op[0] != 1) return false;
    if (op[1] != 0 && op[1] != 1) return false;
    if ((op.size() - 2) % 2) return false;
    d.kind = op[1];
    for (size_t i = 2; i + 1 < op.size(); i += 2) {
        if (op[i] < 0 || op[i] > 1 || op[i + 1] < 0 || op[i + 1] > 2) return false;
        d.rounds.push_back({op[i], op[i + 1]});
    }
    return true;
}

static void run_case(const vh::Case &cs) {
    auto *cxp = new Ctx();  // leaked on purpose when the case deadlocks (threads still reference it)
    Ctx &cx = *cxp;
    std::vector<long> sched;
    for (auto &op : cs.ops) {
        if (op.empty()) continue;
        Decl d;
        if (op[0] == 9) sched.insert(sched.end(), op.begin() + 1, op.end());
        else if (parse_decl(op, d)) cx.decl.push_back(d);
    }
    int n = (int)cx.decl.size();
    cx.nround.assign(n, 0);
    cx.nent.assign(n, 0);
    cx.nfail.assign(n, 0);
    cx.done.assign(n, 0);
    cx.marks.reserve(4096);
    cx.entries.reserve(4096);
    std::vector<std::function<void()>> fns;
    for (int i = 0; i < n; i++) {
        if (cx.decl[i].kind == 0) fns.push_back([&cx, i] { coro_body(cx, i).detach(); });
        else fns.push_back([&cx, i] { plain_body(cx, i); });
    }
    ctl::Controller c;
    cx.c = &c;
    c.trace.reserve(8192);
    c.run(std::move(fns), sched);
    // merge: trace entry k, labelled with the task its thread was executing, then the entries of step k
    size_t ei = 0;
    for (size_t k = 0; k < c.trace.size(); k++) {
        long tid = c.trace[k].first, task = -1;
        for (auto &m : cx.marks)
            if (m[1] == tid && m[0] <= (long)k) task = m[2];
        vh::print_obs({tid, (long)c.trace[k].second, task});
        while (ei < cx.entries.size() && cx.entries[ei][0] <= (long)k) {
            vh::print_obs({6, cx.entries[ei][1]});
            ei++;
        }
    }
    while (ei < cx.entries.size()) {
        vh::print_obs({6, cx.entries[ei][1]});
        ei++;
    }
    if (c.deadlock) {
        std::vector<long> v{777};
        for (int s : c.stuck) v.push_back(s);
        vh::print_obs(v);
    }
    for (int i = 0; i < n; i++) vh::print_obs({(long)i, 7, cx.nround[i], cx.nent[i], cx.nfail[i], cx.done[i]});
    vh::print_obs({8, (long)cx.overlap, (long)(cx.mx._requests.load() == nullptr), (long)(cx.mx._queue == nullptr)});
    ctl::finish_case_or_restart(c);
    bool clean = cx.mx._requests.load() == nullptr && cx.mx._queue == nullptr;
    if (clean) delete cxp;  // otherwise ~mutex would assert; the state was already printed
}

int main(int argc, char **argv) {
    if (argc < 2) return 2;
    for (auto &cs : vh::read_cases(argv[1])) {
        std::printf("CASE %s\n", cs.name.c_str());
        std::fflush(stdout);
        if (cs.engine == "mx") run_case(cs);
        std::printf("END\n");
        std::fflush(stdout);
    }
    return 0;
}
