// ctl_mutex.cpp — controlled-schedule scenarios for cocls::mutex (C07, C08).  engine: mx
// Scheduling points do not depend on where the library placed its COCLS_VERIF_POINT marks: the harness
// supplies std::atomic<cocls::awaiter*> itself (explicit specialization below), so that EVERY atomic
// operation on mutex::_requests (load / store / exchange / compare_exchange) first yields to the
// controller.  Of the library's marks only "m_pub" (the window after the publishing CAS, where no atomic
// operation follows) and the BLOCK before flag.wait are kept; scenario points: "cs", "step".
// ops:  1 kind a1 r1 a2 r2 ...   contender: kind 0 coroutine / 1 plain thread / 2 plain thread requesting through
//                                 co_awaiter::await_suspend(resume_fn, ctx); per round: acquisition
//                                 a = 0 lock (co_await lock() / lock().wait()), 1 try_lock;
//                                 release r = 0 destruction of the ownership, 1 release() discarded,
//                                 2 co_await release() (plain thread: same as 1)
//       9 k1 k2 ...              schedule
// output: one line "tid point task" per executed step (point: 27 load, 28 exchange, 29 compare_exchange,
// 31 store, 22 m_pub, 8 flagwait, 25 cs, 30 step), followed by the scenario events of that step
// ("5 task" request published = a successful compare_exchange stored an awaiter, "6 task" critical
// section entered, "4 task" left); then the ctl deadlock line, one line per contender
// "task 7 rounds entries failed_try done" and "8 overlap requests_null queue_null".
// "778 tids": more than 3000 atomic operations in one case (the implementation spins): all threads are parked, the case ends.
// Deadlocked / livelocked cases leave their threads parked and leaked; the process goes on with the next case.
#define VH_DEFINE_NEW
#include "ctl.h"
#include <cocls/verif_hooks.h>

namespace mxh {
extern bool g_abandoned;
void atomic_yield(int code);
void published();
bool is_request(const void *p);
}  // namespace mxh

namespace cocls {
class awaiter;
}

// every operation yields first; the operation itself is the compiler builtin (sequentially consistent)
template <>
struct std::atomic<cocls::awaiter *> {
    using T = cocls::awaiter *;
    T v;
    constexpr atomic() noexcept : v(nullptr) {}
    constexpr atomic(T x) noexcept : v(x) {}
    atomic(const atomic &) = delete;
    atomic &operator=(const atomic &) = delete;
    T load(std::memory_order = std::memory_order_seq_cst) const noexcept {
        mxh::atomic_yield(27);
        return __atomic_load_n(&v, __ATOMIC_SEQ_CST);
    }
    operator T() const noexcept { return load(); }
    void store(T x, std::memory_order = std::memory_order_seq_cst) noexcept {
        mxh::atomic_yield(31);
        __atomic_store_n(&v, x, __ATOMIC_SEQ_CST);
    }
    T operator=(T x) noexcept {
        store(x);
        return x;
    }
    T exchange(T x, std::memory_order = std::memory_order_seq_cst) noexcept {
        mxh::atomic_yield(28);
        return __atomic_exchange_n(&v, x, __ATOMIC_SEQ_CST);
    }
    bool cas(T &e, T d) noexcept {
        mxh::atomic_yield(29);
        bool ok = __atomic_compare_exchange_n(&v, &e, d, false, __ATOMIC_SEQ_CST, __ATOMIC_SEQ_CST);
        if (ok && mxh::is_request(d)) mxh::published();
        return ok;
    }
    bool compare_exchange_weak(T &e, T d, std::memory_order = std::memory_order_seq_cst) noexcept { return cas(e, d); }
    bool compare_exchange_weak(T &e, T d, std::memory_order, std::memory_order) noexcept { return cas(e, d); }
    bool compare_exchange_strong(T &e, T d, std::memory_order = std::memory_order_seq_cst) noexcept { return cas(e, d); }
    bool compare_exchange_strong(T &e, T d, std::memory_order, std::memory_order) noexcept { return cas(e, d); }
};

// the library's marks: keep only the one that is not directly followed by an atomic operation
namespace mxh {
inline void lib_point(const char *id) {
    if (!std::strcmp(id, "m_pub")) ctl::point(id);
}
}  // namespace mxh
#undef COCLS_VERIF_POINT
#define COCLS_VERIF_POINT(id) ::mxh::lib_point(id)

#define protected public
#define private public
#include <cocls/mutex.h>
#include <cocls/async.h>
#include <cocls/future.h>
#undef protected
#undef private

using namespace cocls;

struct Round {
    long acq, rel;
};
struct Decl {
    long kind;
    std::vector<Round> rounds;
};

struct Ctx {
    mutex mx;
    ctl::Controller *c = nullptr;
    std::vector<Decl> decl;
    std::vector<long> nround, nent, nfail, done;
    std::atomic<int> in_cs{0};
    bool overlap = false;
    // (stamp, tid, task): from trace index `stamp` on, OS thread `tid` executes task `task`
    std::vector<std::array<long, 3>> marks;
    // (stamp, kind, task): scenario event during step `stamp` (6 entered, 4 left, 5 request published)
    std::vector<std::array<long, 3>> events;
    long cur[64] = {0};  // task executed by each OS thread

    long stamp() { return (long)c->trace.size(); }
    void mark(int id) {
        bool saved = vh::t_count;
        vh::t_count = false;
        marks.push_back({stamp(), (long)ctl::Controller::tid(), (long)id});
        cur[ctl::Controller::tid() & 63] = id;
        vh::t_count = saved;
    }
    void event(long kind, long id) {
        bool saved = vh::t_count;
        vh::t_count = false;
        events.push_back({stamp() - 1, kind, id});
        vh::t_count = saved;
    }
    void enter(int id) {
        mark(id);
        if (in_cs.fetch_add(1) != 0) overlap = true;
        nent[id]++;
        event(6, id);
    }
    void leave(int id) {
        in_cs.fetch_sub(1);
        event(4, id);
    }
    void step(int id) {
        mark(id);
        ctl::point("step");
    }
};

static Ctx *g_cx = nullptr;
namespace mxh {
static std::atomic<long> g_yields{0};
static std::atomic<bool> g_livelock{false};
bool g_abandoned = false;   // some case left threads behind (deadlock / livelock): skip static destruction at exit
void atomic_yield(int code) {
    ctl::Controller *c = ctl::Controller::active();
    if (!c || ctl::Controller::tid() < 0) return;
    // a scenario of at most 4 contenders x 3 rounds needs a few hundred atomic operations; far beyond that the
    // implementation is spinning (livelock): every thread is then parked for good at its next atomic operation,
    // so the controller sees no enabled thread and the case ends with the observation "778"
    if (g_yields.fetch_add(1) > 3000) g_livelock = true;
    if (g_livelock) {
        c->yield(ctl::Blocked, code, [](void *) { return false; }, nullptr);
        return;
    }
    c->yield(ctl::AtPoint, code, nullptr, nullptr);
}
void published() {
    if (g_cx && ctl::Controller::active() && ctl::Controller::tid() >= 0) g_cx->event(5, g_cx->cur[ctl::Controller::tid() & 63]);
}
bool is_request(const void *p) { return p != nullptr && p != (const void *)&cocls::awaiter::instance; }
}  // namespace mxh

static void critical(Ctx &cx, int id) {
    cx.enter(id);
    ctl::point("cs");
    cx.leave(id);
}

static async<void> coro_body(Ctx &cx, int id) {
    for (Round r : cx.decl[id].rounds) {
        cx.step(id);
        mutex::ownership own;
        if (r.acq == 0) {
            own = co_await cx.mx.lock();
        } else {
            own = cx.mx.try_lock();
            if (!own) {
                cx.nfail[id]++;
                cx.nround[id]++;
                continue;
            }
        }
        critical(cx, id);
        if (r.rel == 0) {
            mutex::ownership gone(std::move(own));
        } else if (r.rel == 1) {
            own.release();
        } else {
            co_await own.release();
        }
        cx.nround[id]++;
    }
    cx.step(id);
    cx.done[id] = 1;
}

// kind 2: the request goes through the callback overload co_awaiter::await_suspend(resume_fn, ctx) (what
// cocls::parallel and the thread pool use); the callback wakes this thread the way sync_awaiter does
struct CbFlag {
    std::atomic<bool> flag{false};
    static suspend_point<void> wake(awaiter *, void *u) noexcept {
        static_cast<CbFlag *>(u)->flag.store(true);
        return {};
    }
};

static void plain_body(Ctx &cx, int id) {
    bool via_callback = cx.decl[id].kind == 2;
    for (Round r : cx.decl[id].rounds) {
        cx.step(id);
        mutex::ownership own;
        if (r.acq == 0 && via_callback) {
            co_awaiter<mutex> aw = cx.mx.lock();
            CbFlag f;
            if (!aw.await_ready()) {
                if (aw.await_suspend(&CbFlag::wake, &f)) ctl::block_until("flagwait", [&] { return f.flag.load(); });
            }
            own = aw.await_resume();
        } else if (r.acq == 0) {
            own = cx.mx.lock().wait();
        } else {
            own = cx.mx.try_lock();
            if (!own) {
                cx.nfail[id]++;
                cx.nround[id]++;
                continue;
            }
        }
        critical(cx, id);
        if (r.rel == 0) {
            mutex::ownership gone(std::move(own));
        } else {
            own.release();
        }
        cx.nround[id]++;
    }
    cx.step(id);
    cx.done[id] = 1;
}

static bool parse_decl(const std::vector<long> &op, Decl &d) {
    if (op.size() < 2 || op[0] != 1) return false;
    if (op[1] != 0 && op[1] != 1 && op[1] != 2) return false;
    if ((op.size() - 2) % 2) return false;
    d.kind = op[1];
    for (size_t i = 2; i + 1 < op.size(); i += 2) {
        if (op[i] < 0 || op[i] > 1 || op[i + 1] < 0 || op[i + 1] > 2) return false;
        d.rounds.push_back({op[i], op[i + 1]});
    }
    return true;
}

static void run_case(const vh::Case &cs) {
    auto *cxp = new Ctx();  // leaked on purpose when the case deadlocks (threads still reference it)
    Ctx &cx = *cxp;
    std::vector<long> sched;
    for (auto &op : cs.ops) {
        if (op.empty()) continue;
        Decl d;
        if (op[0] == 9) sched.insert(sched.end(), op.begin() + 1, op.end());
        else if (parse_decl(op, d)) cx.decl.push_back(d);
    }
    int n = (int)cx.decl.size();
    cx.nround.assign(n, 0);
    cx.nent.assign(n, 0);
    cx.nfail.assign(n, 0);
    cx.done.assign(n, 0);
    cx.marks.reserve(4096);
    cx.events.reserve(8192);
    g_cx = cxp;
    mxh::g_yields = 0;
    mxh::g_livelock = false;
    std::vector<std::function<void()>> fns;
    for (int i = 0; i < n; i++) {
        if (cx.decl[i].kind == 0) fns.push_back([&cx, i] { coro_body(cx, i).detach(); });
        else fns.push_back([&cx, i] { plain_body(cx, i); });
    }
    // on the heap: after a deadlock / livelock the parked threads keep waiting on it, it is never destroyed
    auto *cp = new ctl::Controller();
    ctl::Controller &c = *cp;
    cx.c = &c;
    c.trace.reserve(8192);
    c.run(std::move(fns), sched);
    // merge: trace entry k, labelled with the task its thread was executing, then the entries of step k
    size_t ei = 0;
    for (size_t k = 0; k < c.trace.size(); k++) {
        long tid = c.trace[k].first, task = -1;
        for (auto &m : cx.marks)
            if (m[1] == tid && m[0] <= (long)k) task = m[2];
        vh::print_obs({tid, (long)c.trace[k].second, task});
        while (ei < cx.events.size() && cx.events[ei][0] <= (long)k) {
            vh::print_obs({cx.events[ei][1], cx.events[ei][2]});
            ei++;
        }
    }
    while (ei < cx.events.size()) {
        vh::print_obs({cx.events[ei][1], cx.events[ei][2]});
        ei++;
    }
    if (c.deadlock) {
        std::vector<long> v{mxh::g_livelock ? 778L : 777L};
        for (int s : c.stuck) v.push_back(s);
        vh::print_obs(v);
    }
    for (int i = 0; i < n; i++) vh::print_obs({(long)i, 7, cx.nround[i], cx.nent[i], cx.nfail[i], cx.done[i]});
    vh::print_obs({8, (long)cx.overlap, (long)(cx.mx._requests.load() == nullptr), (long)(cx.mx._queue == nullptr)});
    g_cx = nullptr;
    if (c.deadlock) {
        // the stuck threads cannot be joined: leave them parked, leak the controller and the scenario, go on
        mxh::g_abandoned = true;
        return;
    }
    delete cp;
    bool clean = cx.mx._requests.load() == nullptr && cx.mx._queue == nullptr;
    if (clean) delete cxp;  // otherwise ~mutex would assert; the state was already printed
}

int main(int argc, char **argv) {
    if (argc < 2) return 2;
    for (auto &cs : vh::read_cases(argv[1])) {
        std::printf("CASE %s\n", cs.name.c_str());
        std::fflush(stdout);
        if (cs.engine == "mx") run_case(cs);
        std::printf("END\n");
        std::fflush(stdout);
    }
    if (mxh::g_abandoned) {
        std::fflush(stdout);
        std::_Exit(0);   // parked threads and their scenarios are still alive
    }
    return 0;
}
