// gen_script.h — scripted generator bodies, RAII guards, consumer worker thread and consumer coroutine type
// shared by vm_gen.cpp (C13) and vm_aggr.cpp (C14).  Include after common.h and the cocls headers.
#pragma once

struct TestExc {
    int code;
};
// an exception type derived from the library's await_canceled_exception
struct DerivedCanceled : cocls::await_canceled_exception {};

enum { K_NONE = 0, K_VAL = 1, K_EXC = 2, K_ENDF = 3, K_ENDT = 4, K_PEND = 5, K_NREADY = 6 };

struct Result {
    long kind = K_NONE, val = 0;
};

// ---- watchdog: a case that makes no progress for several seconds (lost wake-up, destructor that never returns,
// consumer that is never resumed) ends the process; the partial trace is the evidence (vlib reports CRASH exit3) ----
struct Watchdog {
    std::atomic<long> beat{0};
    std::atomic<bool> stop{false};
    std::thread th;
    void start() {
        th = std::thread([this] {
            long last = -1;
            int idle = 0;
            while (!stop.load()) {
                std::this_thread::sleep_for(std::chrono::milliseconds(250));
                long b = beat.load();
                if (b == last) {
                    if (++idle >= 24) {   // ~6 s without a finished op
                        std::fflush(stdout);
                        std::_Exit(3);
                    }
                } else {
                    idle = 0;
                    last = b;
                }
            }
        });
    }
    void tick() { beat.fetch_add(1); }
    void finish() {
        stop.store(true);
        th.join();
    }
    static Watchdog &inst() {
        static Watchdog w;
        return w;
    }
};

// ---- consumer thread: synchronous accesses run here so that a blocking wait can be observed ----
struct Worker {
    std::mutex mx;
    std::condition_variable cv;
    std::thread th;
    std::function<void()> job;
    bool has_job = false, done = false, blocked = false, poke = false, quit = false;
    bool hooked = false;  // the block hook reported (otherwise a timeout decides that the thread is blocked)
    static Worker *&inst() {
        static Worker *w = nullptr;
        return w;
    }
    static thread_local bool on_worker;

    void start() {
        th = std::thread([this] {
            on_worker = true;
            std::unique_lock lk(mx);
            for (;;) {
                cv.wait(lk, [&] { return has_job || quit; });
                if (quit) return;
                has_job = false;
                auto j = std::move(job);
                lk.unlock();
                j();
                lk.lock();
                done = true;
                blocked = false;
                cv.notify_all();
            }
        });
    }
    void stop() {
        {
            std::unique_lock lk(mx);
            quit = true;
            cv.notify_all();
        }
        th.join();
    }
    // library hook: called on the thread that is about to block
    static void hook_block(const char *, bool (*pred)(void *), void *ctx) {
        Worker *w = inst();
        if (!w || !on_worker) return;
        bool saved = vh::t_count;
        vh::t_count = false;
        {
            std::unique_lock lk(w->mx);
            while (!pred(ctx)) {
                w->blocked = true;
                w->hooked = true;
                w->poke = false;
                w->cv.notify_all();
                w->cv.wait(lk, [&] { return w->poke; });
            }
            w->blocked = false;
        }
        vh::t_count = saved;
    }
    // returns true when the job finished, false when the thread is blocked
    bool hook_present = true;   // decided once by the probe at start-up
    bool wait_settled(std::unique_lock<std::mutex> &lk) {
        if (hook_present) {
            cv.wait(lk, [&] { return done || blocked; });
            return done;
        }
        // library without the gen_block hook (hooks/gen.patch not applied): a silent thread is taken to be blocked
        if (cv.wait_for(lk, std::chrono::milliseconds(1500), [&] { return done || blocked; })) return done;
        blocked = true;
        return false;
    }
    bool run(std::function<void()> j) {
        std::unique_lock lk(mx);
        job = std::move(j);
        has_job = true;
        done = false;
        blocked = false;
        cv.notify_all();
        return wait_settled(lk);
    }
    // after the main thread changed something: let the blocked thread re-evaluate
    bool recheck() {
        std::unique_lock lk(mx);
        if (done) return true;
        blocked = false;
        poke = true;
        cv.notify_all();
        return wait_settled(lk);
    }
};
thread_local bool Worker::on_worker = false;

// ---- consumer coroutine for the asynchronous styles (its frame is not counted) ----
struct task {
    struct promise_type {
        task get_return_object() { return {}; }
        std::suspend_never initial_suspend() noexcept { return {}; }
        std::suspend_never final_suspend() noexcept { return {}; }
        void return_void() {}
        void unhandled_exception() { std::terminate(); }
        static void *operator new(std::size_t n) { return std::malloc(n); }
        static void operator delete(void *p) { std::free(p); }
    };
};

template <bool A>
using Gen = std::conditional_t<A, generator<int, int>, generator<int>>;

// events go to a sink; with_src: (code, source, x) triples (aggregator), else (code, x) pairs
struct Sink {
    long ev[1024];
    int nev = 0;
    bool with_src = false;
};

struct CtxBase {
    Sink own_sink;
    Sink *sink = &own_sink;
    long src = 0;
    void event(long code, long x) {
        Sink &k = *sink;
        if (k.nev + 3 <= 1024) {
            k.ev[k.nev++] = code;
            if (k.with_src) k.ev[k.nev++] = src;
            k.ev[k.nev++] = x;
        }
    }
    promise<int> prom;   // promise of the pending await of the body
    long pend_k = -1;
    bool outstanding = false, on_thread = false;
    Result res;
    bool res_ready = false;
    int argv = 0;
    std::vector<long> script;
};

struct Guard {
    CtxBase *c;
    long id;
    Guard(CtxBase *c, long id) : c(c), id(id) { c->event(1, id); }
    Guard(const Guard &) = delete;
    ~Guard() { c->event(2, id); }
};

// (two plain functions rather than one template: g++ 12 ICEs on co_yield with a result inside a template)
#define BODY_COMMON_CASES \
            case 2: { \
                int r = co_await future<int>::set_value((int)a); \
                c->event(4, r); \
                break; \
            } \
            case 3: { \
                future<int> f; \
                c->pend_k = a; \
                c->prom = f.get_promise(); \
                int r = co_await f; \
                c->event(4, r); \
                break; \
            } \
            case 4: throw TestExc{(int)a}; \
            case 5: co_return; \
            case 20: throw await_canceled_exception(); \
            case 21: throw DerivedCanceled(); \
            case 22: { /* co_await of a future whose promise was dropped: await_canceled_exception */ \
                future<int> f; \
                { promise<int> dropped = f.get_promise(); } \
                int r = co_await f; \
                c->event(4, r); \
                break; \
            } \
            case 6: \
                switch (ng) { \
                    case 0: g0.emplace(c, a); ng++; break; \
                    case 1: g1.emplace(c, a); ng++; break; \
                    case 2: g2.emplace(c, a); ng++; break; \
                    case 3: g3.emplace(c, a); ng++; break; \
                    default: break; \
                } \
                break; \
            case 7: \
                switch (ng) { \
                    case 1: g0.reset(); ng--; break; \
                    case 2: g1.reset(); ng--; break; \
                    case 3: g2.reset(); ng--; break; \
                    case 4: g3.reset(); ng--; break; \
                    default: break; \
                } \
                break;

#define BODY0_IMPL \
    std::optional<Guard> g0, g1, g2, g3; \
    int ng = 0; \
    for (int i = 0; i + 1 < n; i += 2) { \
        long k = s[i], a = s[i + 1]; \
        switch (k) { \
            case 1: co_yield (int)a; break; \
            BODY_COMMON_CASES \
            default: break; \
        } \
    }

static generator<int> body0(CtxBase *c, const long *s, int n) {
    BODY0_IMPL
}

// the same body with its frame placed in a caller-supplied storage (README "Alokatory"): smoke engine gens
static with_allocator<reusable_storage, generator<int>> body0s(reusable_storage &, CtxBase *c, const long *s, int n) {
    BODY0_IMPL
}

static generator<int, int> body1(CtxBase *c, const long *s, int n) {
    std::optional<Guard> g0, g1, g2, g3;
    int ng = 0;
    int cur = 0;
    for (int i = 0; i + 1 < n; i += 2) {
        long k = s[i], a = s[i + 1];
        switch (k) {
            case 1: {
                int &r = co_yield (int)a;
                cur = r;
                c->event(3, cur);
                break;
            }
            BODY_COMMON_CASES
            case 8: {
                int &r = co_yield nullptr;
                cur = r;
                c->event(3, cur);
                break;
            }
            case 9: {
                int &r = co_yield cur;
                cur = r;
                c->event(3, cur);
                break;
            }
            default: break;
        }
    }
}

// ---- a move-observable value type: moving from it empties the source (like std::string) ----
struct MV {
    int v = 0;
    MV() = default;
    explicit MV(int x) : v(x) {}
    MV(const MV &) = default;
    MV &operator=(const MV &) = default;
    MV(MV &&o) noexcept : v(o.v) { o.v = 0; }
    MV &operator=(MV &&o) noexcept {
        v = o.v;
        o.v = 0;
        return *this;
    }
};
inline long vh_val(int x) { return x; }
inline long vh_val(const MV &x) { return x.v; }

// generator<MV>: kind 1 yields a TEMPORARY MV(a); kind 10 adds a to a LOCAL that lives across the yields and yields
// that local as an lvalue (the body keeps using it afterwards)
static generator<MV> bodyt(CtxBase *c, const long *s, int n) {
    std::optional<Guard> g0, g1, g2, g3;
    int ng = 0;
    MV local;
    for (int i = 0; i + 1 < n; i += 2) {
        long k = s[i], a = s[i + 1];
        switch (k) {
            case 1: co_yield MV((int)a); break;
            case 10:
                local.v += (int)a;
                co_yield local;
                break;
            BODY_COMMON_CASES
            default: break;
        }
    }
}

template <bool A>
static Gen<A> body(CtxBase *c, const long *s, int n) {
    if constexpr (A) return body1(c, s, n);
    else return body0(c, s, n);
}


// runs f from inside a running coroutine (start it under coro_queue::install_queue_and_call to have the thread's
// resumption queue active, as in any async<> / future<> coroutine)
inline task run_in_coro(std::function<void()> f) {
    f();
    co_return;
}

// called from inside a consumer awaiter's resume function, i.e. while the yielding thread is still inside the
// notification (yield_suspend::await_suspend -> caller->resume()); the two-thread harness makes it a scheduling point
inline void (*g_notify_hook)() = nullptr;

// ---- the consumer: one generator object read in freely mixed styles ----
template <bool A, typename V = int>
struct Ctx : CtxBase {
    using G = std::conditional_t<A, generator<V, int>, generator<V>>;
    std::optional<G> gen;
    std::optional<typename G::iterator> it;
    bool created = false;

    auto do_next() {
        if constexpr (A) return gen->next(argv);
        else return gen->next();
    }
    auto do_call() {
        if constexpr (A) return (*gen)(argv);
        else return (*gen)();
    }
    Result read_value() {
        Result r;
        try {
            r.val = vh_val(gen->value());
            r.kind = K_VAL;
        } catch (const TestExc &e) {
            r.kind = K_EXC;
            r.val = e.code;
        } catch (const DerivedCanceled &) {
            r.kind = K_EXC;
            r.val = 1002;
        } catch (const await_canceled_exception &) {
            r.kind = K_EXC;
            r.val = 1001;
        } catch (const value_not_ready_exception &) {
            r.kind = K_NREADY;
        }
        return r;
    }
    template <typename F>
    Result read_future(F &f) {
        Result r;
        try {
            r.val = vh_val(*f);
            r.kind = K_VAL;
        } catch (const TestExc &e) {
            r.kind = K_EXC;
            r.val = e.code;
        } catch (const DerivedCanceled &) {
            r.kind = K_EXC;
            r.val = 1002;
        } catch (const await_canceled_exception &) {
            r.kind = K_EXC;
            r.val = 1001;
        }
        return r;
    }
    void deliver(Result r) {
        res = r;
        res_ready = true;
    }

    void sync_access(int style) {
        Result r;
        try {
            switch (style) {
                case 0:
                    if (do_next()) r = read_value();
                    else r.kind = K_ENDF;
                    break;
                case 5: {
                    auto n = do_next();
                    bool b1 = n;
                    bool b2 = n;
                    if (b1 != b2) r.kind = 99;
                    else if (b1) r = read_value();
                    else r.kind = K_ENDF;
                    break;
                }
                case 1:
                    if constexpr (!A) {
                        if (!it) it.emplace(gen->begin());
                        else ++*it;
                        if (*it != gen->end()) {
                            try {
                                r.val = vh_val(**it);
                                r.kind = K_VAL;
                            } catch (const TestExc &e) {
                                r.kind = K_EXC;
                                r.val = e.code;
                            } catch (const DerivedCanceled &) {
                                r.kind = K_EXC;
                                r.val = 1002;
                            } catch (const await_canceled_exception &) {
                                r.kind = K_EXC;
                                r.val = 1001;
                            } catch (const value_not_ready_exception &) {
                                r.kind = K_NREADY;
                            }
                        } else {
                            r.kind = K_ENDF;
                        }
                    }
                    break;
                case 2: {
                    auto f = do_call();
                    if (f.has_value()) r = read_future(f);
                    else r.kind = K_ENDF;
                    break;
                }
            }
        } catch (const no_more_values_exception &) {
            r.kind = K_ENDT;
        }
        deliver(r);
    }

    // style 6: a plain awaiter (not a coroutine) subscribed through next_awt::subscribe; it counts its resumptions
    struct CountAwt : awaiter {
        long count = 0;
        CountAwt() {
            set_resume_fn([](awaiter *me, void *) noexcept -> suspend_point<void> {
                static_cast<CountAwt *>(me)->count++;
                if (g_notify_hook) g_notify_hook();
                return {};
            });
        }
    };
    CountAwt cawt;
    std::optional<typename G::next_awt> sub_next;
    bool sub_active = false;
    long cnt_report = 0;

    void sub_poll() {
        if (!sub_active || cawt.count == 0) return;
        Result r;
        bool b = sub_next->await_resume();
        if (b) r = read_value();
        else r.kind = K_ENDF;
        cnt_report = cawt.count;
        sub_active = false;
        sub_next.reset();
        deliver(r);
    }
    void sub_access() {
        Result r;
        cawt.count = 0;
        cnt_report = 0;
        try {
            sub_next.emplace(do_next());
            if (sub_next->await_ready()) {
                bool b = sub_next->await_resume();
                if (b) r = read_value();
                else r.kind = K_ENDF;
                sub_next.reset();
                deliver(r);
                return;
            }
            sub_active = true;
            sub_next->subscribe(&cawt);
            sub_poll();
        } catch (const no_more_values_exception &) {
            sub_active = false;
            sub_next.reset();
            r.kind = K_ENDT;
            deliver(r);
        }
    }

    // style 8: a plain awaiter that RE-ARMS from inside its resume function: when it is notified it reads the answer
    // and, if that was a value, immediately subscribes for the next one (argument = previous + 1), re-entrantly, while
    // the yielding code is still inside the notification.  One op consumes the whole sequence; one line per answer.
    struct RearmAwt : awaiter {
        Ctx *c = nullptr;
        long count = 0;
        RearmAwt() {
            set_resume_fn([](awaiter *me, void *) noexcept -> suspend_point<void> {
                auto self = static_cast<RearmAwt *>(me);
                self->count++;
                if (g_notify_hook) g_notify_hook();
                self->c->chain_notified();
                return {};
            });
        }
    };
    RearmAwt rawt;
    std::vector<std::unique_ptr<typename G::next_awt>> chain_next;   // kept alive: their subscribe() may still be on a stack
    std::function<void(Result)> line_out;
    bool chain_done = true;
    int chain_arg = 0;

    void chain_finish(Result r) {
        chain_done = true;
        line_out(r);
    }
    void chain_step() {
        argv = chain_arg++;
        rawt.count = 0;
        try {
            chain_next.emplace_back(new typename G::next_awt(do_next()));
            auto &n = *chain_next.back();
            if (n.await_ready()) {
                Result r;
                bool b = n.await_resume();
                if (b) r = read_value();
                else r.kind = K_ENDF;
                chain_finish(r);
                return;
            }
            n.subscribe(&rawt);     // the body runs; chain_notified() may be called before this returns
        } catch (const no_more_values_exception &) {
            Result r;
            r.kind = K_ENDT;
            chain_finish(r);
        }
    }
    void chain_notified() {
        Result r;
        bool b = chain_next.back()->await_resume();
        if (b) r = read_value();
        else r.kind = K_ENDF;
        cnt_report = rawt.count;
        if (r.kind == K_VAL) {
            line_out(r);
            chain_step();
        } else {
            chain_finish(r);
        }
    }
    void chain_start(int arg) {
        rawt.c = this;
        chain_done = false;
        chain_arg = arg;
        chain_step();
    }

    // the synchronous styles executed from inside a running coroutine (the thread's resumption queue is active)
    task sync_access_in_coro(int style) {
        sync_access(style);
        co_return;
    }

    task async_access(int style) {
        Result r;
        try {
            if (style == 3) {
                bool b = co_await do_next();
                if (b) r = read_value();
                else r.kind = K_ENDF;
            } else {
                auto f = do_call();
                bool b = co_await f.has_value();
                if (b) r = read_future(f);
                else r.kind = K_ENDF;
            }
        } catch (const no_more_values_exception &) {
            r.kind = K_ENDT;
        }
        deliver(r);
    }
};

