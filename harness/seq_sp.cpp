// seq_sp.cpp — sequential differential driver for cocls::suspend_point (C06, C20 threshold).
// engines: sp0 (ops issued from ordinary code), sp1 (ops issued by a coroutine running under the ready queue)
// Objects are suspend_point<void> or suspend_point<MV>; MV is a class type whose moves are observable.
#include "common.h"

// global allocation functions: the same accounting as common.h's VH_DEFINE_NEW set, plus an on-demand failure of the
// next operator new[] (the handle array of a suspend point is the only new[] in the measured windows)
static bool g_fail_next_arr = false;
void *operator new(std::size_t sz) {
    if (vh::t_count) vh::g_news.fetch_add(1, std::memory_order_relaxed);
    void *p = std::malloc(sz ? sz : 1);
    if (!p) throw std::bad_alloc();
    return p;
}
void *operator new[](std::size_t sz) {
    if (g_fail_next_arr) {
        g_fail_next_arr = false;
        throw std::bad_alloc();
    }
    if (vh::t_count) vh::g_news_arr.fetch_add(1, std::memory_order_relaxed);
    return ::operator new(sz);
}
void operator delete(void *p) noexcept {
    if (!p) return;
    if (vh::t_count) vh::g_deletes.fetch_add(1, std::memory_order_relaxed);
    std::free(p);
}
void operator delete[](void *p) noexcept {
    if (p && vh::t_count) vh::g_deletes_arr.fetch_add(1, std::memory_order_relaxed);
    ::operator delete(p);
}
void operator delete(void *p, std::size_t) noexcept { ::operator delete(p); }
void operator delete[](void *p, std::size_t) noexcept { ::operator delete[](p); }
#define protected public
#define private public
#include <cocls/suspend_point.h>
#undef protected
#undef private
#include <cocls/self.h>

using namespace cocls;

// value type of the typed suspend points: a moved-from MV shows -1
struct MV {
    long v;
    explicit MV(long x) : v(x) {}
    MV(const MV &o) : v(o.v) {}
    MV(MV &&o) noexcept : v(o.v) { o.v = -1; }
    MV &operator=(const MV &o) { v = o.v; return *this; }
    MV &operator=(MV &&o) noexcept {
        if (this != &o) { v = o.v; o.v = -1; }
        return *this;
    }
};

struct Slot {
    std::optional<suspend_point<void>> v;
    std::optional<suspend_point<MV>> t;
    bool live() const { return v.has_value() || t.has_value(); }
    bool typed() const { return t.has_value(); }
    suspend_point<void> *base() { return t ? static_cast<suspend_point<void> *>(&*t) : (v ? &*v : nullptr); }
    long size() { return (long)base()->size(); }
    // the value as the public API shows it: const conversion
    long value() const {
        if (!t) return 0;
        const suspend_point<MV> &c = *t;
        MV r = c;
        return r.v;
    }
};

struct Ctx {
    std::vector<Slot> slots;
    std::map<long, vh::tco> coros;
    std::vector<long> log;
    long holder = -1;   // slot whose list contains the driver's own handle (bookkeeping of what the ops did)
    std::coroutine_handle<> handle_for(long id) {
        auto it = coros.find(id);
        if (it == coros.end()) it = coros.emplace(id, vh::logging_coro(id, &log)).first;
        return it->second.h;
    }
    Slot &slot(long o) {
        if ((size_t)o >= slots.size()) slots.resize(o + 1);
        return slots[o];
    }
    void note(long id) {
        bool saved = vh::t_count;
        vh::t_count = false;
        log.push_back(id);
        vh::t_count = saved;
    }
    ~Ctx() {
        for (auto &kv : coros) kv.second.h.destroy();
    }
};

static void emit(Ctx &c, long st, long size, long val, const vh::alloc_mark &m) {
    std::vector<long> v{st, size, val, m.arr_news(), m.arr_dels(), m.scalar_news(), m.scalar_dels()};
    for (long x : c.log) v.push_back(x);
    c.log.clear();
    vh::print_obs(v);
}
static void reject(Ctx &c) {
    vh::alloc_mark m;
    c.log.clear();
    emit(c, 1, 0, 0, m);
}
static bool valid_slot(long o) { return o >= 0 && o < 64; }

// executes every op except the awaiting ones (9 Await, 10 Flush, 16 AwaitL, 17 AddSelf); returns false for those
static bool exec_plain(Ctx &c, const std::vector<long> &op) {
    if (op.empty()) { reject(c); return true; }
    auto arity = [&](size_t k) { return op.size() == k && valid_slot(op[1]); };
    switch (op[0]) {
        case 0: {  // NewV o v
            if (!arity(3)) { reject(c); return true; }
            auto &s = c.slot(op[1]);
            if (s.live()) { reject(c); return true; }
            vh::alloc_mark m;
            s.t.emplace(MV(op[2]));
            emit(c, 0, s.size(), s.value(), m);
            return true;
        }
        case 1: {  // NewH o h v
            if (!arity(4) || op[2] <= 0) { reject(c); return true; }
            auto &s = c.slot(op[1]);
            if (s.live()) { reject(c); return true; }
            auto h = c.handle_for(op[2]);
            vh::alloc_mark m;
            s.t.emplace(h, MV(op[3]));
            emit(c, 0, s.size(), s.value(), m);
            return true;
        }
        case 13: {  // NewVoid o
            if (!arity(2)) { reject(c); return true; }
            auto &s = c.slot(op[1]);
            if (s.live()) { reject(c); return true; }
            vh::alloc_mark m;
            s.v.emplace();
            emit(c, 0, s.size(), s.value(), m);
            return true;
        }
        case 14: {  // NewVoidH o h
            if (!arity(3) || op[2] <= 0) { reject(c); return true; }
            auto &s = c.slot(op[1]);
            if (s.live()) { reject(c); return true; }
            auto h = c.handle_for(op[2]);
            vh::alloc_mark m;
            s.v.emplace(h);
            emit(c, 0, s.size(), s.value(), m);
            return true;
        }
        case 12: {  // Create o t v h...
            if (op.size() < 4 || !valid_slot(op[1]) || (op[2] != 0 && op[2] != 1)) { reject(c); return true; }
            for (size_t i = 4; i < op.size(); i++)
                if (op[i] <= 0) { reject(c); return true; }
            auto &s = c.slot(op[1]);
            if (s.live()) { reject(c); return true; }
            std::vector<std::coroutine_handle<>> hs;
            for (size_t i = 4; i < op.size(); i++) hs.push_back(c.handle_for(op[i]));
            vh::alloc_mark m;
            if (op[2] == 1) {
                long v = op[3];
                s.t.emplace(coro_queue::create_suspend_point([&] {
                    for (auto h : hs) coro_queue::resume(h);
                    return MV(v);
                }));
            } else {
                s.v.emplace(coro_queue::create_suspend_point([&] {
                    for (auto h : hs) coro_queue::resume(h);
                }));
            }
            emit(c, 0, s.size(), s.value(), m);
            return true;
        }
        case 2: {  // Add o h
            if (!arity(3) || op[2] <= 0) { reject(c); return true; }
            auto &s = c.slot(op[1]);
            if (!s.live()) { reject(c); return true; }
            auto h = c.handle_for(op[2]);
            vh::alloc_mark m;
            (*s.base()) << std::move(h);
            emit(c, 0, s.size(), s.value(), m);
            return true;
        }
        case 19: {  // AddFail o h: the allocation this add may need throws
            if (!arity(3) || op[2] <= 0) { reject(c); return true; }
            auto &s = c.slot(op[1]);
            if (!s.live()) { reject(c); return true; }
            auto h = c.handle_for(op[2]);
            vh::alloc_mark m;
            long st = 0;
            g_fail_next_arr = true;
            try {
                (*s.base()) << std::move(h);
            } catch (const std::bad_alloc &) {
                st = 2;   // the caller still owns h; it is simply not handed in
            }
            g_fail_next_arr = false;
            emit(c, st, s.size(), s.value(), m);
            return true;
        }
        case 20: {  // CreateThrow o t v h...: fn readies the handles, then throws
            if (op.size() < 4 || !valid_slot(op[1]) || (op[2] != 0 && op[2] != 1)) { reject(c); return true; }
            for (size_t i = 4; i < op.size(); i++)
                if (op[i] <= 0) { reject(c); return true; }
            auto &s = c.slot(op[1]);
            if (s.live()) { reject(c); return true; }
            std::vector<std::coroutine_handle<>> hs;
            for (size_t i = 4; i < op.size(); i++) hs.push_back(c.handle_for(op[i]));
            struct Boom {};
            vh::alloc_mark m;
            try {
                if (op[2] == 1) {
                    long v = op[3];
                    auto r = coro_queue::create_suspend_point([&]() -> MV {
                        for (auto h : hs) coro_queue::resume(h);
                        throw Boom();
                        return MV(v);
                    });
                    (void)r;
                } else {
                    auto r = coro_queue::create_suspend_point([&] {
                        for (auto h : hs) coro_queue::resume(h);
                        throw Boom();
                    });
                    (void)r;
                }
            } catch (const Boom &) {
            }
            emit(c, 0, 0, 0, m);
            return true;
        }
        case 3:     // Merge a << move(b)
        case 11: {  // MoveAssign a = move(b)
            if (!arity(3) || !valid_slot(op[2]) || op[1] == op[2]) { reject(c); return true; }
            c.slot(std::max(op[1], op[2]));
            auto &a = c.slot(op[1]);
            auto &b = c.slot(op[2]);
            if (!a.live() || !b.live()) { reject(c); return true; }
            if (op[0] == 11 && a.typed() && !b.typed()) { reject(c); return true; }   // does not compile
            vh::alloc_mark m;
            if (op[0] == 3) (*a.base()) << std::move(*b.base());
            else if (a.typed()) *a.t = std::move(*b.t);
            else *a.v = std::move(*b.base());
            if (c.holder == op[2]) c.holder = op[1];
            emit(c, 0, a.size(), a.value(), m);
            return true;
        }
        case 4:    // MoveCtor a(move(b))
        case 5: {  // MoveBase a(move(base b), v)
            if (!arity(op[0] == 4 ? 3 : 4) || !valid_slot(op[2]) || op[1] == op[2]) { reject(c); return true; }
            c.slot(std::max(op[1], op[2]));
            auto &a = c.slot(op[1]);
            auto &b = c.slot(op[2]);
            if (a.live() || !b.live()) { reject(c); return true; }
            vh::alloc_mark m;
            if (op[0] == 5) a.t.emplace(std::move(*b.base()), MV(op[3]));
            else if (b.typed()) a.t.emplace(std::move(*b.t));
            else a.v.emplace(std::move(*b.v));
            if (c.holder == op[2]) c.holder = op[1];
            emit(c, 0, a.size(), a.value(), m);
            return true;
        }
        case 18: {  // Swap a b
            if (!arity(3) || !valid_slot(op[2]) || op[1] == op[2]) { reject(c); return true; }
            c.slot(std::max(op[1], op[2]));
            auto &a = c.slot(op[1]);
            auto &b = c.slot(op[2]);
            if (!a.live() || !b.live() || a.typed() != b.typed()) { reject(c); return true; }
            vh::alloc_mark m;
            if (a.typed()) std::swap(*a.t, *b.t);
            else std::swap(*a.v, *b.v);
            if (c.holder == op[1]) c.holder = op[2];
            else if (c.holder == op[2]) c.holder = op[1];
            emit(c, 0, a.size(), a.value(), m);
            return true;
        }
        case 15: {  // Read o k
            if (!arity(3) || (op[2] != 0 && op[2] != 1)) { reject(c); return true; }
            auto &s = c.slot(op[1]);
            if (!s.live() || !s.typed()) { reject(c); return true; }
            vh::alloc_mark m;
            long val;
            if (op[2] == 0) {
                MV r = *s.t;   // operator X()
                val = r.v;
            } else {
                const suspend_point<MV> &cs = *s.t;
                const MV r = cs;   // operator const X() const
                val = r.v;
            }
            emit(c, 0, s.size(), val, m);
            return true;
        }
        case 6: {  // Pop o
            if (!arity(2)) { reject(c); return true; }
            auto &s = c.slot(op[1]);
            if (!s.live() || c.holder == op[1]) { reject(c); return true; }
            vh::alloc_mark m;
            std::coroutine_handle<> h = s.base()->pop();
            if (h != std::noop_coroutine()) h.resume();
            emit(c, 0, s.size(), s.value(), m);
            return true;
        }
        case 7: {  // Clear o
            if (!arity(2)) { reject(c); return true; }
            auto &s = c.slot(op[1]);
            if (!s.live() || c.holder == op[1]) { reject(c); return true; }
            vh::alloc_mark m;
            s.base()->clear();
            emit(c, 0, s.size(), s.value(), m);
            return true;
        }
        case 8: {  // Destroy o
            if (!arity(2)) { reject(c); return true; }
            auto &s = c.slot(op[1]);
            if (!s.live() || c.holder == op[1]) { reject(c); return true; }
            long v = s.value();
            vh::alloc_mark m;
            s.t.reset();
            s.v.reset();
            emit(c, 0, 0, v, m);
            return true;
        }
        case 9:
        case 16:
        case 17:
            if (!arity(2)) { reject(c); return true; }
            return false;
        case 10:
            if (op.size() != 1) { reject(c); return true; }
            return false;
        default:
            reject(c);
            return true;
    }
}

static vh::tco driver_coro(Ctx &c, const vh::Case &cs) {
    for (auto &op : cs.ops) {
        if (exec_plain(c, op)) continue;
        if (op[0] == 9) {  // Await o: a temporary move-constructed from the slot, as user code does with `co_await f()`
            auto &s = c.slot(op[1]);
            if (!s.live()) { reject(c); continue; }
            vh::alloc_mark m;
            long v = 0;
            if (s.typed()) {
                suspend_point<MV> tmp(std::move(*s.t));
                if (c.holder == op[1] && !tmp.empty()) c.holder = -1;
                MV &r = co_await tmp;
                c.note(0);
                v = r.v;
            } else {
                suspend_point<void> tmp(std::move(*s.v));
                if (c.holder == op[1] && !tmp.empty()) c.holder = -1;
                co_await tmp;
                c.note(0);
            }
            emit(c, 0, c.slot(op[1]).size(), v, m);
        } else if (op[0] == 16) {  // AwaitL o: the object itself
            auto &s = c.slot(op[1]);
            if (!s.live()) { reject(c); continue; }
            vh::alloc_mark m;
            long v = 0;
            if (c.holder == op[1] && !s.base()->empty()) c.holder = -1;
            if (s.typed()) {
                suspend_point<MV> &obj = *s.t;
                MV &r = co_await obj;
                c.note(0);
                v = r.v;
            } else {
                suspend_point<void> &obj = *s.v;
                co_await obj;
                c.note(0);
            }
            emit(c, 0, c.slot(op[1]).size(), v, m);
        } else if (op[0] == 17) {  // AddSelf o
            auto &s = c.slot(op[1]);
            if (!s.live() || c.holder >= 0) { reject(c); continue; }
            vh::alloc_mark m;
            (*s.base()) << co_await cocls::self();
            c.holder = op[1];
            emit(c, 0, c.slot(op[1]).size(), c.slot(op[1]).value(), m);
        } else {  // Flush
            vh::alloc_mark m;
            co_await cocls::pause();
            c.note(0);
            emit(c, 0, 0, 0, m);
        }
    }
}

int main(int argc, char **argv) {
    if (argc < 2) return 2;
    // touch the thread-local ready queue once so that libstdc++'s deque warm-up allocation
    // is outside every measured window
    coro_queue::install_queue_and_call([] {});
    for (auto &cs : vh::read_cases(argv[1])) {
        std::printf("CASE %s\n", cs.name.c_str());
        std::fflush(stdout);
        // fresh deque per case: libstdc++ never recycles deque nodes, so the cursor would otherwise
        // carry over between cases (that behaviour is C20's subject, not C06's)
        std::deque<std::coroutine_handle<>>().swap(coro_queue::queue_impl::instance._queue);
        {
            Ctx c;
            c.slots.reserve(64);   // slot references stay valid across the driver's suspensions
            if (cs.engine == "sp1") {
                auto d = driver_coro(c, cs);
                coro_queue::install_queue_and_call([&] { d.h.resume(); });
                d.h.destroy();
            } else {
                for (auto &op : cs.ops)
                    if (!exec_plain(c, op)) reject(c);
            }
        }
        std::printf("END\n");
        std::fflush(stdout);
    }
    return 0;
}
