// seq_sp.cpp — sequential differential driver for cocls::suspend_point (C06, C20 threshold).
// engines: sp0 (ops issued from ordinary code), sp1 (ops issued by a coroutine running under the ready queue)
#define VH_DEFINE_NEW
#include "common.h"
#define protected public
#define private public
#include <cocls/suspend_point.h>
#undef protected
#undef private

using namespace cocls;

struct Ctx {
    std::vector<std::optional<suspend_point<int>>> slots;
    std::map<long, vh::tco> coros;
    std::vector<long> log;
    std::coroutine_handle<> handle_for(long id) {
        auto it = coros.find(id);
        if (it == coros.end()) it = coros.emplace(id, vh::logging_coro(id, &log)).first;
        return it->second.h;
    }
    long id_of(std::coroutine_handle<> h) {
        for (auto &kv : coros)
            if (kv.second.h.address() == h.address()) return kv.first;
        return -1;
    }
    std::optional<suspend_point<int>> &slot(long o) {
        if ((size_t)o >= slots.size()) slots.resize(o + 1);
        return slots[o];
    }
    ~Ctx() {
        for (auto &kv : coros) kv.second.h.destroy();
    }
};

static void emit(Ctx &c, long st, long size, long val, const vh::alloc_mark &m) {
    std::vector<long> v{st, size, val, m.arr_news(), m.arr_dels(), m.scalar_news(), m.scalar_dels()};
    for (long x : c.log) v.push_back(x);
    c.log.clear();
    vh::print_obs(v);
}
static void reject(Ctx &c) {
    vh::alloc_mark m;
    c.log.clear();
    emit(c, 1, 0, 0, m);
}

// executes every op except Await/Flush; returns false if op is one of those
static bool exec_plain(Ctx &c, const std::vector<long> &op) {
    if (op.empty()) { reject(c); return true; }
    switch (op[0]) {
        case 0: {  // NewV o v
            auto &s = c.slot(op[1]);
            if (s) { reject(c); return true; }
            vh::alloc_mark m;
            s.emplace((int)op[2]);
            emit(c, 0, s->size(), (int)*s, m);
            return true;
        }
        case 1: {  // NewH o h v
            auto &s = c.slot(op[1]);
            if (s) { reject(c); return true; }
            auto h = c.handle_for(op[2]);
            vh::alloc_mark m;
            s.emplace(h, (int)op[3]);
            emit(c, 0, s->size(), (int)*s, m);
            return true;
        }
        case 2: {  // Add o h
            auto &s = c.slot(op[1]);
            if (!s) { reject(c); return true; }
            auto h = c.handle_for(op[2]);
            vh::alloc_mark m;
            (*s) << std::move(h);
            emit(c, 0, s->size(), (int)*s, m);
            return true;
        }
        case 3:     // Merge a << move(b)
        case 11: {  // MoveAssign a = move(b)
            if (op[1] == op[2]) { reject(c); return true; }
            c.slot(std::max(op[1], op[2]));
            auto &a = c.slot(op[1]);
            auto &b = c.slot(op[2]);
            if (!a || !b) { reject(c); return true; }
            vh::alloc_mark m;
            if (op[0] == 3) (*a) << std::move(static_cast<suspend_point<void> &>(*b));
            else *a = std::move(*b);
            emit(c, 0, a->size(), (int)*a, m);
            return true;
        }
        case 4:    // MoveCtor a(move(b))
        case 5: {  // MoveBase a(move(base b), v)
            if (op[1] == op[2]) { reject(c); return true; }
            c.slot(std::max(op[1], op[2]));
            auto &a = c.slot(op[1]);
            auto &b = c.slot(op[2]);
            if (a || !b) { reject(c); return true; }
            vh::alloc_mark m;
            if (op[0] == 4) a.emplace(std::move(*b));
            else a.emplace(std::move(static_cast<suspend_point<void> &>(*b)), (int)op[3]);
            emit(c, 0, a->size(), (int)*a, m);
            return true;
        }
        case 6: {  // Pop o
            auto &s = c.slot(op[1]);
            if (!s) { reject(c); return true; }
            vh::alloc_mark m;
            std::coroutine_handle<> h = s->pop();
            if (h != std::noop_coroutine()) h.resume();
            emit(c, 0, s->size(), (int)*s, m);
            return true;
        }
        case 7: {  // Clear o
            auto &s = c.slot(op[1]);
            if (!s) { reject(c); return true; }
            vh::alloc_mark m;
            s->clear();
            emit(c, 0, s->size(), (int)*s, m);
            return true;
        }
        case 8: {  // Destroy o
            auto &s = c.slot(op[1]);
            if (!s) { reject(c); return true; }
            int v = (int)*s;
            vh::alloc_mark m;
            s.reset();
            emit(c, 0, 0, v, m);
            return true;
        }
        case 9:
        case 10:
            return false;
        default:
            reject(c);
            return true;
    }
}

static vh::tco driver_coro(Ctx &c, const vh::Case &cs) {
    for (auto &op : cs.ops) {
        if (exec_plain(c, op)) continue;
        if (op[0] == 9) {  // Await o
            auto &s = c.slot(op[1]);
            if (!s) { reject(c); continue; }
            vh::alloc_mark m;
            int v;
            {
                // await a temporary move-constructed from the slot, as user code does with `co_await f()`
                suspend_point<int> tmp(std::move(*s));
                v = co_await std::move(tmp);
            }
            emit(c, 0, s->size(), v, m);
        } else {  // Flush
            vh::alloc_mark m;
            co_await cocls::pause();
            emit(c, 0, 0, 0, m);
        }
    }
}

int main(int argc, char **argv) {
    if (argc < 2) return 2;
    // touch the thread-local ready queue once so that libstdc++'s deque warm-up allocation
    // is outside every measured window
    coro_queue::install_queue_and_call([] {});
    for (auto &cs : vh::read_cases(argv[1])) {
        std::printf("CASE %s\n", cs.name.c_str());
        std::fflush(stdout);
        // fresh deque per case: libstdc++ never recycles deque nodes, so the cursor would otherwise
        // carry over between cases (that behaviour is C20's subject, not C06's)
        std::deque<std::coroutine_handle<>>().swap(coro_queue::queue_impl::instance._queue);
        {
            Ctx c;
            if (cs.engine == "sp1") {
                auto d = driver_coro(c, cs);
                coro_queue::install_queue_and_call([&] { d.h.resume(); });
                d.h.destroy();
            } else {
                for (auto &op : cs.ops)
                    if (!exec_plain(c, op)) reject(c);
            }
        }
        std::printf("END\n");
        std::fflush(stdout);
    }
    return 0;
}
