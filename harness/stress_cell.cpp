// stress_cell.cpp — C02 under REAL, uncontrolled threads (no scheduler hooks installed: the blocking waiter really
// sleeps in std::atomic::wait, the subscription CAS really races with the exchange).
// engine: cell_stress     op: 30 trials wkind1 wkind2 rkind jitter
//   wkind: 0 coroutine co_await f, 1 thread sync()+value(), 2 callback awaiter (context deletes itself)
//   rkind: 0 promise(value), 2 promise(drop), 4 completion of an async coroutine, 6 destruction of the promise
// Every trial: a fresh future, one resolver thread and two waiter threads released together from a spin barrier
// (plus a random delay < jitter spins).  The harness only COUNTS what happened:
//   "20 lost dup wrong early" = waiters never released / released more than once / read a value that is not the one
//   written in this trial / read a not-ready future.  The expected line comes from the model (all zero).
#define VH_DEFINE_NEW
#include "common.h"
#include <chrono>
#include <optional>
#define protected public
#define private public
#include <cocls/future.h>
#include <cocls/async.h>
#undef protected
#undef private

using namespace cocls;

struct Slot {
    std::atomic<int> runs{0};
    std::atomic<long> val{-1};
    std::atomic<int> kind{-1};
};

static void read_into(future<int> &f, Slot &s) {
    try {
        s.val = f.value();
        s.kind = 1;
    } catch (const await_canceled_exception &) {
        s.kind = 0;
    } catch (const value_not_ready_exception &) {
        s.kind = 7;
    }
    s.runs++;
}

static async<void> coro_waiter(future<int> &f, Slot &s) {
    try {
        int &r = co_await f;
        s.val = r;
        s.kind = 1;
    } catch (const await_canceled_exception &) {
        s.kind = 0;
    } catch (const value_not_ready_exception &) {
        s.kind = 7;
    }
    s.runs++;
}

struct Cb {
    future<int> *f;
    Slot *s;
    co_awaiter<future<int>> aw;
    Cb(future<int> &fu, Slot &sl) : f(&fu), s(&sl), aw(fu) {}
    static suspend_point<void> fn(awaiter *, void *u) noexcept {
        auto *c = static_cast<Cb *>(u);
        read_into(*c->f, *c->s);
        delete c;
        return {};
    }
};

static async<int> async_resolver(int v) { co_return v; }

struct Stress {
    std::optional<future<int>> fut;
    std::optional<promise<int>> prom;
    Slot slots[2];
    std::atomic<long> gen{0};
    std::atomic<int> done{0};
    std::atomic<bool> quit{false};
    long wk[2], rk, jitter;

    static void spin(unsigned n) {
        for (volatile unsigned i = 0; i < n; i++) {}
    }
    bool wait_gen(long g) {
        for (unsigned i = 0; gen.load(std::memory_order_acquire) != g; i++) {
            if (quit.load()) return false;
            if ((i & 255) == 255) std::this_thread::yield();   // the machine may be oversubscribed
        }
        return true;
    }
    void waiter(int idx, long trials) {
        unsigned seed = 12345u + 77u * idx;
        for (long t = 1; t <= trials; t++) {
            if (!wait_gen(t)) return;
            seed = seed * 1103515245u + 12345u;
            spin(jitter ? (seed >> 8) % jitter : 0);
            Slot &s = slots[idx];
            switch (wk[idx]) {
                case 0: coro_waiter(*fut, s).detach(); break;
                case 1:
                    fut->sync();
                    read_into(*fut, s);
                    break;
                default: {
                    auto *cb = new Cb(*fut, s);
                    if (cb->aw.await_ready() || !cb->aw.await_suspend(&Cb::fn, cb)) {
                        read_into(*fut, s);
                        delete cb;
                    }
                }
            }
            done.fetch_add(1, std::memory_order_release);
        }
    }
    void resolver(long trials) {
        unsigned seed = 999u;
        for (long t = 1; t <= trials; t++) {
            if (!wait_gen(t)) return;
            seed = seed * 1103515245u + 12345u;
            spin(jitter ? (seed >> 8) % jitter : 0);
            switch (rk) {
                case 0: (void)(bool)(*prom)((int)t); break;
                case 2: (void)(bool)(*prom)(drop); break;
                case 4: (void)(bool)async_resolver((int)t).start(*prom); break;
                default: prom.reset();
            }
            done.fetch_add(1, std::memory_order_release);
        }
    }
};

static bool wait_until(std::atomic<int> &a, int target, int ms) {
    auto t0 = std::chrono::steady_clock::now();
    for (unsigned i = 0;; i++) {
        if (a.load(std::memory_order_acquire) >= target) return true;
        if ((i & 255) == 255) std::this_thread::yield();
        if ((i & 1023) == 0 &&
            std::chrono::steady_clock::now() - t0 > std::chrono::milliseconds(ms))
            return false;
    }
}

static void run_case(const vh::Case &cs) {
    for (auto &op : cs.ops) {
        if (op.size() != 6 || op[0] != 30) continue;
        vh::t_count = false;
        long trials = op[1];
        long lost = 0, dup = 0, wrong = 0, early = 0;
        Stress st;
        st.wk[0] = op[2];
        st.wk[1] = op[3];
        st.rk = op[4];
        st.jitter = op[5];
        std::thread th[3];
        th[0] = std::thread([&] { st.resolver(trials); });
        th[1] = std::thread([&] { st.waiter(0, trials); });
        th[2] = std::thread([&] { st.waiter(1, trials); });
        bool hung = false;
        for (long t = 1; t <= trials && !hung; t++) {
            st.fut.emplace();
            st.prom.emplace(st.fut->get_promise());
            for (auto &s : st.slots) {
                s.runs = 0;
                s.val = -1;
                s.kind = -1;
            }
            st.done = 0;
            st.gen.store(t, std::memory_order_release);
            if (!wait_until(st.done, 3, 10000)) {
                hung = true;   // a thread never came back: a blocked waiter was not woken
                lost++;
                break;
            }
            for (auto &s : st.slots) {
                if (!wait_until(s.runs, 1, 300)) lost++;   // parked coroutine / callback never released
                else {
                    if (s.runs.load() > 1) dup++;
                    int k = s.kind.load();
                    if (k == 7) early++;
                    else if (st.rk == 0 || st.rk == 4) {
                        if (k != 1 || s.val.load() != t) wrong++;
                    } else if (k != 0) wrong++;
                }
            }
            if (lost) break;   // the future may still hold a parked node: do not destroy it
            st.prom.reset();
            st.fut.reset();
        }
        vh::print_obs({20, lost, dup, wrong, early});
        if (hung || lost) {
            std::printf("END\n");
            std::fflush(stdout);
            std::_Exit(42);
        }
        st.quit = true;
        for (auto &t : th) t.join();
        vh::t_count = true;
    }
}

int main(int argc, char **argv) {
    if (argc < 2) return 2;
    for (auto &cs : vh::read_cases(argv[1])) {
        std::printf("CASE %s\n", cs.name.c_str());
        std::fflush(stdout);
        if (cs.engine == "cell_stress") run_case(cs);
        std::printf("END\n");
        std::fflush(stdout);
    }
    return 0;
}
