// seq_mutex_own.cpp — sequential driver for the ownership objects of cocls::mutex (C07, C08).  engine: mxo
// Two mutexes, four ownership slots, callback-style waiters (co_awaiter<mutex>::await_suspend(resume_fn, ctx))
// whose resume function stores the granted ownership into a slot — synchronously, inside unlock().
// ops:  1 m j   slots[j] = mx[m].try_lock()             2 m j   callback request for mx[m], ownership goes to slots[j]
//       3 j     slots[j].release()                      4 j     destroy slots[j], construct an empty one
//       5 i j   slots[j] = std::move(slots[i])          6 i j   destroy slots[j]; construct it from std::move(slots[i])
//       7 j     bool(slots[j])                          8 m     (bool) mx[m].try_lock()  (temporary destroyed at once)
// output per op:  result(-1 rejected) s0 s1 s2 s3 locked0 locked1 callbacks_resumed 0
// at the end every slot is released (repeatedly), then:  9 locked0 locked1 pending registered  /  10 resumed ids...
#define VH_DEFINE_NEW
#include "common.h"
#define protected public
#define private public
#include <cocls/mutex.h>
#undef protected
#undef private

using namespace cocls;

static constexpr int NM = 2, NS = 4;

// every operation of this driver is a handful of instructions; one that does not return within a second is
// spinning inside the library (single thread: nobody else could make it progress): report and stop
static std::atomic<long> g_heartbeat{0};
static void start_watchdog() {
    std::thread([] {
        long seen = -1;
        int idle = 0;
        for (;;) {
            std::this_thread::sleep_for(std::chrono::milliseconds(250));
            long h = g_heartbeat.load();
            if (h == seen && h >= 0) {
                if (++idle >= 4) {
                    std::fprintf(stderr, "Assertion `operation returns' failed: livelock inside an ownership operation\n");
                    std::fflush(stderr);
                    std::_Exit(3);
                }
            } else {
                idle = 0;
                seen = h;
            }
        }
    }).detach();
}

struct Ctx;
struct Waiter {
    Ctx *cx;
    long id, slot, m;
    bool resumed = false;
    std::vector<long> rel;   // slots the callback release()s after storing its grant
    co_awaiter<mutex> aw;
    Waiter(Ctx *c, long i, long s, long mm, mutex &mx) : cx(c), id(i), slot(s), m(mm), aw(mx.lock()) {}
};

struct Ctx {
    mutex mx[NM];
    std::optional<mutex::ownership> slots[NS];
    std::vector<std::unique_ptr<Waiter>> waiters;
    std::vector<long> log;
    Ctx() {
        for (auto &s : slots) s.emplace();
    }
    long held(int j) {
        if (!slots[j] || !*slots[j]) return -1;
        for (int m = 0; m < NM; m++)
            if (slots[j]->_ptr.get() == &mx[m]) return m;
        return -2;
    }
    long pending() {
        long n = 0;
        for (auto &w : waiters)
            if (!w->resumed) n++;
        return n;
    }
    bool targeted(long j) {
        for (auto &w : waiters)
            if (!w->resumed && (w->slot == j || std::find(w->rel.begin(), w->rel.end(), j) != w->rel.end())) return true;
        return false;
    }
    void emit(long r) {
        std::vector<long> v{r};
        for (int j = 0; j < NS; j++) v.push_back(held(j));
        for (int m = 0; m < NM; m++) v.push_back(mx[m]._requests.load() != nullptr);
        v.push_back((long)log.size());
        v.push_back(0);
        vh::print_obs(v);
    }
};

static suspend_point<void> on_grant(awaiter *, void *u) noexcept {
    Waiter *w = static_cast<Waiter *>(u);
    w->resumed = true;
    w->cx->log.push_back(w->id);
    *w->cx->slots[w->slot] = w->aw.await_resume();
    for (long r : w->rel) w->cx->slots[r]->release();
    return {};
}

static bool okm(long m) { return m >= 0 && m < NM; }
static bool oks(long j) { return j >= 0 && j < NS; }

static void exec(Ctx &c, const std::vector<long> &op) {
    g_heartbeat++;
    auto arity = [&](size_t n) { return op.size() == n; };
    if (op.empty()) { c.emit(-1); return; }
    switch (op[0]) {
        case 1:
            if (!arity(3) || !okm(op[1]) || !oks(op[2])) break;
            {
                bool was_free = c.mx[op[1]]._requests.load() == nullptr;
                *c.slots[op[2]] = c.mx[op[1]].try_lock();
                c.emit(was_free);
            }
            return;
        case 2:   // 2 m j [a [b]]: after storing its grant into slots[j] the callback calls slots[a].release(), slots[b].release()
            if (op.size() < 3 || op.size() > 5 || !okm(op[1]) || !oks(op[2])) break;
            {
                bool ok = true;
                for (size_t i = 3; i < op.size(); i++) ok = ok && oks(op[i]);
                if (!ok) break;
                auto *w = new Waiter(&c, (long)c.waiters.size(), op[2], op[1], c.mx[op[1]]);
                w->rel.assign(op.begin() + 3, op.end());
                if (w->aw.await_ready() || !w->aw.await_suspend(&on_grant, w)) {
                    *c.slots[op[2]] = w->aw.await_resume();
                    delete w;
                    c.emit(1);
                } else {
                    c.waiters.emplace_back(w);
                    c.emit(0);
                }
            }
            return;
        case 3:
            if (!arity(2) || !oks(op[1])) break;
            {
                bool had = (bool)*c.slots[op[1]];
                c.slots[op[1]]->release();
                c.emit(had);
            }
            return;
        case 4:
            if (!arity(2) || !oks(op[1]) || c.targeted(op[1])) break;
            c.slots[op[1]].reset();
            c.slots[op[1]].emplace();
            c.emit(1);
            return;
        case 5:
            if (!arity(3) || !oks(op[1]) || !oks(op[2])) break;
            if (op[1] != op[2]) *c.slots[op[2]] = std::move(*c.slots[op[1]]);
            else {
                auto &x = *c.slots[op[1]];
                x = std::move(x);
            }
            c.emit(1);
            return;
        case 6:
            if (!arity(3) || !oks(op[1]) || !oks(op[2]) || op[1] == op[2] || c.targeted(op[2])) break;
            c.slots[op[2]].reset();
            c.slots[op[2]].emplace(std::move(*c.slots[op[1]]));
            c.emit(1);
            return;
        case 7:
            if (!arity(2) || !oks(op[1])) break;
            c.emit((bool)*c.slots[op[1]]);
            return;
        case 8:
            if (!arity(2) || !okm(op[1])) break;
            {
                bool b = (bool)c.mx[op[1]].try_lock();
                c.emit(b);
            }
            return;
    }
    c.emit(-1);
}

static void run_case(const vh::Case &cs) {
    auto *cxp = new Ctx();
    Ctx &c = *cxp;
    for (auto &op : cs.ops) exec(c, op);
    size_t rounds = c.waiters.size() + 1;
    for (size_t r = 0; r < rounds; r++)
        for (int j = 0; j < NS; j++) {
            g_heartbeat++;
            c.slots[j]->release();
        }
    std::vector<long> fin{9};
    for (int m = 0; m < NM; m++) fin.push_back(c.mx[m]._requests.load() != nullptr);
    fin.push_back(c.pending());
    fin.push_back((long)c.waiters.size());
    vh::print_obs(fin);
    std::vector<long> lg{10};
    for (long x : c.log) lg.push_back(x);
    vh::print_obs(lg);
    bool clean = true;
    for (int m = 0; m < NM; m++) clean = clean && c.mx[m]._requests.load() == nullptr && c.mx[m]._queue == nullptr;
    if (clean && c.pending() == 0) delete cxp;   // otherwise ~mutex would assert; the state was printed
}

int main(int argc, char **argv) {
    if (argc < 2) return 2;
    start_watchdog();
    for (auto &cs : vh::read_cases(argv[1])) {
        std::printf("CASE %s\n", cs.name.c_str());
        std::fflush(stdout);
        if (cs.engine == "mxo") run_case(cs);
        std::printf("END\n");
        std::fflush(stdout);
        g_heartbeat++;
    }
    g_heartbeat = -1000000;   // finished: static destruction may take its time
    return 0;
}
