// deep_gen.cpp — LONG synchronous generators (C13 at boundary sizes).  engine: gend
// Built with -O2 and WITHOUT sanitizers (symmetric transfer is a real tail call only when optimising; ASan would
// change the stack frames): reading millions of items must not consume native stack per item.
// op:  30 N style     a synchronous generator yields 0, 1, ..., N-1; the consumer reads it to the end in the given style:
//                     0 next()+value() loop   1 range-for   2 call -> future, has_value()/ *f loop
//                     3 a coroutine doing `while (co_await g.next())`   4 a coroutine doing `f = g(); co_await f.has_value()`
// observation: 0 count first last in_order terminated
//   count = items received, first / last = first and last value, in_order = 1 iff every value was the previous one + 1,
//   terminated = 1 iff the end of sequence was reported after the last item (sticky: asked twice)
#include "common.h"
#include <cocls/generator.h>
#include <cocls/future.h>

using namespace cocls;

static generator<int> counter(long n) {
    for (long i = 0; i < n; i++) co_yield (int)i;
}

struct Seen {
    long count = 0, first = -1, last = -1, in_order = 1, terminated = 0;
    void add(long v) {
        if (count == 0) first = v;
        else if (v != last + 1) in_order = 0;
        last = v;
        count++;
    }
};

struct task {
    struct promise_type {
        task get_return_object() { return {}; }
        std::suspend_never initial_suspend() noexcept { return {}; }
        std::suspend_never final_suspend() noexcept { return {}; }
        void return_void() {}
        void unhandled_exception() { std::terminate(); }
    };
};

static task consume_next(generator<int> &g, Seen &s) {
    while (co_await g.next()) s.add(g.value());
    bool again = co_await g.next();
    s.terminated = again ? 0 : 1;
}

static task consume_call(generator<int> &g, Seen &s) {
    for (;;) {
        try {
            future<int> f = g();
            if (!co_await f.has_value()) break;
            s.add(*f);
        } catch (const no_more_values_exception &) {
            break;
        }
    }
    try {
        future<int> f = g();
        s.terminated = (co_await f.has_value()) ? 0 : 1;
    } catch (const no_more_values_exception &) {
        s.terminated = 1;
    }
}

int main(int argc, char **argv) {
    if (argc < 2) return 2;
    for (auto &cs : vh::read_cases(argv[1])) {
        std::printf("CASE %s\n", cs.name.c_str());
        std::fflush(stdout);
        for (auto &op : cs.ops) {
            if (op.size() != 3 || op[0] != 30 || op[1] < 0 || op[2] < 0 || op[2] > 4) {
                vh::print_obs({1, 0, 0, 0, 0, 0});
                continue;
            }
            Seen s;
            auto g = counter(op[1]);
            switch (op[2]) {
                case 0:
                    while (g.next()) s.add(g.value());
                    s.terminated = g.next() ? 0 : 1;
                    break;
                case 1:
                    for (int v : g) s.add(v);
                    s.terminated = g.next() ? 0 : 1;
                    break;
                case 2:
                    for (;;) {
                        try {
                            future<int> f = g();
                            if (!f.has_value()) break;
                            s.add(*f);
                        } catch (const no_more_values_exception &) {
                            break;
                        }
                    }
                    try {
                        future<int> f = g();
                        s.terminated = f.has_value() ? 0 : 1;
                    } catch (const no_more_values_exception &) {
                        s.terminated = 1;
                    }
                    break;
                case 3: consume_next(g, s); break;
                case 4: consume_call(g, s); break;
            }
            vh::print_obs({0, s.count, s.first, s.last, s.in_order, s.terminated});
        }
        std::printf("END\n");
        std::fflush(stdout);
    }
    return 0;
}
