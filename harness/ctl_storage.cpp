// ctl_storage.cpp — controlled-schedule scenarios for reusable_storage_mtsafe (C19): several threads create and
// finish coroutines of various frame sizes on ONE shared storage; yield points are the busy_x / busy_g / busy_s hooks.
// engines: st_mtc, st_mtr (same scenarios with the recycling allocator of storage_common.h).   ops: `2 k1 sz1 k2 sz2 ...` one line per thread (k >= 0: create a coroutine of class k whose frame
// size is sz; k = -1: finish this thread's oldest live coroutine; k = -2: its newest), `9 c1 c2 ...` the schedule.
#include "ctl.h"
#include "storage_common.h"

using namespace cocls;
using S = sh::top<sh::spy<reusable_storage_mtsafe>>;

struct Act {
    int kind;   // 1 create, 2 finish oldest, 3 finish newest
    int k;
    long sz;
};
struct Frame {
    std::coroutine_handle<> h;
    char *ptr;
    std::size_t n;
    long ok;
    bool live;
};

// same normalisation as the model: drop creations of size <= 0 and finishes with nothing to finish,
// then finish whatever is left
static std::vector<Act> sanitize(const std::vector<long> &op) {
    std::vector<Act> out;
    int live = 0;
    for (size_t i = 1; i + 1 < op.size(); i += 2) {
        long k = op[i], sz = op[i + 1];
        if (k >= 0) {
            if (sz > 0) {
                out.push_back({1, (int)k, sz});
                live++;
            }
        } else if (k == -1 || k == -2) {
            if (live > 0) {
                out.push_back({k == -1 ? 2 : 3, 0, 0});
                live--;
            }
        }
    }
    for (; live > 0; live--) out.push_back({2, 0, 0});
    return out;
}

static void run_case(const vh::Case &cs) {
    sh::g_rec.on = cs.engine == "st_mtr";
    std::vector<std::vector<Act>> progs;
    std::vector<long> sched;
    for (auto &op : cs.ops) {
        if (op.empty()) continue;
        if (op[0] == 2) progs.push_back(sanitize(op));
        else if (op[0] == 9) sched.insert(sched.end(), op.begin() + 1, op.end());
    }
    int n = (int)progs.size();
    size_t total = 0;
    for (auto &p : progs) {
        total += p.size();
        for (auto &a : p)
            if (a.kind == 1 && (a.k >= sh::n_classes || (long)sh::class_size(a.k) != a.sz))
                sh::size_mismatch(a.k, a.sz, sh::class_size(a.k));
    }
    std::deque<Frame> frames;   // stable addresses (&ok is handed to the coroutine)
    std::vector<std::vector<std::vector<long>>> res(n);
    for (int i = 0; i < n; i++) res[i].reserve(progs[i].size());
    alignas(S) unsigned char mem[sizeof(S)];
    S *st = new (mem) S();
    std::vector<std::function<void()>> fns;
    for (int i = 0; i < n; i++) {
        fns.push_back([&, i] {
            vh::t_count = false;
            std::vector<Frame *> own;
            long j = 0;
            for (auto &a : progs[i]) {
                if (a.kind == 1) {
                    frames.push_back(Frame{{}, nullptr, 0, -1, false});
                    Frame &f = frames.back();
                    sh::tl_mark m;
                    long ser;
                    {
                        vh::t_count = true;
                        // the registry serial is read when the thread actually proceeds past its yield point, see below
                        f.h = sh::start(*st, a.k, &f.ok, (unsigned char)(i * 53 + j));
                        vh::t_count = false;
                    }
                    f.ptr = static_cast<char *>(sh::tl_top_ptr);
                    f.n = sh::tl_top_sz;
                    if ((long)f.n != a.sz) sh::size_mismatch(a.k, a.sz, f.n);
                    sh::Block b = sh::block_of(f.ptr);
                    long room = b.found ? (long)((b.base + b.size) - f.ptr) : -1;
                    // fresh: the block was obtained by this very call = this thread's allocation count went up and the
                    // block starts at the frame
                    ser = m.news();
                    long fresh = b.found && b.heap && ser > 0 && b.base == f.ptr;
                    long ovl = 0;
                    for (auto &o : frames)
                        if (o.live && f.ptr < o.ptr + o.n && o.ptr < f.ptr + f.n) ovl++;
                    f.live = true;
                    own.push_back(&f);
                    res[i].push_back({(long)i, j, 1, m.news(), m.dels(), fresh, room, ovl});
                } else {
                    Frame *f;
                    if (a.kind == 2) {
                        f = own.front();
                        own.erase(own.begin());
                    } else {
                        f = own.back();
                        own.pop_back();
                    }
                    sh::Block b = sh::block_of(f->ptr);
                    sh::tl_mark m;
                    vh::t_count = true;
                    f->h.resume();
                    f->h.destroy();
                    vh::t_count = false;
                    long rel = b.found && b.heap && !sh::g_reg.has(b.base, b.serial);
                    f->live = false;
                    res[i].push_back({(long)i, j, 2, m.news(), m.dels(), rel, f->ok, (long)sh::tl_top_dsz});
                }
                j++;
            }
        });
    }
    ctl::Controller c;
    c.run(std::move(fns), sched);
    vh::t_count = false;
    c.print_trace();
    for (int i = 0; i < n; i++)
        for (auto &l : res[i]) vh::print_obs(l);
    ctl::finish_case_or_restart(c);
    long live = 0;
    for (auto &f : frames) live += f.live;
    // totals: what the threads measured inside their ops plus the destructor of the storage
    long A = 0, F = 0;
    for (int i = 0; i < n; i++)
        for (auto &l : res[i]) {
            A += l[3];
            F += l[4];
        }
    sh::tl_mark m;
    vh::t_count = true;
    st->~S();
    vh::t_count = false;
    vh::print_obs({10, A + m.news(), F + m.dels(), live});
    sh::g_rec.flush();
    sh::g_rec.on = false;
}

int main(int argc, char **argv) {
    if (argc < 2) return 2;
    vh::t_count = false;
    for (int k = 0; k < sh::n_classes; k++) sh::class_size(k);
    for (auto &cs : vh::read_cases(argv[1])) {
        std::printf("CASE %s\n", cs.name.c_str());
        std::fflush(stdout);
        run_case(cs);
        std::printf("END\n");
        std::fflush(stdout);
    }
    return 0;
}
