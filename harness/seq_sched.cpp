// seq_sched.cpp — direct ready-queue API scenarios for C05 (engine sapi, model coq/SchedApiDefs.v) that the scripted VM does
// not express: a callback that THROWS under install_queue_and_call / create_suspend_point after making coroutines ready, and
// suspend points merged by assignment before being discarded / awaited.
// Waiter i (1..n) awaits a future and logs i when resumed. No expected values here.
#define VH_DEFINE_NEW
#include "common.h"
#include <cocls/async.h>
#include <cocls/future.h>
#include <cocls/self.h>

using cocls::async;
using cocls::future;
using cocls::promise;
using cocls::suspend_point;
using cocls::coro_queue;

namespace {

struct Fut {
    future<int> f;
    promise<int> p;
    Fut() : p(f.get_promise()) {}
};

std::vector<long> *g_log = nullptr;

async<void> waiter(long id, Fut *fu) {
    co_await fu->f;
    g_log->push_back(id);
}

void subscribe(Fut &fu, long first, long n) {
    for (long i = 0; i < n; i++) waiter(first + i, &fu).detach();
}

long qlen() { return (long)coro_queue::queue_impl::instance._queue.size(); }

struct boom {};

async<void> driver(Fut *a, Fut *b, bool *done) {
    suspend_point<void> sp = a->p(1);
    sp = b->p(2);
    co_await sp;
    g_log->push_back(0);
    *done = true;
}

// op 4: a running coroutine calls coro_queue::resume(h) directly for a suspended coroutine h (logs 50 when resumed),
// after it queued nq waiters through a discarded suspend point; it logs 0 right after the call
async<void> resumer(Fut *a, std::coroutine_handle<> h) {
    a->p(1);                      // discarded: waiters queued (coroutine mode)
    coro_queue::resume(h);
    g_log->push_back(0);
    co_return;
}

// op 5: own handle inside the awaited suspend point: sp = co_await self(); sp << child_i.detach() (n children); co_await sp
async<void> child(long id) {
    g_log->push_back(id);
    co_return;
}
async<void> self_awaiter(long n) {
    suspend_point<void> sp = co_await cocls::self();
    for (long i = 1; i <= n; i++) sp << child(i).detach();
    co_await sp;
    g_log->push_back(0);
}
// op 6: explicit clear() of a non-empty suspend point inside a running coroutine
async<void> clearer(Fut *a) {
    suspend_point<void> sp = a->p(1);
    sp.clear();
    g_log->push_back(0);
    co_return;
}

void run_op(const std::vector<long> &op) {
    auto rej = [] { vh::print_obs({1}); };
    std::vector<long> log;
    g_log = &log;
    if (op.size() == 3 && (op[0] == 1 || op[0] == 2)) {
        long n = op[1], thr = op[2];
        if (n < 0 || n > 12 || thr < 0 || thr > 1) return rej();
        Fut fu;
        subscribe(fu, 1, n);
        long inside = -1, caught = 0;
        try {
            if (op[0] == 1) {
                coro_queue::install_queue_and_call([&] {
                    fu.p(7);                 // suspend point discarded under the installed queue: waiters are queued
                    inside = (long)log.size();
                    if (thr) throw boom{};
                });
            } else {
                auto sp = coro_queue::create_suspend_point([&] {
                    fu.p(7);
                    inside = (long)log.size();
                    if (thr) throw boom{};
                });
                // sp discarded here (normal code): runs what it holds
            }
        } catch (boom &) {
            caught = 1;
        }
        std::vector<long> o = {0, inside, coro_queue::is_active() ? 1 : 0, qlen(), caught};
        for (long x : log) o.push_back(x);
        vh::print_obs(o);
        // clean up whatever a broken library left behind so that the next scenario starts clean
        if (coro_queue::is_active() || qlen()) {
            coro_queue::instance = nullptr;
            auto &q = coro_queue::queue_impl::instance._queue;
            while (!q.empty()) { auto h = q.front(); q.pop_front(); h.resume(); }
        }
        return;
    }
    if (op.size() == 4 && op[0] == 3) {
        long n1 = op[1], n2 = op[2], aw = op[3];
        if (n1 < 0 || n1 > 8 || n2 < 0 || n2 > 8 || aw < 0 || aw > 1) return rej();
        Fut a, b;
        subscribe(a, 1, n1);
        subscribe(b, 101, n2);
        if (aw == 0) {
            suspend_point<void> sp = a.p(1);
            sp = b.p(2);
        } else {
            bool done = false;
            driver(&a, &b, &done).detach();
        }
        std::vector<long> o = {0, coro_queue::is_active() ? 1 : 0, qlen()};
        for (long x : log) o.push_back(x);
        vh::print_obs(o);
        return;
    }
    if (op.size() == 2 && (op[0] == 5 || op[0] == 6)) {
        long n = op[1];
        if (n < 0 || n > 8) return rej();
        Fut a;
        if (op[0] == 5) self_awaiter(n).detach();
        else {
            subscribe(a, 1, n);
            clearer(&a).detach();
        }
        std::vector<long> o = {0, coro_queue::is_active() ? 1 : 0, qlen()};
        for (long x : log) o.push_back(x);
        vh::print_obs(o);
        return;
    }
    if (op.size() == 2 && op[0] == 4) {
        long nq = op[1];
        if (nq < 0 || nq > 8) return rej();
        Fut a;
        subscribe(a, 1, nq);
        vh::tco t = vh::logging_coro(50, &log);
        resumer(&a, t.h).detach();
        std::vector<long> o = {0, coro_queue::is_active() ? 1 : 0, qlen()};
        for (long x : log) o.push_back(x);
        vh::print_obs(o);
        t.h.destroy();
        return;
    }
    rej();
}

}  // namespace

int main(int argc, char **argv) {
    if (argc < 2) return 2;
    for (auto &c : vh::read_cases(argv[1])) {
        std::printf("CASE %s\n", c.name.c_str());
        std::fflush(stdout);
        for (auto &op : c.ops) run_op(op);
        std::printf("END\n");
        std::fflush(stdout);
    }
    return 0;
}
