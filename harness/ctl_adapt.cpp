// ctl_adapt.cpp — controlled-schedule (engine `adapt`) and sequential (engine `adseq`) scenarios for the
// callback adapters (C18): callback_await / callback_await_alloc, make_promise, discard, future_conv,
// call_fn_future_awaiter.  One scenario = one adapter registered by thread 0 on a future<counted> whose
// promise is resolved (value / exception / dropped) before, during or after the registration.
//   op [1 adapter mode storage]   adapter 0 callback_await 1 make_promise 2 discard 3 future_conv 4 call_fn_future_awaiter
//                                 mode 0 ready-made future, 1 resolved inside the future's init function (same thread, before
//                                 registration), 2 promise parked, resolved by thread 1 (concurrent), 3 promise parked, resolved by
//                                 thread 0 after the registration;  storage 0 heap, 1 counting storage (adapters 0 and 1 only)
//   op [2 kind datum]             0 value datum, 1 exception test_exc{datum}, 2 promise dropped
//   op [3 ckind cdatum]           converter (future_conv): 0 returns src+cdatum, 1 throws test_exc{cdatum}
//   op [4 b]                      b=1: the user callback of callback_await throws after it has done its work
//   op [9 k k k ...]              schedule
// The harness contains no expected values: it prints the (tid, point) trace, the events and the counters.
#define VH_DEFINE_NEW
#include "ctl.h"
#if defined(__SANITIZE_ADDRESS__)
#include <sanitizer/asan_interface.h>
#define VH_POISON(p, n) ASAN_POISON_MEMORY_REGION(p, n)
#define VH_UNPOISON(p, n) ASAN_UNPOISON_MEMORY_REGION(p, n)
#else
#define VH_POISON(p, n) ((void)0)
#define VH_UNPOISON(p, n) ((void)0)
#endif
#define protected public
#define private public
#include <cocls/future.h>
#include <cocls/async.h>
#include <cocls/callback_awaiter.h>
#include <cocls/future_conv.h>
#undef protected
#undef private

using namespace cocls;

struct test_exc {
    long code;
};

struct counted {
    static inline std::atomic<long> live{0};
    long v;
    counted(long x) : v(x) { live++; }
    counted(const counted &o) : v(o.v) { live++; }
    counted(counted &&o) : v(o.v) { live++; }
    ~counted() { live--; }
};

// ---- per-case context: event list + counters (only the one running thread touches it) ----
struct Ctx {
    std::vector<std::vector<long>> events;
    long news0 = 0, dels0 = 0;
    long sallocs = 0, sdeallocs = 0;
    long live_f = 0;
    const void *invoked = nullptr;
    long runs = 0;
    bool cbthrow = false;
    long end_news = 0, end_dels = 0;   // counters when the last scenario thread returned (+ counted teardown)
    void thread_end() { end_news = std::max(end_news, news()); end_dels = std::max(end_dels, dels()); }
    long step() const {
        auto *c = ctl::Controller::active();
        return c ? (long)c->trace.size() : 0;
    }
    long news() const { return vh::g_news.load() - news0; }
    long dels() const { return vh::g_deletes.load() - dels0; }
    // the harness's own bookkeeping is not part of the measured allocations
    template <typename... A>
    void ev(A... a) {
        long vals[] = {(long)a...};
        bool saved = vh::t_count;
        vh::t_count = false;
        events.emplace_back(std::begin(vals), std::end(vals));
        vh::t_count = saved;
    }
    void cb_enter(long kind, long datum) {
        runs++;
        ev(30, step(), kind, datum, news(), dels(), sallocs, sdeallocs);
    }
    void cb_exit() { ev(31, step(), news(), dels(), sallocs, sdeallocs); }
};
static Ctx *g_ctx = nullptr;

// counting storage: one static block; dealloc is static as the Storage concept demands
struct cstorage {
    alignas(16) static inline char buf[8192];
    static inline bool in_use = false;
    void *alloc(std::size_t sz) {
        g_ctx->sallocs++;
        if (in_use || sz > sizeof(buf)) {
            g_ctx->ev(36, g_ctx->step(), (long)in_use);   // would overlap a live block: reported, then heap
            return ::operator new(sz);
        }
        in_use = true;
        VH_UNPOISON(buf, sizeof(buf));
        return buf;
    }
    static void dealloc(void *p, std::size_t) {
        g_ctx->sdeallocs++;
        g_ctx->ev(35, g_ctx->step());
        if (p == buf) {
            in_use = false;
            VH_POISON(buf, sizeof(buf));
        } else {
            ::operator delete(p);
        }
    }
};

template <typename F>
static void read_future(F &f, long &kind, long &datum) {
    kind = 7;
    datum = 0;
    try {
        if constexpr (std::is_same_v<typename F::value_type, counted>) datum = f.value().v;
        else datum = f.value();
        kind = 1;
    } catch (const test_exc &e) {
        kind = 2;
        datum = e.code;
    } catch (const await_canceled_exception &) {
        kind = f.has_value().await_resume() ? 3 : 0;   // stored exception object vs. broken promise
    } catch (const value_not_ready_exception &) {
        kind = 7;
    }
}

struct FnBase {
    Ctx *c;
    FnBase(Ctx *x) : c(x) { c->live_f++; }
    FnBase(const FnBase &o) : c(o.c) { c->live_f++; }
    FnBase(FnBase &&o) : c(o.c) { c->live_f++; }
    ~FnBase() {
        c->live_f--;
        if (c->invoked == this) {   // the instance that received the callback dies: the helper object is being destroyed
            c->invoked = nullptr;
            c->ev(34, c->step(), c->news(), c->dels(), c->sallocs, c->sdeallocs);
        }
    }
};

// callback for callback_await
struct AwFn : FnBase {
    using FnBase::FnBase;
    void operator()(await_result<counted> r) {
        long kind = 7, datum = 0;
        if (r) {
            kind = 1;
            datum = (*r).v;
        } else {
            try {
                r.get();
            } catch (const test_exc &e) {
                kind = 2;
                datum = e.code;
            } catch (const await_canceled_exception &) {
                kind = 0;
            } catch (const value_not_ready_exception &) {
                kind = 7;
            }
        }
        c->invoked = this;
        c->cb_enter(kind, datum);
        c->cb_exit();
        if (c->cbthrow) throw test_exc{-1};   // a callback that fails after doing its work
    }
};

// callback for make_promise
struct MpFn : FnBase {
    using FnBase::FnBase;
    void operator()(future<counted> &f) {
        long kind, datum;
        read_future(f, kind, datum);
        c->invoked = this;
        c->cb_enter(kind, datum);
        c->cb_exit();
    }
};

struct CfObj {
    Ctx *c;
    suspend_point<void> done(future<counted> &f) noexcept {
        long kind, datum;
        read_future(f, kind, datum);
        c->cb_enter(kind, datum);
        c->cb_exit();
        return {};
    }
};

struct ConvCtx {
    Ctx *c;
    long ck, cd;
    long conv(counted &src) {
        if (ck) {
            c->ev(32, c->step(), src.v, 2, cd);
            throw test_exc{cd};
        }
        c->ev(32, c->step(), src.v, 1, src.v + cd);
        return src.v + cd;
    }
};

struct Hold {
    promise<counted> p;
    Hold(promise<counted> &&q) : p(std::move(q)) {}
    template <typename F>
    Hold(F &&f, int) : p(f()) {}
};
struct OuterHold {
    future<long> f;
    template <typename F>
    OuterHold(F &&mk) : f(mk()) {}
};

struct Cfg {
    long ad = -1, mode = -1, stor = -1, k = -1, d = 0, ck = 0, cd = 0, cbthrow = 0;
    std::vector<long> sched;
    bool valid() const {
        if (ad < 0 || ad > 4 || mode < 0 || mode > 3 || stor < 0 || stor > 1) return false;
        if (stor == 1 && ad > 1) return false;
        if (k < 0 || k > 2 || ck < 0 || ck > 1 || cbthrow < 0 || cbthrow > 1) return false;
        if (ad == 1 && mode < 2) return false;
        return true;
    }
};

static Cfg parse(const vh::Case &cs) {
    Cfg g;
    bool h1 = false, h2 = false, h3 = false, h4 = false;
    for (auto &op : cs.ops) {
        if (op.empty()) continue;
        if (op[0] == 1 && !h1) {
            h1 = true;
            if (op.size() == 4) { g.ad = op[1]; g.mode = op[2]; g.stor = op[3]; }
        } else if (op[0] == 2 && !h2) {
            h2 = true;
            if (op.size() == 3) { g.k = op[1]; g.d = op[2]; }
        } else if (op[0] == 3 && !h3) {
            h3 = true;
            if (op.size() == 3) { g.ck = op[1]; g.cd = op[2]; } else g.ck = -1;
        } else if (op[0] == 4 && !h4) {
            h4 = true;
            if (op.size() == 2) g.cbthrow = op[1]; else g.cbthrow = -1;
        } else if (op[0] == 9) {
            g.sched.insert(g.sched.end(), op.begin() + 1, op.end());
        }
    }
    return g;
}

static void warmup() {
    bool saved = vh::t_count;
    vh::t_count = false;
    coro_queue::install_queue_and_call([] {});   // libstdc++ deque of the thread-local ready queue allocates on first touch
    vh::t_count = saved;
}

static void run_case(const vh::Case &cs, bool seq) {
    vh::t_count = false;
    Cfg g = parse(cs);
    if (!g.valid()) {
        vh::print_obs({-1});
        vh::t_count = true;
        return;
    }
    long live0 = counted::live.load();
    Ctx ctx;
    g_ctx = &ctx;
    ctx.cbthrow = g.cbthrow == 1 && g.ad == 0;
    ctx.news0 = vh::g_news.load();
    ctx.dels0 = vh::g_deletes.load();
    cstorage::in_use = false;
    long outer_ready = 0, outer_kind = 0, outer_datum = 0;
    {
        std::optional<Hold> hold;
        cstorage stor;
        ConvCtx cctx{&ctx, g.ck, g.cd};
        CfObj cfobj{&ctx};
        std::optional<future_conv<&ConvCtx::conv>> fc;
        std::optional<OuterHold> outer;
        std::optional<co_awaiter<future<long>>> outer_aw;
        std::optional<call_fn_future_awaiter<&CfObj::done>> cfa;

        auto mk = [&]() -> future<counted> {
            switch (g.mode) {
                case 0:
                    if (g.k == 0) return future<counted>::set_value(g.d);
                    if (g.k == 1) return future<counted>::set_exception(std::make_exception_ptr(test_exc{g.d}));
                    return future<counted>::set_not_value();
                case 1:
                    return future<counted>([&](promise<counted> p) {
                        if (g.k == 0) p(g.d);
                        else if (g.k == 1) p(std::make_exception_ptr(test_exc{g.d}));
                        // k == 2: the promise is dropped when p goes out of scope
                    });
                default:
                    return future<counted>([&](promise<counted> p) { hold.emplace(std::move(p)); });
            }
        };
        auto resolve = [&] {
            if (g.k == 0) hold->p(g.d);
            else if (g.k == 1) hold->p(std::make_exception_ptr(test_exc{g.d}));
            else hold.reset();
        };
        struct OuterCb {
            static suspend_point<void> fn(awaiter *, void *u) noexcept {
                auto *o = static_cast<std::pair<Ctx *, future<long> *> *>(u);
                long kind, datum;
                read_future(*o->second, kind, datum);
                o->first->ev(33, o->first->step(), kind, datum);
                return {};
            }
        };
        std::pair<Ctx *, future<long> *> ocb_arg{&ctx, nullptr};

        auto t0 = [&] {
            warmup();
            switch (g.ad) {
                case 0:
                    if (g.stor == 0) callback_await<future<counted>>(AwFn(&ctx), mk);
                    else callback_await_alloc<cstorage, future<counted>>(stor, AwFn(&ctx), mk);
                    break;
                case 1:
                    if (g.stor == 0) hold.emplace([&] { return make_promise<counted>(MpFn(&ctx)); }, 0);
                    else hold.emplace([&] { return make_promise<counted>(MpFn(&ctx), stor); }, 0);
                    break;
                case 2:
                    discard(mk);
                    break;
                case 3: {
                    fc.emplace(&cctx);
                    outer.emplace([&] { return *fc << mk; });
                    ocb_arg.second = &outer->f;
                    outer_aw.emplace(outer->f);
                    if (outer_aw->await_ready() || !outer_aw->await_suspend(&OuterCb::fn, &ocb_arg))
                        OuterCb::fn(nullptr, &ocb_arg);
                    break;
                }
                case 4:
                    cfa.emplace(cfobj);
                    *cfa << mk;
                    break;
            }
            if (g.mode == 3) resolve();
            ctx.thread_end();
        };
        auto t1 = [&] {
            warmup();
            ctl::block_until("xwait", [&] { return hold.has_value(); });
            resolve();
            ctx.thread_end();
        };

        if (seq) {
            vh::t_count = true;
            t0();
            if (g.mode == 2) t1();
            vh::t_count = false;
        } else {
            std::vector<std::function<void()>> fns;
            fns.push_back(t0);
            if (g.mode == 2) fns.push_back(t1);
            ctl::Controller c;
            c.run(std::move(fns), g.sched);
            vh::t_count = false;
            c.print_trace();
            if (c.deadlock) {
                for (auto &e : ctx.events) vh::print_obs(e);
                ctl::finish_case_or_restart(c);
            }
        }
        for (auto &e : ctx.events) vh::print_obs(e);
        ctx.events.clear();
        if (outer) {
            outer_ready = outer->f.ready();
            if (outer_ready) read_future(outer->f, outer_kind, outer_datum);
        }
        long n1 = vh::g_news.load(), d1 = vh::g_deletes.load();
        vh::t_count = true;   // anything the adapters still own dies here, counted
        outer_aw.reset();
        outer.reset();
        fc.reset();
        cfa.reset();
        hold.reset();
        vh::t_count = false;
        ctx.end_news += vh::g_news.load() - n1;
        ctx.end_dels += vh::g_deletes.load() - d1;
    }
    for (auto &e : ctx.events) vh::print_obs(e);
    vh::print_obs({40, ctx.end_news, ctx.end_dels, ctx.sallocs, ctx.sdeallocs, ctx.live_f, counted::live.load() - live0});
    vh::print_obs({42, outer_ready, outer_kind, outer_datum});
    vh::print_obs({50, ctx.runs, 0});
    g_ctx = nullptr;
    vh::t_count = true;
}

int main(int argc, char **argv) {
    if (argc < 2) return 2;
    for (auto &cs : vh::read_cases(argv[1])) {
        std::printf("CASE %s\n", cs.name.c_str());
        std::fflush(stdout);
        if (cs.engine == "adapt") run_case(cs, false);
        else if (cs.engine == "adseq") run_case(cs, true);
        std::printf("END\n");
        std::fflush(stdout);
    }
    return 0;
}
