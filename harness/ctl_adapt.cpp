// ctl_adapt.cpp — controlled-schedule and sequential scenarios for the callback adapters (C18):
// callback_await / callback_await_alloc, make_promise, discard, future_conv (all specialisations),
// call_fn_future_awaiter.  One scenario = one adapter registered by thread 0 on a source future whose promise is
// resolved (value / exception / dropped), possibly against a competing resolver, before, during or after the registration.
// engine name = "adapt" | "adseq"  (controlled threads | one thread, no controller)
//               + "c" optional      (all scenario code runs with the thread's coro_queue active, i.e. as if called from a coroutine)
//               + "v" | "r" optional (source future<void> | the factory returns future<counted&>; default future<counted>)
//   op [1 adapter mode storage]   adapter 0 callback_await 1 make_promise 2 discard 3 future_conv 4 call_fn_future_awaiter
//                                 mode 0 ready-made future, 1 resolved inside the future's init function (same thread, before the
//                                 registration), 2 promise parked, resolved by thread 1 (concurrent), 3 promise parked, resolved by
//                                 thread 0 after the registration
//                                 storage (adapters 0,1): 0 heap, 1 counting storage (static block), 2 cocls::reusable_storage,
//                                 3 the second of two trailer-tagged counting storages, 4 cocls::reusable_storage_mtsafe
//   op [2 kind datum]             0 value datum, 1 exception test_exc{datum}, 2 promise dropped
//   op [3 ckind cdatum (spec)]    converter: 0 returns src+cdatum, 1 throws test_exc{cdatum}; spec 0 member fn, 1 free fn,
//                                 2 free fn with context, 3 member fn taking the promise; with spec 3 also ckind 2 resolves the
//                                 promise with the exception, 3 declines (touches nothing), 4 moves the promise to a holder
//                                 from which thread 2 resolves it later
//   op [4 b]                      b=1: the user callback of callback_await throws after it has done its work
//   op [5 kind datum]             competing resolver on thread 2 (mode 2 only): value / exception / p(drop)
//   op [6 kind datum]             call_fn_future_awaiter only: the completion handler re-arms the same awaiter with a second operation
//                                 that is still pending when the handler returns; thread 2 resolves it (value / exception / dropped)
//   op [9 k k k ...]              schedule
// The harness contains no expected values: it prints the (tid, point) trace, the events and the counters.
#include "ctl.h"
#if defined(__SANITIZE_ADDRESS__)
#include <sanitizer/asan_interface.h>
#define VH_POISON(p, n) ASAN_POISON_MEMORY_REGION(p, n)
#define VH_UNPOISON(p, n) ASAN_UNPOISON_MEMORY_REGION(p, n)
#else
#define VH_POISON(p, n) ((void)0)
#define VH_UNPOISON(p, n) ((void)0)
#endif

// ---- allocation accounting: the shared scenario counters (vh::g_news / g_deletes, gated by vh::t_count) plus an
// ---- ungated balance over everything, so that a block lost by a case is attributed to that case ----
static std::atomic<long> g_all_news{0}, g_all_dels{0};
void *operator new(std::size_t sz) {
    g_all_news.fetch_add(1, std::memory_order_relaxed);
    if (vh::t_count) vh::g_news.fetch_add(1, std::memory_order_relaxed);
    void *p = std::malloc(sz ? sz : 1);
    if (!p) throw std::bad_alloc();
    return p;
}
void *operator new[](std::size_t sz) {
    if (vh::t_count) vh::g_news_arr.fetch_add(1, std::memory_order_relaxed);
    return ::operator new(sz);
}
void operator delete(void *p) noexcept {
    if (!p) return;
    g_all_dels.fetch_add(1, std::memory_order_relaxed);
    if (vh::t_count) vh::g_deletes.fetch_add(1, std::memory_order_relaxed);
    std::free(p);
}
void operator delete[](void *p) noexcept {
    if (p && vh::t_count) vh::g_deletes_arr.fetch_add(1, std::memory_order_relaxed);
    ::operator delete(p);
}
void operator delete(void *p, std::size_t) noexcept { ::operator delete(p); }
void operator delete[](void *p, std::size_t) noexcept { ::operator delete[](p); }

#define protected public
#define private public
#include <cocls/future.h>
#include <cocls/async.h>
#include <cocls/callback_awaiter.h>
#include <cocls/future_conv.h>
#include <cocls/coro_storage.h>
#undef protected
#undef private

using namespace cocls;

struct test_exc {
    long code;
};

struct counted {
    static inline std::atomic<long> live{0};
    long v;
    counted(long x) : v(x) { live++; }
    counted(const counted &o) : v(o.v) { live++; }
    counted(counted &&o) : v(o.v) { live++; }
    // a destroyed instance is recognisable: reading it afterwards yields the poison value, not the payload
    ~counted() {
        live--;
        *(volatile long *)&v = -7777777;
    }
};

// ---- per-case context: event list + counters (only the one running thread touches it) ----
struct tstorage;
struct Ctx {
    std::vector<std::vector<long>> events;
    long news0 = 0, dels0 = 0;
    long sallocs = 0, sdeallocs = 0;   // of the storage handed to the adapter
    long live_f = 0;
    const void *invoked = nullptr;
    long runs = 0;
    bool cbthrow = false;
    long mismatch = 0;                 // trailer storage: dealloc with a size / owner that does not match the alloc
    tstorage *ts_a = nullptr, *ts_b = nullptr;
    long end_news = 0, end_dels = 0;   // counters when the last scenario thread returned (+ counted teardown)
    void thread_end() { end_news = std::max(end_news, news()); end_dels = std::max(end_dels, dels()); }
    long step() const {
        auto *c = ctl::Controller::active();
        return c ? (long)c->trace.size() : 0;
    }
    long news() const { return vh::g_news.load() - news0; }
    long dels() const { return vh::g_deletes.load() - dels0; }
    // the harness's own bookkeeping is not part of the measured allocations
    template <typename... A>
    void ev(A... a) {
        long vals[] = {(long)a...};
        bool saved = vh::t_count;
        vh::t_count = false;
        events.emplace_back(std::begin(vals), std::end(vals));
        vh::t_count = saved;
    }
    void cb_enter(long kind, long datum) {
        runs++;
        ev(30, step(), kind, datum, news(), dels(), sallocs, sdeallocs);
    }
    void cb_exit() { ev(31, step(), news(), dels(), sallocs, sdeallocs); }
};
static Ctx *g_ctx = nullptr;

// counting storage: one static block; dealloc is static as the Storage concept demands
struct cstorage {
    alignas(16) static inline char buf[8192];
    static inline bool in_use = false;
    void *alloc(std::size_t sz) {
        g_ctx->sallocs++;
        if (in_use || sz > sizeof(buf)) {
            g_ctx->ev(36, g_ctx->step(), (long)in_use);   // would overlap a live block: reported, then heap
            return ::operator new(sz);
        }
        in_use = true;
        VH_UNPOISON(buf, sizeof(buf));
        return buf;
    }
    static void dealloc(void *p, std::size_t) {
        g_ctx->sdeallocs++;
        g_ctx->ev(35, g_ctx->step());
        if (p == buf) {
            in_use = false;
            VH_POISON(buf, sizeof(buf));
        } else {
            ::operator delete(p);
        }
    }
};

// counting storage with instances: the owner is written behind the block (as static_storage / reusable_storage_mtsafe
// do), so dealloc only finds the right instance if it is given the size that alloc was given
struct tstorage {
    alignas(16) char buf[4096];
    long allocs = 0, deallocs = 0;
    std::size_t last_sz = 0;
    bool in_use = false;
    void *alloc(std::size_t sz) {
        allocs++;
        if (this == g_ctx->ts_b) g_ctx->sallocs++;
        if (in_use || sz + sizeof(tstorage *) > sizeof(buf)) {
            g_ctx->ev(36, g_ctx->step(), (long)in_use);
            std::abort();
        }
        in_use = true;
        last_sz = sz;
        VH_UNPOISON(buf, sizeof(buf));
        tstorage *self = this;
        std::memcpy(buf + sz, &self, sizeof(self));   // the trailer
        return buf;
    }
    static void dealloc(void *p, std::size_t sz) {
        tstorage *me = nullptr;
        tstorage *a = g_ctx->ts_a, *b = g_ctx->ts_b;
        tstorage *own = (p == (void *)a->buf) ? a : (p == (void *)b->buf) ? b : nullptr;
        if (own && sz + sizeof(tstorage *) <= sizeof(own->buf)) std::memcpy(&me, (char *)p + sz, sizeof(me));
        if (!own || me != own || sz != own->last_sz || !own->in_use) {
            g_ctx->mismatch++;
            if (own) me = own; else return;
        }
        me->deallocs++;
        me->in_use = false;
        if (me == b) g_ctx->sdeallocs++;
        g_ctx->ev(35, g_ctx->step());
        VH_POISON(me->buf, sizeof(me->buf));
    }
};

template <typename F>
static void read_future(F &f, long &kind, long &datum) {
    kind = 7;
    datum = 0;
    try {
        using VT = typename F::value_type;
        if constexpr (std::is_void_v<VT>) {
            f.value();
            datum = 0;
        } else if constexpr (std::is_same_v<std::decay_t<VT>, counted>) datum = f.value().v;
        else datum = f.value();
        kind = 1;
    } catch (const test_exc &e) {
        kind = 2;
        datum = e.code;
    } catch (const await_canceled_exception &) {
        kind = f.has_value().await_resume() ? 3 : 0;   // stored exception object vs. broken promise
    } catch (const value_not_ready_exception &) {
        kind = 7;
    }
}

struct FnBase {
    Ctx *c;
    FnBase(Ctx *x) : c(x) { c->live_f++; }
    FnBase(const FnBase &o) : c(o.c) { c->live_f++; }
    FnBase(FnBase &&o) : c(o.c) { c->live_f++; }
    ~FnBase() {
        c->live_f--;
        if (c->invoked == this) {   // the instance that received the callback dies: the helper object is being destroyed
            c->invoked = nullptr;
            c->ev(34, c->step(), c->news(), c->dels(), c->sallocs, c->sdeallocs);
        }
    }
};

// callback for callback_await; R = counted or void
template <typename R>
struct AwFn : FnBase {
    using FnBase::FnBase;
    void operator()(await_result<R> r) {
        long kind = 7, datum = 0;
        if (r) {
            kind = 1;
            if constexpr (!std::is_void_v<R>) datum = (*r).v;
        } else {
            try {
                r.get();
            } catch (const test_exc &e) {
                kind = 2;
                datum = e.code;
            } catch (const await_canceled_exception &) {
                kind = 0;
            } catch (const value_not_ready_exception &) {
                kind = 7;
            }
        }
        c->invoked = this;
        c->cb_enter(kind, datum);
        c->cb_exit();
        if (c->cbthrow) throw test_exc{-1};   // a callback that fails after doing its work
    }
};

// callback for make_promise; T = counted, void or counted&
template <typename T>
struct MpFn : FnBase {
    using FnBase::FnBase;
    void operator()(future<T> &f) {
        long kind, datum;
        read_future(f, kind, datum);
        c->invoked = this;
        c->cb_enter(kind, datum);
        c->cb_exit();
    }
};

template <typename H>
struct CfObj {
    Ctx *c;
    std::function<void()> rearm;   // set when the handler is to start the next operation on the same awaiter
    bool rearmed = false;
    suspend_point<void> done(future<H> &f) noexcept {
        long kind, datum;
        read_future(f, kind, datum);
        c->cb_enter(kind, datum);
        c->cb_exit();
        if (rearm && !rearmed) {
            rearmed = true;
            rearm();
        }
        return {};
    }
};

struct ConvCtx {
    Ctx *c;
    long ck, cd;
    std::optional<promise<long>> held;   // behaviour 4: the converter forwards the promise to whoever resolves it later
    long held_value = 0;
    long work(long src) {
        if (ck == 1) {
            c->ev(32, c->step(), src, 2, cd);
            throw test_exc{cd};
        }
        c->ev(32, c->step(), src, 1, src + cd);
        return src + cd;
    }
    // the promise-passing form decides itself what happens to the promise
    suspend_point<void> workp(long src, promise<long> &p) {
        switch (ck) {
            case 2:
                c->ev(32, c->step(), src, 2, cd);
                return p(std::make_exception_ptr(test_exc{cd}));
            case 3:
                c->ev(32, c->step(), src, 0, 0);   // declines: the promise is left alone
                return {};
            case 4:
                c->ev(32, c->step(), src, 1, src + cd);
                held_value = src + cd;
                held.emplace(std::move(p));
                return {};
            default:
                return p(work(src));
        }
    }
    long slot = 0;   // the object a reference-returning converter refers to
    long &convr(counted &src) {
        slot = work(src.v);
        return slot;
    }
    long conv(counted &src) { return work(src.v); }
    long conv0() { return work(0); }
    suspend_point<void> convp(counted &src, promise<long> &p) { return workp(src.v, p); }
    suspend_point<void> convp0(promise<long> &p) { return workp(0, p); }
};
static ConvCtx *g_conv = nullptr;
static long conv_free(counted &src) { return g_conv->work(src.v); }
static long conv_free_ctx(counted &src, ConvCtx *x) { return x->work(src.v); }

template <typename FT>
struct HoldT {
    promise<FT> p;
    HoldT(promise<FT> &&q) : p(std::move(q)) {}
    template <typename F>
    HoldT(F &&f, int) : p(f()) {}
};
// factory functor WITH captured state, handed to callback_await as a temporary: it dies at the end of the caller's
// statement and says so if it is used afterwards
template <typename L, typename F>
struct MkFn {
    L *l;
    long alive;
    explicit MkFn(L *x) : l(x), alive(0x600D) {}
    MkFn(const MkFn &o) : l(o.l), alive(o.alive) {}
    MkFn(MkFn &&o) : l(o.l), alive(o.alive) {}
    ~MkFn() {
        *(volatile long *)&alive = 0;
        *(L *volatile *)&l = nullptr;
    }
    F operator()() {
        if (*(volatile long *)&alive != 0x600D) {
            g_ctx->ev(37, g_ctx->step());   // the factory is used after its destruction
            return F::set_not_value();
        }
        return (*l)();
    }
};
// outer future of a reference-returning converter
struct OuterHoldR {
    future<long &> f;
    template <typename F>
    OuterHoldR(F &&mk) : f(mk()) {}
};
struct OuterHold {
    future<long> f;
    template <typename F>
    OuterHold(F &&mk) : f(mk()) {}
};

struct Cfg {
    long ad = -1, mode = -1, stor = -1, k = -1, d = 0, ck = 0, cd = 0, spec = 0, cbthrow = 0, k2 = -1, d2 = 0, k3 = -1, d3 = 0;
    bool isvoid = false;
    std::vector<long> sched;
    bool valid() const {
        if (ad < 0 || ad > 4 || mode < 0 || mode > 3 || stor < 0 || stor > 4) return false;
        if (stor != 0 && ad > 1) return false;
        if (k < 0 || k > 2 || ck < 0 || ck > 4 || cbthrow < 0 || cbthrow > 1) return false;
        if (ck >= 2 && spec != 3) return false;
        if (ck == 4 && k2 >= 0) return false;
        if (spec < 0 || spec > 4 || (isvoid && (spec == 1 || spec == 2 || spec == 4))) return false;
        if (ad == 1 && mode < 2) return false;
        if (k2 < -1 || k2 > 2 || (k2 >= 0 && mode != 2)) return false;
        if (k3 < -1 || k3 > 2 || (k3 >= 0 && (ad != 4 || k2 >= 0))) return false;
        return true;
    }
};

static Cfg parse(const vh::Case &cs, bool isvoid) {
    Cfg g;
    g.isvoid = isvoid;
    bool h1 = false, h2 = false, h3 = false, h4 = false, h5 = false, h6 = false;
    for (auto &op : cs.ops) {
        if (op.empty()) continue;
        if (op[0] == 1 && !h1) {
            h1 = true;
            if (op.size() == 4) { g.ad = op[1]; g.mode = op[2]; g.stor = op[3]; }
        } else if (op[0] == 2 && !h2) {
            h2 = true;
            if (op.size() == 3) { g.k = op[1]; g.d = op[2]; }
        } else if (op[0] == 3 && !h3) {
            h3 = true;
            if (op.size() == 3) { g.ck = (op[1] == 0 || op[1] == 1) ? op[1] : -1; g.cd = op[2]; }
            else if (op.size() == 4) { g.ck = op[1]; g.cd = op[2]; g.spec = op[3]; }
            else g.ck = -1;
        } else if (op[0] == 4 && !h4) {
            h4 = true;
            if (op.size() == 2) g.cbthrow = op[1]; else g.cbthrow = -1;
        } else if (op[0] == 5 && !h5) {
            h5 = true;
            if (op.size() == 3 && op[1] >= 0 && op[1] <= 2) { g.k2 = op[1]; g.d2 = op[2]; } else g.k2 = -2;
        } else if (op[0] == 6 && !h6) {
            h6 = true;
            if (op.size() == 3 && op[1] >= 0 && op[1] <= 2) { g.k3 = op[1]; g.d3 = op[2]; } else g.k3 = -2;
        } else if (op[0] == 9) {
            g.sched.insert(g.sched.end(), op.begin() + 1, op.end());
        }
    }
    if (isvoid) {   // a void value carries no datum
        if (g.k == 0) g.d = 0;
        if (g.k2 == 0) g.d2 = 0;
        if (g.k3 == 0) g.d3 = 0;
    }
    return g;
}

// Only the hook points this model treats as steps yield to the controller and are logged: promise / future / awaiter
// (claim, dtor, resolve, walk, ready, sub, sub_retry).  Every other point on the way (storages, queues, whatever other
// components add later) is ignored: no yield, no trace line.
static void filtered_point(const char *id) {
    int c = ctl::point_code(id);
    if (c >= 1 && c <= 7) ctl::Controller::hook_point(id);
}
static void warmup() {
    cocls::verif::get_hooks().point = &filtered_point;
    bool saved = vh::t_count;
    vh::t_count = false;
    coro_queue::install_queue_and_call([] {});   // libstdc++ deque of the thread-local ready queue allocates on first touch
    vh::t_count = saved;
}

// value-type variants: FT = value type of the future the factory returns, HT = value type of the future the adapter holds
struct TrCnt { using FT = counted; using HT = counted; using RT = counted; static constexpr bool isvoid = false, isref = false; };
struct TrVoid { using FT = void; using HT = void; using RT = void; static constexpr bool isvoid = true, isref = false; };
struct TrRef { using FT = counted &; using HT = counted; using RT = counted; static constexpr bool isvoid = false, isref = true; };

template <typename Tr>
static bool run_case(const vh::Case &cs, bool seq, bool coro) {
    using FT = typename Tr::FT;
    using HT = typename Tr::HT;
    using RT = typename Tr::RT;
    using Hold = HoldT<FT>;
    vh::t_count = false;
    Cfg g = parse(cs, Tr::isvoid);
    if (!g.valid()) {
        vh::print_obs({-1});
        vh::t_count = true;
        return false;
    }
    long live0 = counted::live.load();
    Ctx ctx;
    g_ctx = &ctx;
    ctx.cbthrow = g.cbthrow == 1 && g.ad == 0;
    ctx.news0 = vh::g_news.load();
    ctx.dels0 = vh::g_deletes.load();
    cstorage::in_use = false;
    long outer_ready = 0, outer_kind = 0, outer_datum = 0;
    long ret1 = -1, ret2 = -1, busy_end = 0;
    long ta = 0, tad = 0, tb = 0, tbd = 0;
    {
        counted cell1(g.d), cell2(g.d2), cell3(g.d3);   // referents for the reference variant
        std::optional<Hold> hold, hold2;
        cstorage stor1;
        std::optional<reusable_storage> stor2;
        std::optional<tstorage> stor3a, stor3b;
        std::optional<reusable_storage_mtsafe> stor4;
        if (g.stor == 2) stor2.emplace();
        if (g.stor == 3) { stor3a.emplace(); stor3b.emplace(); ctx.ts_a = &*stor3a; ctx.ts_b = &*stor3b; }
        if (g.stor == 4) stor4.emplace();
        ConvCtx cctx{&ctx, g.ck, g.cd, {}, 0};
        g_conv = &cctx;
        CfObj<HT> cfobj{&ctx, {}, false};
        using Fc0 = std::conditional_t<Tr::isvoid, future_conv<&ConvCtx::conv0>, future_conv<&ConvCtx::conv>>;
        using Fc3 = std::conditional_t<Tr::isvoid, future_conv<&ConvCtx::convp0>, future_conv<&ConvCtx::convp>>;
        std::optional<Fc0> fc0;
        std::optional<future_conv<&conv_free>> fc1;
        std::optional<future_conv<&conv_free_ctx>> fc2;
        std::optional<Fc3> fc3;
        std::optional<future_conv<&ConvCtx::convr>> fc4;   // To = long&
        alignas(OuterHoldR) static char obufr[sizeof(OuterHoldR)];
        OuterHoldR *outerr = nullptr;
        std::optional<co_awaiter<future<long &>>> outer_awr;
        // the outer future lives in zeroed raw storage so that its readiness can be observed while it is still being constructed
        alignas(OuterHold) static char obuf[sizeof(OuterHold)];
        std::memset(obuf, 0, sizeof(obuf));
        OuterHold *outer = nullptr;
        auto outer_ready_now = [&] { return reinterpret_cast<OuterHold *>(obuf)->f._awaiter.load() == &awaiter::disabled; };
        std::optional<co_awaiter<future<long>>> outer_aw;
        std::optional<call_fn_future_awaiter<&CfObj<HT>::done>> cfa;

        auto set_on = [&](promise<FT> &p, long k, long d, counted &cell) -> long {
            if (k == 0) {
                if constexpr (Tr::isvoid) return (bool)p();
                else if constexpr (Tr::isref) return (bool)p(cell);
                else return (bool)p(d);
            }
            if (k == 1) return (bool)p(std::make_exception_ptr(test_exc{d}));
            return (bool)p(drop);
        };
        auto mk = [&]() -> future<FT> {
            switch (g.mode) {
                case 0:
                    if (g.k == 0) {
                        if constexpr (Tr::isvoid) return future<FT>::set_value();
                        else if constexpr (Tr::isref) return future<FT>::set_value(cell1);
                        else return future<FT>::set_value(g.d);
                    }
                    if (g.k == 1) return future<FT>::set_exception(std::make_exception_ptr(test_exc{g.d}));
                    return future<FT>::set_not_value();
                case 1:
                    return future<FT>([&](promise<FT> p) {
                        if (g.k != 2) set_on(p, g.k, g.d, cell1);
                        // k == 2: the promise is dropped when p goes out of scope
                    });
                default:
                    return future<FT>([&](promise<FT> p) { hold.emplace(std::move(p)); });
            }
        };
        auto mk2 = [&]() -> future<FT> { return future<FT>([&](promise<FT> p) { hold2.emplace(std::move(p)); }); };
        if (g.k3 >= 0) cfobj.rearm = [&] { *cfa << mk2; };
        auto resolve = [&] {
            if (g.k == 2 && g.k2 < 0) hold.reset();          // lone drop: ~promise
            else ret1 = set_on(hold->p, g.k, g.d, cell1);    // with a competitor the drop is p(drop): the object must stay alive
        };
        struct OuterCb {
            static suspend_point<void> fn(awaiter *, void *u) noexcept {
                auto *o = static_cast<std::pair<Ctx *, future<long> *> *>(u);
                long kind, datum;
                read_future(*o->second, kind, datum);
                o->first->ev(33, o->first->step(), kind, datum);
                return {};
            }
        };
        // the outer future<long&> must refer to the very object the converter returned
        struct RefArg { Ctx *c; future<long &> *f; long *expect; };
        auto read_ref = [](future<long &> &f, long *expect, long &kind, long &datum) {
            kind = 7; datum = 0;
            try {
                long &r = f.value();
                if (&r == expect) { kind = 1; datum = r; } else kind = 9;   // refers to some other object
            } catch (const test_exc &e) { kind = 2; datum = e.code; }
            catch (const await_canceled_exception &) { kind = f.has_value().await_resume() ? 3 : 0; }
            catch (const value_not_ready_exception &) { kind = 7; }
        };
        struct OuterCbR {
            static suspend_point<void> fn(awaiter *, void *u) noexcept {
                auto *o = static_cast<RefArg *>(u);
                long kind = 7, datum = 0;
                try {
                    long &r = o->f->value();
                    if (&r == o->expect) { kind = 1; datum = r; } else kind = 9;
                } catch (const test_exc &e) { kind = 2; datum = e.code; }
                catch (const await_canceled_exception &) { kind = o->f->has_value().await_resume() ? 3 : 0; }
                catch (const value_not_ready_exception &) { kind = 7; }
                o->c->ev(33, o->c->step(), kind, datum);
                return {};
            }
        };
        RefArg ocbr_arg{&ctx, nullptr, &cctx.slot};
        auto reg_convr = [&](auto &fc) {
            outerr = new (obufr) OuterHoldR([&] { return fc << mk; });
            ocbr_arg.f = &outerr->f;
            outer_awr.emplace(outerr->f);
            if (outer_awr->await_ready() || !outer_awr->await_suspend(&OuterCbR::fn, &ocbr_arg)) OuterCbR::fn(nullptr, &ocbr_arg);
        };
        std::pair<Ctx *, future<long> *> ocb_arg{&ctx, nullptr};
        auto reg_conv = [&](auto &fc) {
            outer = new (obuf) OuterHold([&] { return fc << mk; });
            ocb_arg.second = &outer->f;
            outer_aw.emplace(outer->f);
            if (outer_aw->await_ready() || !outer_aw->await_suspend(&OuterCb::fn, &ocb_arg)) OuterCb::fn(nullptr, &ocb_arg);
        };
        auto with_storage = [&](auto &&f) {
            switch (g.stor) {
                case 1: f(stor1); break;
                case 2: f(*stor2); break;
                case 3: f(*stor3b); break;
                case 4: f(*stor4); break;
            }
        };
        auto in_mode = [&](auto &&f) {
            if (coro) coro_queue::install_queue_and_call(f);   // as if called from a running coroutine
            else f();
        };

        auto reg = [&] {
            switch (g.ad) {
                case 0:
                    if (g.stor == 0) callback_await<future<FT>>(AwFn<RT>(&ctx), MkFn<decltype(mk), future<FT>>(&mk));
                    else with_storage([&](auto &st) {
                        callback_await_alloc<std::remove_reference_t<decltype(st)>, future<FT>>(st, AwFn<RT>(&ctx), MkFn<decltype(mk), future<FT>>(&mk));
                    });
                    break;
                case 1:
                    if (g.stor == 0) hold.emplace([&] { return make_promise<FT>(MpFn<FT>(&ctx)); }, 0);
                    else with_storage([&](auto &st) { hold.emplace([&] { return make_promise<FT>(MpFn<FT>(&ctx), st); }, 0); });
                    break;
                case 2:
                    discard(mk);
                    break;
                case 3:
                    if (g.spec == 0) { fc0.emplace(&cctx); reg_conv(*fc0); }
                    else if (g.spec == 3) { fc3.emplace(&cctx); reg_conv(*fc3); }
                    else if (g.spec == 4) { if constexpr (!Tr::isvoid) { fc4.emplace(&cctx); reg_convr(*fc4); } }
                    else if constexpr (!Tr::isvoid) {
                        if (g.spec == 1) { fc1.emplace(); reg_conv(*fc1); }
                        else { fc2.emplace(&cctx); reg_conv(*fc2); }
                    }
                    break;
                case 4:
                    cfa.emplace(cfobj);
                    *cfa << mk;
                    break;
            }
        };
        auto t0 = [&] {
            warmup();
            in_mode(reg);
            if (g.mode == 3) in_mode(resolve);
            ctx.thread_end();
        };
        auto t1 = [&] {
            warmup();
            ctl::block_until("xwait", [&] { return hold.has_value(); });
            in_mode(resolve);
            ctx.thread_end();
        };
        auto t2 = [&] {
            warmup();
            ctl::block_until("xwait", [&] { return hold.has_value(); });
            in_mode([&] { ret2 = set_on(hold->p, g.k2, g.d2, cell2); });
            ctx.thread_end();
        };
        auto t2re = [&] {   // resolves the operation the handler started
            warmup();
            ctl::block_until("xwait", [&] { return hold2.has_value(); });
            in_mode([&] {
                if (g.k3 == 2) hold2.reset();
                else set_on(hold2->p, g.k3, g.d3, cell3);
            });
            ctx.thread_end();
        };
        bool repark = g.ad == 3 && g.ck == 4;
        auto t2late = [&] {   // resolves the promise the converter forwarded (if it did)
            warmup();
            ctl::block_until("xwait", [&] { return cctx.held.has_value() || outer_ready_now(); });
            in_mode([&] { if (cctx.held) (*cctx.held)(cctx.held_value); });
            ctx.thread_end();
        };

        if (seq) {
            // one fresh thread per case: its thread-local ready queue starts empty (libstdc++'s deque allocates a new node
            // every 64 push_backs, which would otherwise show up in some later case's counters)
            std::thread th([&] {
                vh::t_count = true;
                t0();
                if (g.mode == 2) t1();
                if (g.k2 >= 0) t2();
                if (repark) t2late();
                if (g.k3 >= 0) t2re();
                vh::t_count = false;
            });
            th.join();
        } else {
            std::vector<std::function<void()>> fns;
            fns.push_back(t0);
            if (g.mode == 2) fns.push_back(t1);
            else if (repark || g.k3 >= 0) fns.push_back([] { cocls::verif::get_hooks().point = &filtered_point; });   // keeps the late resolver at thread id 2
            if (g.k2 >= 0) fns.push_back(t2);
            if (repark) fns.push_back(t2late);
            if (g.k3 >= 0) fns.push_back(t2re);
            ctl::Controller c;
            c.run(std::move(fns), g.sched);
            vh::t_count = false;
            c.print_trace();
            if (c.deadlock) {
                for (auto &e : ctx.events) vh::print_obs(e);
                ctl::finish_case_or_restart(c);
            }
        }
        for (auto &e : ctx.events) vh::print_obs(e);
        ctx.events.clear();
        if (outerr) {
            outer_ready = outerr->f.ready();
            if (outer_ready) read_ref(outerr->f, &cctx.slot, outer_kind, outer_datum);
        }
        if (outer) {
            outer_ready = outer->f.ready();
            if (outer_ready) read_future(outer->f, outer_kind, outer_datum);
        }
        if (stor4) busy_end = stor4->_busy.load();
        long n1 = vh::g_news.load(), d1 = vh::g_deletes.load();
        vh::t_count = true;   // anything the adapters and the storages still own dies here, counted
        outer_aw.reset();
        outer_awr.reset();
        if (outerr) outerr->~OuterHoldR();
        if (outer) outer->~OuterHold();
        cctx.held.reset();
        fc0.reset();
        fc1.reset();
        fc2.reset();
        fc3.reset();
        fc4.reset();
        cfa.reset();
        hold.reset();
        hold2.reset();
        cfobj.rearm = nullptr;
        stor2.reset();
        stor4.reset();
        vh::t_count = false;
        ctx.end_news += vh::g_news.load() - n1;
        ctx.end_dels += vh::g_deletes.load() - d1;
        if (stor3a) { ta = stor3a->allocs; tad = stor3a->deallocs; tb = stor3b->allocs; tbd = stor3b->deallocs; }
        g_conv = nullptr;
    }
    for (auto &e : ctx.events) vh::print_obs(e);
    vh::print_obs({40, ctx.end_news, ctx.end_dels, ctx.sallocs, ctx.sdeallocs, ctx.live_f, counted::live.load() - live0});
    vh::print_obs({43, ta, tad, tb, tbd, ctx.mismatch, busy_end});
    vh::print_obs({42, outer_ready, outer_kind, outer_datum});
    vh::print_obs({44, ret1, ret2});
    vh::print_obs({50, ctx.runs, 0});
    g_ctx = nullptr;
    vh::t_count = true;
    return true;
}

int main(int argc, char **argv) {
    if (argc < 2) return 2;
    auto cases = vh::read_cases(argv[1]);
    warmup();   // the main thread's ready queue (sequential engines) is created before anything is measured
    for (auto &cs : cases) {
        std::printf("CASE %s\n", cs.name.c_str());
        std::fflush(stdout);
        std::string e = cs.engine;
        bool seq = e.rfind("adseq", 0) == 0, ctlm = e.rfind("adapt", 0) == 0;
        if (seq || ctlm) {
            std::string sfx = e.substr(5);
            bool coro = !sfx.empty() && sfx[0] == 'c';
            if (coro) sfx = sfx.substr(1);
            long a0 = g_all_news.load() - g_all_dels.load();
            bool ran = false;
            if (sfx == "") ran = run_case<TrCnt>(cs, seq, coro);
            else if (sfx == "v") ran = run_case<TrVoid>(cs, seq, coro);
            else if (sfx == "r") ran = run_case<TrRef>(cs, seq, coro);
            // blocks this case allocated and did not give back (anywhere, on any thread)
            if (ran) vh::print_obs({41, (g_all_news.load() - g_all_dels.load()) - a0});
        }
        std::printf("END\n");
        std::fflush(stdout);
    }
    return 0;
}
