#!/bin/bash
# runall.sh [tier]: runs every registered check once (sequentially) and prints one summary line each; exit 1 if any alarms
cd "$(dirname "$0")/.."; T=${1:-quick}; rc=0
for p in $(python3 -c "import json;print(' '.join(c['property_id'] for c in json.load(open('MANIFEST.json'))['checks']))"); do
  out=$(timeout 3600 ./check $p --tier $T 2>&1); r=$?
  echo "$out" | grep -E "^(VIOLATION|check)" | cut -c1-170
  [ $r -ne 0 ] && rc=1
done
exit $rc
