#!/usr/bin/env python3
"""seeded.py — run registered checks against the seeded breaking changes under /verif/seeded/<id>/.

usage: tools/seeded.py [<seed-id> ...] [--tier quick|thorough] [--props C01,C02] [--all-props]

For every seeded change: make a scratch copy of /repo's working tree (never touches /repo), apply patch.diff, run the
check(s) of the property the change breaks (meta.json "property", plus "also" if present) with COCLS_REPO pointing at
the copy, and report whether a VIOLATION line was printed.  Scratch copies live under /var/tmp and are removed.
Writes /verif/seeded/RESULTS.json (a summary table; not evidence)."""
import argparse, json, os, shutil, subprocess, sys, tempfile, time

V = os.path.dirname(os.path.dirname(os.path.abspath(__file__)))
SEEDED = os.path.join(V, "seeded")


def header_props():
    """header file name -> properties whose anchors name it (from properties.jsonl)"""
    m = {}
    for l in open(os.path.join(V, "properties.jsonl")):
        d = json.loads(l)
        for f in d.get("anchors", {}).get("files", []):
            m.setdefault(os.path.basename(f), []).append(d["id"])
    return m


HEADER_PROPS = header_props()


def main():
    ap = argparse.ArgumentParser()
    ap.add_argument("ids", nargs="*")
    ap.add_argument("--tier", default="quick")
    ap.add_argument("--props")
    ap.add_argument("--all-props", action="store_true")
    a = ap.parse_args()
    ids = a.ids or sorted(d for d in os.listdir(SEEDED) if os.path.isfile(os.path.join(SEEDED, d, "patch.diff")))
    man = json.load(open(os.path.join(V, "MANIFEST.json")))
    claimed = [c["property_id"] for c in man["checks"]]
    results = {}
    rp = os.path.join(SEEDED, "RESULTS.json")
    if os.path.exists(rp):
        results = json.load(open(rp))
    for sid in ids:
        d = os.path.join(SEEDED, sid)
        meta = json.load(open(os.path.join(d, "meta.json")))
        harmless = meta.get("kind") == "harmless"
        if a.props:
            props = a.props.split(",")
        elif a.all_props:
            props = claimed
        elif harmless:
            # behaviour-preserving change: every check whose anchors touch one of the changed headers must stay silent
            props = sorted({p for h in meta.get("headers", []) for p in HEADER_PROPS.get(os.path.basename(h), [])}) or claimed
        else:
            props = [meta["property"]] + meta.get("also", [])
        tmp = tempfile.mkdtemp(prefix="cocls-seeded.", dir="/var/tmp")
        try:
            repo = os.path.join(tmp, "repo")
            # a real git worktree of /repo's HEAD, so that a patch made before later hook commits can be applied 3-way
            subprocess.run(["git", "-C", "/repo", "worktree", "add", "-q", "--detach", repo, "HEAD"], check=True)
            pf = os.path.join(d, "patch.diff")
            p = subprocess.run(["git", "-C", repo, "apply", pf], stdout=subprocess.PIPE, stderr=subprocess.STDOUT)
            if p.returncode:
                p = subprocess.run(["git", "-C", repo, "apply", "-3", pf], stdout=subprocess.PIPE, stderr=subprocess.STDOUT)
                conflict = subprocess.run(["git", "-C", repo, "diff", "--name-only", "--diff-filter=U"], stdout=subprocess.PIPE).stdout.strip()
                if p.returncode or conflict:
                    print("%s: patch does not apply to /repo HEAD (even 3-way): %s" % (sid, p.stdout.decode()[-300:]))
                    results[sid] = {"error": "patch does not apply"}
                    continue
                # refresh patch.diff so that `git -C /repo apply` works on the current tree (same change, new context)
                subprocess.run(["git", "-C", repo, "reset", "-q"], check=True)
                nd = subprocess.run(["git", "-C", repo, "diff"], stdout=subprocess.PIPE).stdout
                shutil.copy(pf, os.path.join(d, "patch.orig.diff")) if not os.path.exists(os.path.join(d, "patch.orig.diff")) else None
                open(pf, "wb").write(nd)
                print("%s: patch.diff refreshed against current /repo HEAD (3-way)" % sid)
            for pid in props:
                if pid not in claimed:
                    print("%s: property %s not claimed" % (sid, pid)); continue
                env = dict(os.environ, COCLS_REPO=repo)
                t0 = time.time()
                q = subprocess.run([os.path.join(V, "check"), pid, "--tier", a.tier], cwd=V, env=env,
                                   stdout=subprocess.PIPE, stderr=subprocess.STDOUT)
                out = q.stdout.decode(errors="replace")
                vio = [l for l in out.splitlines() if l.startswith("VIOLATION")]
                concrete = [l for l in vio if "no-failing-input-found" not in l]
                verdict = "caught-concrete" if concrete else ("caught-obligation" if vio else "MISSED")
                if harmless:
                    verdict = "FALSE-ALARM-concrete" if concrete else ("alarm-obligation-only" if vio else "silent-ok")
                print("%-28s %s %-7s %-18s rc=%d %.0fs  %s" % (sid, pid, a.tier, verdict, q.returncode, time.time() - t0,
                                                              (vio[0][:150] if vio else "")))
                results.setdefault(sid, {})["%s:%s" % (pid, a.tier)] = {"verdict": verdict, "rc": q.returncode,
                                                                       "line": vio[0] if vio else ""}
                # keep the replay next to the seeded change for reference
                for l in concrete[:1]:
                    path = l.split("replay=")[1].split()[0]
                    if os.path.exists(path):
                        shutil.copy(path, os.path.join(d, "replay_%s.json" % pid))
        finally:
            subprocess.run(["git", "-C", "/repo", "worktree", "remove", "--force", os.path.join(tmp, "repo")],
                           stdout=subprocess.DEVNULL, stderr=subprocess.DEVNULL)
            shutil.rmtree(tmp, ignore_errors=True)
    # several instances may run in parallel (on different properties): merge under a lock instead of overwriting
    import fcntl
    with open(rp + ".lock", "w") as lk:
        fcntl.flock(lk, fcntl.LOCK_EX)
        cur = json.load(open(rp)) if os.path.exists(rp) else {}
        for sid in ids:
            if sid in results:
                if isinstance(results[sid], dict) and isinstance(cur.get(sid), dict) and "error" not in results[sid]:
                    cur[sid] = {k: v for k, v in cur[sid].items() if k != "error"}
                    cur[sid].update(results[sid])
                else:
                    cur[sid] = results[sid]
        json.dump(cur, open(rp, "w"), indent=1, sort_keys=True)
    # the evidence files were rewritten by runs against a mutated copy: restore them from git so that committed evidence
    # always comes from /repo itself
    touched = sorted({k.split(":")[0] for sid in ids for k in (results.get(sid) or {}) if ":" in k})
    subprocess.run(["git", "-C", V, "checkout", "--"] + ["evidence/%s.json" % p for p in touched],
                   stdout=subprocess.DEVNULL, stderr=subprocess.DEVNULL)


if __name__ == "__main__":
    main()
