#!/bin/bash
# finalize.sh — regenerate the derived documents from the current state and validate the interface files
cd "$(dirname "$0")/.."
python3 tools/mkmanifest.py | tail -2
python3 tools/asbuilt.py
python3 tools/seeded_table.py
python3-vt - <<'P'
import json, jsonschema, glob
jsonschema.validate(json.load(open('MANIFEST.json')), json.load(open('/root/.vp/MANIFEST.schema.json')))
n = 0
for f in glob.glob('evidence/*.json'):
    jsonschema.validate(json.load(open(f)), json.load(open('/root/.vp/EVIDENCE.schema.json'))); n += 1
for l in open('properties.jsonl'):
    jsonschema.validate(json.loads(l), json.load(open('/root/.vp/PROPERTIES.schema.json')))
print("manifest + %d evidence files + properties validate" % n)
P
grep -rn "Admitted\|admit\.\|^Axiom\|^Parameter\|^Conjecture\|Unset Guard\|bypass_check" coq/*.v | grep -v "(\*" | head -3
tail -3 VALIDATION.md
