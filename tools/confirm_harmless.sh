#!/bin/bash
# confirm_harmless.sh <worktree> <dir> <id>: a behaviour-preserving patch: applies, library+tests build, 15 tests pass -> import as seeded/<id>
W=$1; S=$2; ID=$3; V=$(cd "$(dirname "$0")/.." && pwd)
cd "$W" || exit 2; git checkout -q -- src
git apply --check "$S/patch.diff" || { echo "APPLY FAIL"; exit 1; }; git apply "$S/patch.diff"
rm -rf _build; ( cmake -G Ninja -B _build -S . >/dev/null 2>&1 && cmake --build _build >/dev/null 2>&1 ) || { echo "BUILD FAIL"; git checkout -q -- src; exit 1; }
T=$(ctest --test-dir _build -j4 --timeout 900 2>&1 | grep -E "tests passed|tests failed" | tail -1)
for try in 1 2 3; do case "$T" in "100% tests passed"*) break;; esac; T=$(ctest --test-dir _build -j2 --timeout 900 2>&1 | grep -E "tests passed|tests failed" | tail -1); done
git checkout -q -- src; rm -rf _build
case "$T" in "100% tests passed"*) mkdir -p "$V/seeded/$ID"; cp "$S/patch.diff" "$S/meta.json" "$V/seeded/$ID/"; echo "CONFIRMED harmless -> seeded/$ID ($T)";; *) echo "TESTS: $T"; exit 1;; esac
