"""C14 — generator aggregator: union of all sources, per-source order preserved (generator_aggregator.h)."""
import os, random
import vlib
from vlib import Case

RULE = ("0..9 scripted source generators (synchronous / suspending on pending awaits / throwing / empty / with RAII locals; for "
        "aggr1 also reading their argument) aggregated by generator_aggregator and read through randomly mixed access styles; the "
        "pending awaits of the sources are completed in a generated order (= completion schedule) by the consumer's thread or a fresh "
        "thread, also while the aggregate is parked; early destruction of the aggregate while parked with in-flight sources (the "
        "destructor then blocks on the worker thread until the generated completions arrive), never started, or finished; repeated "
        "reads after the end; a small malformed stream. Source s yields values s*1000+j so that the oracle can attribute every "
        "value. A case is non-trivial when >= 2 sources deliver values, or a source suspends, or a source throws; distinct = "
        "distinct (engine, op list)")
SCOPE = ("generator_aggregator<T,Arg>: GenCallback (charge / push on resume), generator_aggregator_controller (count, fin, "
         "destructor draining the completion queue), start-up charging of all sources, main loop (pop, done -> fin, value -> yield -> "
         "re-charge, exception -> remember + fin), final rethrow; over queue<..., single_item_queue> and generator<T,Arg>")
ASSUMPTIONS = ["the consumer-side access protocol of the aggregate is C13's subject; here an access is abstracted to 'one access with "
               "argument a' in the model and the harness picks the style at random",
               "value attribution by the oracle needs scripts without YieldEcho (such cases are still compared with the model)",
               "needs hooks/gen.patch (gen_block) like C13"]


def script_for(rng, s, ha, kind, nvals):
    """kind: sync / pend / throw / empty / mixed"""
    sc = []
    j = 0
    gid = 100 + s * 10
    if ha and rng.random() < 0.4:
        sc += [8, 0]
    for _ in range(nvals):
        r = rng.random()
        if kind in ("pend", "mixed") and r < 0.35:
            sc += [3, 1]
        if r > 0.8:
            gid += 1
            sc += [6, gid]
        if kind == "mixed" and r < 0.1:
            sc += [2, 4]
        sc += [1, s * 1000 + j]
        j += 1
        if ha and rng.random() < 0.2:
            sc += [8, 0]
    if kind in ("pend", "mixed") and rng.random() < 0.4:
        sc += [3, 1]
    if kind == "throw" or (kind == "mixed" and rng.random() < 0.2):
        sc += [4, s + 1]
    elif rng.random() < 0.2:
        sc += [5, 0]
    return sc


class SrcSim:
    def __init__(self, sc):
        self.ins = [(sc[i], sc[i + 1]) for i in range(0, len(sc) - 1, 2)]
        self.i = 0
        self.st = "init"      # init / yield / pend / final
        self.exc = False

    def run(self):
        """returns True when the callback fires (value or end), False when the source suspends"""
        while self.i < len(self.ins):
            k, a = self.ins[self.i]
            self.i += 1
            if k in (1, 9):
                self.st = "yield"; return True
            if k == 3:
                self.st = "pend"; return False
            if k == 4:
                self.st = "final"; self.exc = True; return True
            if k == 5:
                self.st = "final"; return True
        self.st = "final"
        return True


class AggSim:
    def __init__(self, scripts):
        self.s = [SrcSim(sc) for sc in scripts]
        self.q = []
        self.cnt = len(scripts)
        self.st = "init"    # init / yield / wait / final / dying / dead
        self.cur = None

    def loop(self):
        while self.cnt > 0:
            if not self.q:
                self.st = "wait"; return "pend"
            i = self.q.pop(0)
            if self.s[i].st == "final":
                self.cnt -= 1
                continue
            self.st = "yield"; self.cur = i
            return "val"
        self.st = "final"
        return "end"

    def access(self):
        if self.st == "init":
            for i, s in enumerate(self.s):
                if s.run(): self.q.append(i)
            return self.loop()
        if self.st == "yield":
            if self.s[self.cur].run(): self.q.append(self.cur)
            return self.loop()
        return "end"

    def pending(self):
        return [i for i, s in enumerate(self.s) if s.st == "pend"]

    def complete(self, i):
        fired = self.s[i].run()
        if fired: self.q.append(i)
        if self.st == "wait" and fired:
            return self.loop()
        if self.st == "dying":
            return self.drain()
        return "pend" if self.st == "wait" else "none"

    def drain(self):
        while self.cnt > 1:
            if not self.q:
                self.st = "dying"; return "pend"
            self.q.pop(0); self.cnt -= 1
        self.st = "dead"
        return "dead"

    def destroy(self):
        if self.st == "init":
            self.st = "dead"; return "dead"
        return self.drain()


def close_case(c):
    """used while shrinking: replay the ops on the position-only simulation and append the completions that an
    outstanding access / blocked destructor still needs (closed-case rule of the oracle)"""
    ops = [list(o) for o in c.ops]
    ha = c.engine == "aggr1"
    scripts, built, sim = [], False, None
    for o in ops:
        if not o: continue
        if o[0] == 10 and not built and len(o) % 2 == 1 and len(scripts) < 12:
            sc = o[1:]
            scripts.append(sc if ha else [x if (i % 2 or x not in (8, 9)) else 12 for i, x in enumerate(sc)])
        elif o[0] == 0 and len(o) == 1 and not built:
            built = True
            sim = AggSim(scripts)
        elif sim is None:
            continue
        elif o[0] == 1 and len(o) == 3 and sim.st in ("init", "yield", "final") and 0 <= o[1] <= 6 and not (ha and o[1] == 1):
            sim.access()
        elif o[0] == 2 and len(o) == 4 and sim.st not in ("dead",) and 0 <= o[1] < len(sim.s) and sim.s[o[1]].st == "pend":
            sim.complete(o[1])
        elif o[0] == 3 and len(o) == 1 and sim.st in ("init", "yield", "final"):
            sim.destroy()
    if sim is not None:
        ops += sweeps(scripts)
    return Case(c.engine, c.name, ops, c.meta)


def sweeps(scripts):
    """Completion ops that close a case whatever order the implementation pops its completion queue in: every
    source is completed once per round (rejected when it is not suspended), for as many rounds as the longest chain
    of pending awaits.  With the library's FIFO queue the position-only simulation already issued every needed
    completion and these ops are all rejected."""
    rounds = 1 + max([sum(1 for i in range(0, len(sc) - 1, 2) if sc[i] == 3) for sc in scripts] + [0])
    out = []
    for _ in range(rounds):
        for i in range(len(scripts)):
            out.append([2, i, 1, 0])
    return out


def gen_case(rng, engine, name, scripts, n_acc, destroy_early, malformed, bg_complete_p=0.3):
    ha = engine == "aggr1"
    styles = [0, 2, 3, 4, 5, 6] if ha else [0, 1, 2, 3, 4, 5, 6]
    ops = [[10] + sc for sc in scripts]
    if malformed and rng.random() < 0.3:
        ops.append([1, 0, 0])
    ops.append([0])
    sim = AggSim(scripts)
    ended = 0
    mode = rng.random()
    if mode < 0.3:
        styles = [rng.choice(styles)]
    for a in range(n_acc):
        if sim.st == "final":
            ended += 1
            if ended > 2: break
        ops.append([1, rng.choice(styles), rng.randint(100, 160) if ha else 0])
        r = sim.access()
        while r == "pend":
            p = sim.pending()
            if not p: break
            if malformed and rng.random() < 0.3:
                ops.append(rng.choice([[1, 0, 0], [3], [4], [2, 99, 1, 0], [10, 1, 1], [0]]))
            i = rng.choice(p)
            ops.append([2, i, rng.randint(1, 50), rng.randint(0, 1)])
            r = sim.complete(i)
        # completions while the aggregate is parked (the source pushes into the queue on its own)
        while sim.st == "yield" and sim.pending() and rng.random() < bg_complete_p:
            i = rng.choice(sim.pending())
            ops.append([2, i, rng.randint(1, 50), rng.randint(0, 1)])
            sim.complete(i)
        if rng.random() < 0.1:
            ops.append([4])
        if destroy_early is not None and a + 1 >= destroy_early:
            break
    if rng.random() < 0.5:
        ops += sweeps(scripts)          # order-agnostic closing of an access that may still be outstanding
    if sim.st in ("init", "yield", "final"):
        ops.append([3])
        r = sim.destroy()
        while r == "pend":
            p = sim.pending()
            if not p: break
            if malformed and rng.random() < 0.3:
                ops.append(rng.choice([[1, 0, 0], [3], [4]]))
            i = rng.choice(p)
            ops.append([2, i, rng.randint(1, 50), rng.randint(0, 1)])
            r = sim.complete(i)
    ops += sweeps(scripts)              # ... and of a destructor that may still be blocked
    if malformed and rng.random() < 0.5:
        ops.append(rng.choice([[3], [1, 0, 0], [2, 0, 1, 0], [4]]))
    return Case(engine, name, ops)


def gen(seed, tier):
    rng = random.Random(seed * 15485863 + 14)
    quick = tier == "quick"
    cases = []
    b = 0
    # fixed boundary configurations: 0 sources, 1 source, only-empty sources, all throwing, 9 sources
    fixed = [
        [],
        [[1, 0, 1, 1, 1, 2]],
        [[], [], []],
        [[4, 1], [4, 2]],
        [[1, 0, 1, 1], [1, 1000, 4, 7], [1, 2000, 1, 2001, 1, 2002]],
        [[3, 1, 1, 0, 3, 1, 1, 1], [1, 1000, 3, 1, 1, 1001], [6, 120, 1, 2000, 1, 2001]],
        [[1, s * 1000, 1, s * 1000 + 1] for s in range(9)],
        [[3, 1, 1, s * 1000, 3, 1] for s in range(7)],
        [[6, 100, 1, 0, 3, 1, 6, 101, 1, 1], [6, 110, 3, 1, 1, 1000, 1, 1001], [3, 1, 4, 5]],
    ]
    for eng in ("aggr0", "aggr1"):
        for scs in fixed:
            for de in (None, 0, 1, 2, 4):
                cases.append(gen_case(rng, eng, "f%d" % b, scs, 24, de, False)); b += 1
    n = 220 if quick else 3000
    for i in range(n):
        eng = "aggr0" if i % 2 == 0 else "aggr1"
        ha = eng == "aggr1"
        ns = rng.choice([0, 1, 2, 2, 3, 3, 4, 5, 6, 8, 9])
        scripts = []
        for s in range(ns):
            kind = rng.choice(["sync", "sync", "pend", "pend", "throw", "empty", "mixed", "mixed"])
            nv = 0 if kind == "empty" else rng.randint(0 if kind == "throw" else 1, 4)
            scripts.append(script_for(rng, s, ha, kind, nv))
        if ha and rng.random() < 0.1 and scripts:
            scripts[0] = scripts[0] + [9, 0]     # an echo: compared with the model only
        de = rng.choice([None, None, None, 0, 1, 2, 3, 5])
        cases.append(gen_case(rng, eng, "g%d" % i, scripts, rng.randint(1, 30), de, rng.random() < 0.15,
                              bg_complete_p=rng.choice([0.0, 0.3, 0.8])))
    return cases


def nontrivial(case, model_obs):
    srcs = set()
    pend = False
    exc = False
    for l in model_obs:
        a = l.split()
        if len(a) > 2 and a[0] == "0":
            if a[1] == "1": srcs.add(int(a[2]) // 1000)
            if a[1] == "5": pend = True
            if a[1] == "2": exc = True
    return len(srcs) >= 2 or pend or exc


def signature(case, impl_obs, model_obs):
    last = impl_obs[-1] if impl_obs else ""
    if last.startswith("CRASH") and len(last.split()) > 1:
        kind = last.split()[1]
    elif last in ("HANG", "MISSING"):
        kind = last
    else:
        kind = "oracle"
    return "%s:%s" % (case.engine, kind)


# ---------------------------------------------------------------------------------------------------------------
# Two-pass correspondence.  C14 does not fix the order in which queued completions of different sources are popped,
# so the model takes that order as an input: the implementation runs first, the source of every delivered value is
# read off its trace (values are 1000*source + j) and handed to the model as the pop preference of that op.  A
# rewrite of the completion queue (LIFO, priority ...) therefore stays silent, while loss, duplication, per-source
# disorder, wrong termination etc. still show up in the oracle and in the comparison.
def has_echo(case):
    return any(o and o[0] == 10 and any(o[i] == 9 for i in range(1, len(o) - 1, 2)) for o in case.ops)


def augment(case, impl_obs):
    scripts = [o[1:] for o in case.ops if o and o[0] == 10 and len(o) % 2 == 1]
    vals = [set(sc[i + 1] for i in range(0, len(sc) - 1, 2) if sc[i] == 1) for sc in scripts]
    echo = [k for k, sc in enumerate(scripts) if any(sc[i] == 9 for i in range(0, len(sc) - 1, 2))] if case.engine == "aggr1" else []

    def source_of(v):
        cand = [k for k, vs in enumerate(vals) if v in vs]
        if len(cand) == 1 and not (echo and v < 1000):
            return cand[0]
        if not cand and len(echo) == 1:
            return echo[0]          # an echoed argument can only come from the one echoing source
        return None

    ops = []
    for k, op in enumerate(case.ops):
        o = list(op)
        if k < len(impl_obs) and o and o[0] in (1, 2):
            a = impl_obs[k].split()
            base = 3 if o[0] == 1 else 4
            if len(o) == base and len(a) > 2 and a[0] == "0" and a[1] == "1":
                try:
                    src = source_of(int(a[2]))
                    if src is not None:
                        o = o + [src]
                except ValueError:
                    pass
        ops.append(o)
    return Case(case.engine, case.name, ops, case.meta)


def n_throwers(case):
    return sum(1 for o in case.ops if o and o[0] == 10 and any(o[i] == 4 for i in range(1, len(o) - 1, 2)))


def obs_equal(case, m, i):
    """with two or more throwing sources the code of the reported exception depends on the pop order of the
    finished sources, which the value trace does not reveal: compare such lines by kind only (the oracle checks that
    the code is the code of one of the throwing sources)"""
    if m == i:
        return True
    if len(m) != len(i) or n_throwers(case) < 2:
        return False
    for lm, li in zip(m, i):
        if lm == li:
            continue
        a, b = lm.split(), li.split()
        if len(a) > 2 and len(b) > 2 and a[0] == b[0] == "0" and a[1] == b[1] == "2" and a[3:] == b[3:]:
            continue
        return False
    return True


def correspond2(ctx, part, cases):
    import sys
    prop = sys.modules[__name__]
    ok, binary, msg = vlib.build_harness(part["harness"], flags=part.get("flags", vlib.SAN_FLAGS),
                                         compiler=part.get("compiler", "g++"), extra=part.get("extra", ""))
    if not ok:
        ctx.notes.append({"kind": "harness-build", "harness": part["harness"], "log": msg})
        return
    impl, diag = vlib.run_impl(binary, cases, ctx.tmp, timeout_case=part.get("timeout_case", 20), env_extra=part.get("env"))
    aug = [augment(c, impl.get(c.name, [])) for c in cases]
    cpath = os.path.join(ctx.tmp, "cases2_%s.txt" % part["name"])
    vlib.write_cases(aug, cpath)
    model = vlib.modelrun(cpath)
    names = [c.name for c in cases]
    opath = os.path.join(ctx.tmp, "impl2_%s.txt" % part["name"])
    vlib.write_obs(impl, names, opath)
    verdict = vlib.oracle(cpath, opath)
    for c in cases:
        m, i = model.get(c.name, ["MISSING"]), impl.get(c.name, ["MISSING"])
        if i == ["SKIPPED"]:
            ctx.cov["skipped_after_failures"] = ctx.cov.get("skipped_after_failures", 0) + 1
            continue
        ctx.cov["evaluations"] += 1
        key = (c.engine, tuple(tuple(o) for o in c.ops))
        if nontrivial(c, m) and key not in ctx.distinct:
            ctx.distinct.add(key)
        for o in c.ops:
            k = "%s:op%s" % (c.engine, o[0] if o else "")
            ctx.cov["distribution"][k] = ctx.cov["distribution"].get(k, 0) + 1
        agree = obs_equal(c, m, i)
        crashed = bool(i) and (i[-1].startswith("CRASH") or i[-1] == "HANG" or i[-1] == "MISSING")
        orc = verdict.get(c.name, "MISSING")
        if agree and orc == "OK" and not crashed:
            ctx.cov["traces_validated_against_impl"] += 1
            continue
        if not agree:
            ctx.cov["disagreements"] += 1
        if orc != "OK" or crashed:
            ctx.failing.append({"case": c, "impl": i, "model": m, "why": "crash" if crashed else "oracle", "part": part,
                                "agree": agree, "diag": diag.get(c.name, "")})
        else:
            ctx.notes.append({"kind": "correspondence", "part": part["name"], "case": c.to_json(), "model": m, "impl": i})
    for c in cases[:2]:
        if len(ctx.cov["samples"]) < 6:
            ctx.cov["samples"].append(c.to_json())


def extra(ctx):
    correspond2(ctx, PARTS[0], gen(ctx.seed, ctx.tier))


# the generated cases go through the two-pass correspondence (extra); the standard one-pass path runs the corpus only
PARTS = [{"name": "vm_aggr", "harness": "vm_aggr.cpp", "gen": lambda seed, tier: [], "timeout_case": 3}]
