"""C04 — an async coroutine runs once, delivers to its bound party, frees once (async.h, future.h)."""
import itertools, random
from vlib import Case
from props.vmcommon import close_case, gen_random, events

RULE = ("scripted async<int> coroutines: every start mode (detach discarded/awaited, start() to a future, start(promise) with a free or an "
        "already claimed promise, co_await, never started + dropped) x completion (return v / throw e; synchronously, after a pause, after a "
        "suspension on a future resolved later by normal code or by another coroutine) x co_await nesting depth 0..6 (sampled to 12), from "
        "normal code and from inside a coroutine, plus random programs and a malformed stream; a case is non-trivial when the model trace "
        "has a coroutine bound to a future or a parent that finishes, or an unstarted frame that is destroyed; distinct = distinct program")
SCOPE = ("async<T>: start_coro/start_promise/start/detach/co_awaiter/~async, async_promise::final_awaiter/resolve/unhandled_exception; "
         "future<T>::set/resolve/value, promise<T>::claim — T = int, single thread")
ASSUMPTIONS = ["scripted VM: result type int; the direct-API part (engine aapi) adds join() with int/std::string/std::vector/unique_ptr/void results and "
               "with_allocator frames of free/member/lambda coroutines with a size-checking storage",
               "thread_pool::run is not modelled; in the VM part frame destruction is observed through the argument guard's destructor, "
               "AddressSanitizer and LeakSanitizer"]

L = lambda *a: list(a)


def completion(c, how, tag):
    """script tail of coroutine c"""
    out = []
    if how[0] == "pause": out.append(L(c, 2))
    if how[0] == "fut": out.append(L(c, 11, how[2]))
    out.append(L(c, 12, tag) if how[1] == "ret" else L(c, 13, tag))
    return out


def systematic():
    cases = []
    i = 0
    modes = ["detach", "start", "startp", "startp_claimed", "make_drop", "make_startp_claimed_drop", "make_startp_claimed_detach",
             "c_detach", "c_detachaw", "c_start", "c_startp", "c_startpaw", "c_startp_claimed", "c_coawait", "c_startp_claimedaw"]
    for mode in modes:
        for susp in ("sync", "pause", "fut"):
            for fin in ("ret", "throw"):
                for depth in (0, 1, 2, 6):
                    ops = [L(0, 9, 0), L(0, 9, 1)]      # f0: gate future, f1: promise target
                    c = 2                                  # the coroutine under test; 1 is the starter coroutine in c_* modes
                    body = []
                    # co_await chain below c: c -> 10 -> 11 -> ...
                    prev = c
                    for d in range(depth):
                        body.append(L(prev, 8, 10 + d)); body.append(L(prev, 1, 1000 + d)); prev = 10 + d
                    inner = prev
                    tail = completion(inner, (susp, fin, 0), 70 + depth)
                    if inner != c:
                        body += tail
                        body.append(L(c, 12, 5))
                    else:
                        body += tail
                    st = 0 if not mode.startswith("c_") else 1
                    m = mode[2:] if st else mode
                    pre = []
                    if st: pre.append(L(0, 5, 1, 0))
                    if m == "detach": pre.append(L(st, 5, c, 0))
                    elif m == "detachaw": pre.append(L(st, 5, c, 1))
                    elif m == "start": pre += [L(st, 6, c, 5)] + ([L(st, 11, 5)] if st else [])
                    elif m == "startp": pre += [L(st, 7, c, 1, 0)] + ([L(st, 11, 1)] if st else [])
                    elif m == "startpaw": pre += [L(st, 7, c, 1, 1), L(st, 11, 1)]
                    elif m == "startp_claimed": pre += [L(st, 10, 1, 0, 3, 0), L(st, 7, c, 1, 0), L(st, 1, 9), L(st, 4, c)]
                    elif m == "startp_claimedaw": pre += [L(st, 10, 1, 0, 3, 0), L(st, 7, c, 1, 1), L(st, 1, 9), L(st, 5, c, 0)]
                    elif m == "coawait": pre += [L(st, 8, c), L(st, 1, 8)]
                    elif m == "make_drop": pre += [L(st, 3, c), L(st, 1, 9), L(st, 4, c)]
                    elif m == "make_startp_claimed_drop": pre += [L(st, 3, c), L(st, 10, 1, 1, 4, 0), L(st, 7, c, 1, 0), L(st, 4, c)]
                    elif m == "make_startp_claimed_detach": pre += [L(st, 3, c), L(st, 10, 1, 2, 0, 0), L(st, 7, c, 1, 0), L(st, 5, c, 0)]
                    ops += pre + body
                    # a second waiter on the target future and the gate resolution
                    ops += [L(0, 5, 3, 0), L(3, 11, 1), L(3, 1, 33), L(0, 10, 0, 0, 42, 0)]
                    cases.append(close_case(Case("vm4", "s%d" % i, ops))); i += 1
    return cases


def gen(seed, tier):
    rng = random.Random(seed * 7001 + 4)
    cases = systematic()
    n = 300 if tier == "quick" else 4000
    for i in range(n):
        shape = rng.random()
        if shape < 0.3:
            w = {"completion": 0.9, "premake": 0.4, "spawn": 0.45, "pause": 0.1, "resolve": 0.2, "await": 0.2}
        elif shape < 0.5:
            w = {"completion": 0.9, "modes": ["coawait"], "spawn": 0.6, "pause": 0.1, "resolve": 0.1, "await": 0.1}     # deep co_await chains
        elif shape < 0.7:
            w = {"completion": 0.8, "modes": ["startp", "startpaw", "start"], "spawn": 0.4, "resolve": 0.3, "await": 0.2, "pause": 0.05}
        else:
            w = {"completion": 0.7, "premake": 0.2}
        cases.append(gen_random(rng, "vm4", "g%d" % i, w, ncoro=rng.randint(2, 12 if shape < 0.5 else 8)))
    return cases


def gen_api(seed, tier):
    """direct API scenarios (engine aapi): join() x result kinds x completion; with_allocator frames x coroutine flavour x parameter count"""
    rng = random.Random(seed * 911 + 44)
    cases = []
    i = 0
    for kind in range(5):
        for susp in range(3):
            ops = [L(1, kind, susp, rng.randint(0, 200)) for _ in range(2 if tier == "quick" else 6)]
            cases.append(Case("aapi", "j%d" % i, ops)); i += 1
    for how in range(3):
        for npar in range(1, 5):
            ops = [L(2, how, npar, start, rng.randint(1, 50)) for start in range(4)]
            cases.append(Case("aapi", "a%d" % i, ops)); i += 1
    for kind in range(5):
        cases.append(Case("aapi", "e%d" % i, [L(4, kind, 1, rng.randint(0, 99)), L(4, kind, 0, rng.randint(0, 99)), L(4, kind, 1, 5)])); i += 1
    for th in (1, 2, 3):
        cases.append(Case("aapi", "p%d" % i, [L(5, th, rng.randint(0, 99)) for _ in range(2)])); i += 1
    cases.append(Case("aapi", "d%d" % i, [L(3, d) for d in (0, 1, 7, 100)])); i += 1
    cases.append(Case("aapi", "o%d" % i, [L(6, 0, rng.randint(0, 99)), L(6, 1, rng.randint(0, 99)), L(6, 0, 3)])); i += 1
    for mode in range(5):
        cases.append(Case("aapi", "x%d" % i, [L(7, mode, 0, rng.randint(0, 99)), L(7, mode, 0, -rng.randint(1, 99)), L(7, mode, 1, -rng.randint(1, 99)),
                                               L(8, mode, 0, rng.randint(0, 99)), L(8, mode, 1, 0)])); i += 1
    for _ in range(10 if tier == "quick" else 100):
        ops = []
        for _ in range(rng.randint(2, 8)):
            r0 = rng.random()
            if r0 < 0.08: ops.append(rng.choice([L(6, rng.randint(0, 1), rng.randint(0, 99)), L(7, rng.randint(0, 4), rng.randint(0, 1), rng.randint(-50, 50)), L(8, rng.randint(0, 4), rng.randint(0, 1), rng.randint(0, 99))]))
            elif r0 < 0.15: ops.append(L(4, rng.randint(0, 4), rng.randint(0, 1), rng.randint(0, 99)))
            elif r0 < 0.2: ops.append(L(3, rng.randint(0, 300)))
            elif r0 < 0.6: ops.append(L(1, rng.randint(0, 4), rng.randint(0, 2), rng.randint(-50, 300)))
            else: ops.append(L(2, rng.randint(0, 2), rng.randint(1, 4), rng.randint(0, 3), rng.randint(-9, 99)))
        if rng.random() < 0.2: ops.insert(rng.randrange(len(ops) + 1), rng.choice([L(1, 7, 0, 0), L(2, 0, 5, 0, 1), L(3), L(2, 3, 1, 0, 1)]))
        cases.append(Case("aapi", "r%d" % i, ops)); i += 1
    return cases


def gen_deep(seed, tier):
    """co_await chains far deeper than any native stack allows (no sanitizers, -O2): the depth is unbounded in the property"""
    rng = random.Random(seed * 313 + 4)
    depths = [1000, 50000, 300000] if tier == "quick" else [1000, 50000, 300000, 600000, 1000000]
    return [Case("aapi", "deep%d" % i, [L(3, d + rng.randint(0, 9))]) for i, d in enumerate(depths)]


def nontrivial(case, model_obs):
    if case.engine == "aapi":
        return any(l.split()[0] == "0" for l in model_obs if l)
    bound = {a[1] for a in events(model_obs, 16) if a[2] in ("1", "2")}
    fin = {a[1] for a in events(model_obs, 3)}
    started = {a[1] for a in events(model_obs, 16)}
    dropped = [a for a in events(model_obs, 10) if a[1] not in started]
    return bool(bound & fin) or bool(dropped)


def signature(case, impl_obs, model_obs):
    last = impl_obs[-1] if impl_obs else ""
    if case.engine == "aapi":
        if last.startswith("CRASH"):
            return "aapi:" + (last.split()[1] if len(last.split()) > 1 else "crash")
        return "aapi:" + (last if last in ("HANG", "MISSING") else "oracle")
    if last.startswith("CRASH"):
        return "vm4:" + (last.split()[1] if len(last.split()) > 1 else "crash")
    if last in ("HANG", "MISSING"):
        return "vm4:" + last
    return "vm4:oracle"


PARTS = [{"name": "vm", "harness": "vm.cpp", "gen": gen, "timeout_case": 10},
         {"name": "api", "harness": "seq_async.cpp", "gen": gen_api, "timeout_case": 10},
         {"name": "deep", "harness": "seq_async_deep.cpp", "gen": gen_deep, "timeout_case": 20, "flags": "-O2 -g", "no_shrink": True}]
