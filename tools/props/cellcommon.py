"""shared generator for the future/promise cell scenarios (C01, C02)"""
import itertools, os, random, tempfile
import vlib
from vlib import Case

ENGINES = ["cell_int", "cell_void", "cell_uptr", "cell_ref", "cell_cnt"]


def mk(engine, name, resolvers, waiters, sched, order=None):
    decl = [[1, k, d] for (k, d) in resolvers] + [[2, k] for k in waiters]
    if order is not None:
        decl = [decl[i] for i in order]
    ops = decl + [[9] + list(sched)]
    return Case(engine, name, ops)


def gen(seed, tier, focus):
    rng = random.Random(seed * 1000003 + (101 if focus == "resolvers" else 202))
    n = (500 if focus == "resolvers" else 1200) if tier == "quick" else (6000 if focus == "resolvers" else 4000)
    cases = []
    for i in range(n):
        eng = ENGINES[i % len(ENGINES)]
        if focus == "resolvers":
            nr = rng.choice([2, 2, 3, 3, 4]); nw = rng.choice([0, 0, 1, 1, 2])
        else:
            nr = rng.choice([0, 1, 1, 1, 2]); nw = rng.choice([1, 2, 2, 3, 3])
        res = [(rng.choice([0, 0, 1, 2, 3, 4, 4, 5, 6, 7, 7]), rng.randint(1, 99)) for _ in range(nr)]
        wai = [rng.choice([0, 1, 2, 3, 4, 5]) for _ in range(nw)]
        if focus == "waiters" and i % 6 == 5:
            # boundary of the suspend point (3 inline slots): 4-6 coroutine waiters and a resolver that pops a handle
            wai = [rng.choice([0, 0, 4]) for _ in range(rng.randint(4, 6))]
            res = [(rng.choice([4, 7, 7, 5]), rng.randint(1, 99))] + ([(rng.choice([0, 7]), rng.randint(1, 99))] if rng.random() < 0.3 else [])
            nr, nw = len(res), len(wai)
        order = list(range(nr + nw)); rng.shuffle(order)
        L = rng.choice([0, 4, 8, 12, 20, 30]) if nw <= 3 else rng.choice([0, 10, 20, 30, 40])
        style = rng.random()
        if style < 0.6:
            sched = [rng.randint(0, 5) for _ in range(L)]
        elif style < 0.8:   # bursts: run one thread for a while, then switch (exposes windows)
            sched = []
            while len(sched) < L:
                k = rng.randint(0, 5); sched += [k] * rng.randint(1, 4)
        else:               # mostly last-enabled first
            sched = [rng.choice([5, 4, 3, 0]) for _ in range(L)]
        cases.append(mk(eng, "%s%d" % (focus[0], i), res, wai, sched, order))
    if tier != "quick" and focus == "waiters":
        cases += exhaustive_2w1r()
    if tier != "quick" and focus == "resolvers":
        # systematic: every schedule prefix of length 7 over 3 choices for small configurations
        cfgs = [([(0, 5), (1, 6)], [0]), ([(0, 5), (2, 0)], [1]), ([(0, 5)], [0, 2]), ([(3, 0), (0, 9)], [3]),
                ([(0, 5)], [1, 1]), ([], [0, 1]), ([(1, 4), (0, 5), (2, 0)], [])]
        j = 0
        for (res, wai) in cfgs:
            for pre in itertools.product(range(3), repeat=7):
                cases.append(mk("cell_int", "x%d" % j, res, wai, pre)); j += 1
    return cases


def exhaustive_2w1r():
    """every schedule of 2 waiters (all 21 unordered kind pairs of 6 kinds) x 1 resolver (each of 7 explicit kinds, or none =
    the destructor of the shared promise resolves), enumerated by the extracted model itself (CellDefs.cell_enum)"""
    cfgs = []
    # all 21 waiter kind pairs for: no resolver (the destructor resolves), value, async completion, co_await promise(v);
    # exception / drop / move-then-destroy / async-by-exception have the step structure of one of those: 6 mixed pairs each
    some = [(0, 1), (1, 2), (2, 3), (3, 4), (4, 5), (0, 5)]
    for r in [None, (0, 5), (4, 7), (7, 9), (1, 6), (2, 0), (3, 0), (5, 8)]:
        full = r is None or r[0] in (0, 4, 7)
        for w1 in range(6):
            for w2 in range(w1, 6):
                if full or (w1, w2) in some:
                    cfgs.append((([r] if r else []), [w1, w2]))
    enum = [Case("cell_enum", "e%d" % i, [[1, k, d] for (k, d) in res] + [[2, k] for k in wai])
            for i, (res, wai) in enumerate(cfgs)]
    fd, path = tempfile.mkstemp(prefix="cell_enum.", dir="/var/tmp"); os.close(fd)
    try:
        vlib.write_cases(enum, path)
        scheds = vlib.modelrun(path)
    finally:
        os.remove(path)
    out = []
    for i, (res, wai) in enumerate(cfgs):
        eng = ENGINES[i % len(ENGINES)]
        for j, line in enumerate(scheds["e%d" % i]):
            sched = [int(x) for x in line.split()][1:]
            out.append(mk(eng, "a%d_%d" % (i, j), res, wai, sched))
    return out


def gen_stress(seed, tier):
    """real-thread runs: op 30 trials wkind1 wkind2 rkind jitter (see harness/stress_cell.cpp)"""
    rng = random.Random(seed * 7919 + 303)
    trials = 3000 if tier == "quick" else 30000
    cases = []
    cfgs = [(1, 1, 0), (1, 2, 0), (2, 2, 0), (0, 2, 0), (0, 1, 4), (2, 1, 6), (1, 0, 2), (2, 0, 4)]
    for j, (a, b, r) in enumerate(cfgs):
        for jit in (0, 40, 400, 4000):
            cases.append(Case("cell_stress", "s%d_%d" % (j, jit), [[30, trials + rng.randint(0, 9), a, b, r, jit]]))
    return cases


PROM_ENGINES = ["prom_int", "prom_void", "prom_uptr", "prom_ref", "prom_cnt"]


def gen_prom(seed, tier, waiters=False):
    """op sequences over 4 promise slots, 2 bind closures and 3 futures (harness/seq_prom.cpp).  A shadow of which slot
    holds an object / is believed to own a future only steers the choice of ops (mostly valid, aimed at: assignment onto a
    live / empty promise from a live / empty / moved-from source, self assignment, calls through moved-from promises,
    explicit drop, bind closures called twice or dropped, waiters parked on a future whose promise is overwritten)."""
    rng = random.Random(seed * 104729 + 404)
    n = (300 if waiters else 600) if tier == "quick" else (3000 if waiters else 8000)
    cases = []
    for i in range(n):
        eng = PROM_ENGINES[i % len(PROM_ENGINES)]
        obj = [False] * 4; own = [None] * 4; clo = [None] * 2; clo_obj = [False] * 2
        taken = [False] * 3; wid = 0
        ops = []
        if waiters:   # C02 focus: two live promises whose futures already have parked waiters of both kinds
            ops = [[1, 0, 0], [1, 1, 1], [14, 0, 0, rng.randint(0, 1)], [14, 1, 0, rng.randint(0, 1)], [14, 2, 1, rng.randint(0, 1)]]
            obj[0] = obj[1] = True; own[0] = 0; own[1] = 1; taken[0] = taken[1] = True; wid = 3
        L = rng.choice([4, 6, 8, 10, 14, 20])
        for _ in range(L):
            r = rng.random()
            free_cells = [c for c in range(3) if not taken[c]]
            live = [p for p in range(4) if obj[p]]
            dead = [p for p in range(4) if not obj[p]]
            if r < 0.08:   # malformed / out of range / wrong state
                ops.append(rng.choice([[3, rng.randint(0, 5), rng.randint(0, 5)], [6, rng.randint(0, 5), 1], [2, rng.randint(0, 4), rng.randint(0, 4)],
                                       [1, rng.randint(0, 4), rng.randint(0, 3)], [5, rng.randint(0, 5)], [10, rng.randint(0, 2)], [99], [3, -1, 0],
                                       [14, wid, rng.randint(0, 3), rng.randint(0, 2)], [9, rng.randint(0, 2), rng.randint(0, 4), 5]]))
                if eng == "prom_ref" and ops[-1][0] == 9:   # bind decays its arguments: not offered for reference futures
                    ops.pop()
                continue
            kind = rng.choice(["get", "get", "movec", "assign", "assign", "assign", "assignget", "destroy", "unwind", "val", "val", "exc", "drop",
                               "bind", "callclo", "destroyclo", "sub", "sub", "qcell", "qprom"])
            if kind == "get" and dead and free_cells:
                p = rng.choice(dead); c = rng.choice(free_cells)
                ops.append([1, p, c]); obj[p] = True; own[p] = c; taken[c] = True
            elif kind == "movec" and dead and live:
                p = rng.choice(dead); q = rng.choice(live)
                ops.append([2, p, q]); obj[p] = True; own[p] = own[q]; own[q] = None
            elif kind == "assign" and live:
                p = rng.choice(live); q = rng.choice(live)
                ops.append([3, p, q])
                if p != q: own[p] = own[q]; own[q] = None
            elif kind == "assignget" and live and free_cells:
                p = rng.choice(live); c = rng.choice(free_cells)
                ops.append([4, p, c]); own[p] = c; taken[c] = True
            elif kind == "destroy" and live:
                p = rng.choice(live); ops.append([5, p]); obj[p] = False; own[p] = None
            elif kind == "unwind" and live:
                p = rng.choice(live); ops.append([12, p]); own[p] = None
            elif kind == "val" and live:
                p = rng.choice(live); ops.append([6, p, rng.randint(1, 99)]); own[p] = None
            elif kind == "exc" and live:
                p = rng.choice(live); ops.append([7, p, rng.randint(1, 99)]); own[p] = None
            elif kind == "drop" and live:
                p = rng.choice(live); ops.append([8, p]); own[p] = None
            elif kind == "bind" and live and eng != "prom_ref" and not all(clo_obj):
                q = rng.choice([x for x in range(2) if not clo_obj[x]]); p = rng.choice(live)
                ops.append([9, q, p, rng.randint(1, 99)]); clo_obj[q] = True; own[p] = None
            elif kind == "callclo" and any(clo_obj):
                ops.append([10, rng.choice([x for x in range(2) if clo_obj[x]])])
            elif kind == "destroyclo" and any(clo_obj):
                q = rng.choice([x for x in range(2) if clo_obj[x]]); ops.append([11, q]); clo_obj[q] = False
            elif kind == "sub" and any(taken):
                c = rng.choice([x for x in range(3) if taken[x]]); ops.append([14, wid, c, rng.randint(0, 1)]); wid += 1
            elif kind == "qcell":
                ops.append([15, rng.randint(0, 2)])
            elif kind == "qprom" and live:
                ops.append([16, rng.choice(live)])
        cases.append(Case(eng, "p%d" % i, ops))
    if tier != "quick":
        # systematic: every pair of states (live / empty / moved-from) for target and source of an assignment, with a waiter
        j = 0
        for tgt in range(3):
            for src in range(3):
                for wk in range(2):
                    for after in ([6, 0, 5], [6, 1, 5], [8, 1], [5, 1], [2, 2, 1], [3, 1, 0], [12, 0]):
                        ops = [[1, 0, 0], [1, 1, 1], [14, 0, 0, wk], [14, 1, 1, wk]]
                        ops += {0: [], 1: [[8, 0]], 2: [[2, 2, 0]]}[tgt]
                        ops += {0: [], 1: [[8, 1]], 2: [[2, 3, 1]]}[src]
                        ops += [[3, 0, 1], [15, 0], [15, 1], [16, 0], [16, 1], after, [15, 0], [15, 1]]
                        cases.append(Case(PROM_ENGINES[j % 5], "ps%d" % j, ops)); j += 1
    return cases


AW_ENGINES = ["aw_int", "aw_void", "aw_uptr", "aw_ref", "aw_cnt"]


def gen_aw(seed, tier):
    """re-used awaiter objects (harness/seq_aw.cpp): 2 hand-written awaiters and 2 call_fn_future_awaiters wait repeatedly on
    3 external futures / their internal futures; aimed at: wait on an already resolved future (refused) followed by another
    wait of the same object on a resolved future, on a pending one that is resolved later, several awaiters chained on one
    future, futures re-created in between, promise called twice."""
    rng = random.Random(seed * 15485863 + 505)
    n = 500 if tier == "quick" else 8000
    cases = []
    for i in range(n):
        eng = AW_ENGINES[i % 5]
        ops = []
        L = rng.choice([3, 5, 8, 12, 18, 25])
        for _ in range(L):
            r = rng.random()
            if r < 0.06:
                ops.append(rng.choice([[20, rng.randint(0, 4), rng.randint(0, 5)], [21, rng.randint(0, 3), rng.randint(0, 2), 1],
                                       [22, rng.randint(0, 6), rng.randint(0, 3), 1], [23, rng.randint(0, 5), 1, 1], [99], [24, 7], [20, -1, 0]]))
            elif r < 0.30:
                ops.append([20, rng.randint(0, 1), rng.randint(0, 2)])
            elif r < 0.52:
                ops.append([21, rng.randint(0, 1), rng.choice([0, 1, 1]), rng.randint(1, 99)])
            elif r < 0.78:
                ops.append([22, rng.randint(0, 4), rng.choice([0, 0, 0, 1, 2]), rng.randint(1, 99)])
            elif r < 0.92:
                ops.append([23, rng.randint(0, 2), rng.choice([0, 1, 1]), rng.randint(1, 99)])
            else:
                ops.append([24, rng.randint(0, 4)])
        cases.append(Case(eng, "w%d" % i, ops))
    # systematic: first wait (resolved | pending then resolved | pending, still parked is impossible for reuse), second wait x same
    j = 0
    for style in (0, 1):
        for first in (0, 1):
            for second in (0, 1):
                for third in (0, 1):
                    ops = []
                    for k, mode in enumerate((first, second, third)):
                        if style == 0:
                            c = k % 3
                            if mode: ops += [[22, c, 0, 10 + k], [20, 0, c]]
                            else: ops += [[20, 0, c], [20, 1, c], [22, c, 0, 10 + k]]
                        else:
                            if mode: ops += [[21, 0, 1, 10 + k]]
                            else: ops += [[21, 0, 0, 0], [22, 3, 0, 10 + k]]
                    cases.append(Case(AW_ENGINES[j % 5], "ws%d" % j, ops)); j += 1
    return cases


def nontrivial(case, model_obs):
    if case.engine == "cell_stress":
        return True
    if case.engine.startswith("aw_"):
        # some awaiter object answered at least two waits
        ids = [l.split()[1] for l in model_obs if l.startswith("0 ") and len(l.split()) == 4]
        for l in model_obs:
            t = l.split()
            if t and t[0] == "1" and len(t) > 1 and (len(t) - 1) % 3 == 0 and len(t) > 3:
                ids += t[1::3]
        return any(ids.count(x) >= 2 for x in ids)
    if case.engine.startswith("prom_"):
        # at least one move operation accepted and at least one future resolved
        kinds = [o[0] for o in case.ops if o]
        return any(k in (2, 3, 4, 9) for k in kinds) and any(l.split()[0] == "1" for l in model_obs[:len(case.ops)])
    # a schedule is non-trivial when at least two different threads take steps before the first one finishes,
    # i.e. the trace is not a concatenation of whole threads
    tids = [l.split()[0] for l in model_obs if len(l.split()) == 2]
    switches = sum(1 for a, b in zip(tids, tids[1:]) if a != b)
    return switches >= 3


def signature(case, impl_obs, model_obs):
    if case.engine == "cell_stress":
        return "cell:stress"
    if case.engine.startswith("aw_"):
        last = impl_obs[-1] if impl_obs else ""
        return "aw:" + (last.split()[1] if last.startswith("CRASH") else "HANG" if last == "HANG" else "oracle")
    if case.engine.startswith("prom_"):
        last = impl_obs[-1] if impl_obs else ""
        return "prom:" + (last.split()[1] if last.startswith("CRASH") else "HANG" if last == "HANG" else "oracle")
    last = impl_obs[-1] if impl_obs else ""
    if last.startswith("CRASH"):
        return "cell:" + last.split()[1]
    if last == "HANG":
        return "cell:HANG"
    if any(l.startswith("777") for l in impl_obs):
        return "cell:deadlock"
    return "cell:oracle"
