"""shared generator for the future/promise cell scenarios (C01, C02)"""
import itertools, os, random, tempfile
import vlib
from vlib import Case

ENGINES = ["cell_int", "cell_void", "cell_uptr", "cell_ref", "cell_cnt"]


def mk(engine, name, resolvers, waiters, sched, order=None):
    decl = [[1, k, d] for (k, d) in resolvers] + [[2, k] for k in waiters]
    if order is not None:
        decl = [decl[i] for i in order]
    ops = decl + [[9] + list(sched)]
    return Case(engine, name, ops)


def gen(seed, tier, focus):
    rng = random.Random(seed * 1000003 + (101 if focus == "resolvers" else 202))
    n = (500 if focus == "resolvers" else 1200) if tier == "quick" else (6000 if focus == "resolvers" else 4000)
    cases = []
    for i in range(n):
        eng = ENGINES[i % len(ENGINES)]
        if focus == "resolvers":
            nr = rng.choice([2, 2, 3, 3, 4]); nw = rng.choice([0, 0, 1, 1, 2])
        else:
            nr = rng.choice([0, 1, 1, 1, 2]); nw = rng.choice([1, 2, 2, 3, 3])
        res = [(rng.choice([0, 0, 1, 2, 3, 4, 4, 5]), rng.randint(1, 99)) for _ in range(nr)]
        wai = [rng.choice([0, 1, 2, 3, 4]) for _ in range(nw)]
        order = list(range(nr + nw)); rng.shuffle(order)
        L = rng.choice([0, 4, 8, 12, 20, 30])
        style = rng.random()
        if style < 0.6:
            sched = [rng.randint(0, 5) for _ in range(L)]
        elif style < 0.8:   # bursts: run one thread for a while, then switch (exposes windows)
            sched = []
            while len(sched) < L:
                k = rng.randint(0, 5); sched += [k] * rng.randint(1, 4)
        else:               # mostly last-enabled first
            sched = [rng.choice([5, 4, 3, 0]) for _ in range(L)]
        cases.append(mk(eng, "%s%d" % (focus[0], i), res, wai, sched, order))
    if tier != "quick" and focus == "waiters":
        cases += exhaustive_2w1r()
    if tier != "quick" and focus == "resolvers":
        # systematic: every schedule prefix of length 7 over 3 choices for small configurations
        cfgs = [([(0, 5), (1, 6)], [0]), ([(0, 5), (2, 0)], [1]), ([(0, 5)], [0, 2]), ([(3, 0), (0, 9)], [3]),
                ([(0, 5)], [1, 1]), ([], [0, 1]), ([(1, 4), (0, 5), (2, 0)], [])]
        j = 0
        for (res, wai) in cfgs:
            for pre in itertools.product(range(3), repeat=7):
                cases.append(mk("cell_int", "x%d" % j, res, wai, pre)); j += 1
    return cases


def exhaustive_2w1r():
    """every schedule of 2 waiters (all 15 unordered kind pairs) x 1 resolver (each of the 6 explicit kinds, or none =
    the destructor of the shared promise resolves), enumerated by the extracted model itself (CellDefs.cell_enum)"""
    cfgs = []
    for r in [None, (0, 5), (1, 6), (2, 0), (3, 0), (4, 7), (5, 8)]:
        for w1 in range(5):
            for w2 in range(w1, 5):
                cfgs.append((([r] if r else []), [w1, w2]))
    enum = [Case("cell_enum", "e%d" % i, [[1, k, d] for (k, d) in res] + [[2, k] for k in wai])
            for i, (res, wai) in enumerate(cfgs)]
    fd, path = tempfile.mkstemp(prefix="cell_enum.", dir="/var/tmp"); os.close(fd)
    try:
        vlib.write_cases(enum, path)
        scheds = vlib.modelrun(path)
    finally:
        os.remove(path)
    out = []
    for i, (res, wai) in enumerate(cfgs):
        eng = ENGINES[i % len(ENGINES)]
        for j, line in enumerate(scheds["e%d" % i]):
            sched = [int(x) for x in line.split()][1:]
            out.append(mk(eng, "a%d_%d" % (i, j), res, wai, sched))
    return out


def gen_stress(seed, tier):
    """real-thread runs: op 30 trials wkind1 wkind2 rkind jitter (see harness/stress_cell.cpp)"""
    rng = random.Random(seed * 7919 + 303)
    trials = 3000 if tier == "quick" else 30000
    cases = []
    cfgs = [(1, 1, 0), (1, 2, 0), (2, 2, 0), (0, 2, 0), (0, 1, 4), (2, 1, 6), (1, 0, 2), (2, 0, 4)]
    for j, (a, b, r) in enumerate(cfgs):
        for jit in (0, 40, 400, 4000):
            cases.append(Case("cell_stress", "s%d_%d" % (j, jit), [[30, trials + rng.randint(0, 9), a, b, r, jit]]))
    return cases


def nontrivial(case, model_obs):
    if case.engine == "cell_stress":
        return True
    # a schedule is non-trivial when at least two different threads take steps before the first one finishes,
    # i.e. the trace is not a concatenation of whole threads
    tids = [l.split()[0] for l in model_obs if len(l.split()) == 2]
    switches = sum(1 for a, b in zip(tids, tids[1:]) if a != b)
    return switches >= 3


def signature(case, impl_obs, model_obs):
    if case.engine == "cell_stress":
        return "cell:stress"
    last = impl_obs[-1] if impl_obs else ""
    if last.startswith("CRASH"):
        return "cell:" + last.split()[1]
    if last == "HANG":
        return "cell:HANG"
    if any(l.startswith("777") for l in impl_obs):
        return "cell:deadlock"
    return "cell:oracle"
